#!/bin/bash
# MANIFEST.setup_cmd: offline build of the harness (release variant with hooks on) from files on disk.
# Other variants (chk/asan/tsan/miri) are built on demand by the thorough tier.
set -e
cd "$(dirname "$0")/harness"
export CARGO_NET_OFFLINE=true
export RUSTFLAGS="--cfg noodles_verif"
export CARGO_TARGET_DIR="$(dirname "$PWD")/target/rel"
cargo build --release --offline --workspace 2>&1 | tail -3
