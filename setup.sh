#!/bin/bash
# MANIFEST.setup_cmd: offline build of the harness binaries of every claimed check (release variant, hooks on)
# from files on disk. Other variants (chk/asan/tsan/miri) are built on demand by the thorough tier.
set -e
here="$(cd "$(dirname "$0")" && pwd)"
cd "$here/harness"
export CARGO_NET_OFFLINE=true
export RUSTFLAGS="--cfg noodles_verif"
export CARGO_TARGET_DIR="$here/target/rel"
pkgs=$(python3 -c "
import json
m = json.load(open('$here/MANIFEST.json'))
print(' '.join('-p ' + c['property_id'].lower() for c in m['checks']))")
cargo build --release --offline $pkgs 2>&1 | tail -3
