#!/usr/bin/env python3
"""Rewrites DESIGN.md §12.4 (between the SEEDED-TABLE markers) from seeded/STATUS.tsv and seeded/*/meta.json."""
import json, os
ROOT = os.path.dirname(os.path.dirname(os.path.abspath(__file__)))
rows = []
for l in open(os.path.join(ROOT, 'seeded', 'STATUS.tsv')):
    if l.startswith('#') or not l.strip():
        continue
    f = l.rstrip('\n').split('\t')
    name, prop, first, after, sig = (f + [''] * 5)[:5]
    mp = os.path.join(ROOT, 'seeded', name, 'meta.json')
    title = needs = ''
    if os.path.exists(mp):
        m = json.load(open(mp))
        title = str(m.get('title', '')).replace('|', '/')
        needs = str(m.get('needs_to_manifest', '')).replace('|', '/').replace('\n', ' ')
    rows.append((name, title, needs[:170] + ('…' if len(needs) > 170 else ''), first, after, sig.replace('|', '/')[:90]))
caught_first = sum(1 for r in rows if r[3].startswith('CAUGHT'))
out = ["<!-- SEEDED-TABLE-BEGIN -->",
       f"{len(rows)} confirmed seeded changes; {caught_first} caught by the quick tier as first built, "
       f"{len(rows) - caught_first} caught after the monitor was strengthened (or by the property they actually break).",
       "",
       "| change | what was seeded | needs to manifest | first run | after strengthening | first signature |",
       "|---|---|---|---|---|---|"]
for r in rows:
    out.append("| " + " | ".join(r) + " |")
out.append("<!-- SEEDED-TABLE-END -->")
p = os.path.join(ROOT, 'DESIGN.md')
s = open(p).read()
a, b = s.index("<!-- SEEDED-TABLE-BEGIN -->"), s.index("<!-- SEEDED-TABLE-END -->") + len("<!-- SEEDED-TABLE-END -->")
open(p, 'w').write(s[:a] + "\n".join(out) + s[b:])
print(len(rows), "rows")
