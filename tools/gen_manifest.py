#!/usr/bin/env python3
"""Regenerates MANIFEST.json from tools/manifest_entries.json (claimed checks) — keeps it valid at all times."""
import json
import os
import subprocess

ROOT = os.path.dirname(os.path.dirname(os.path.abspath(__file__)))
entries = json.load(open(os.path.join(ROOT, "tools", "manifest_entries.json")))
props = [json.loads(l)["id"] for l in open(os.path.join(ROOT, "properties.jsonl"))]
hooks = subprocess.run(["git", "-C", "/repo", "log", "--format=%H %s"], capture_output=True, text=True).stdout.splitlines()
hook_commits = [l.split()[0] for l in hooks if " verif" in l.split(" ", 1)[1][:12] or l.split(" ", 1)[1].startswith("verif")]
checks = []
for pid in props:
    e = entries["checks"].get(pid)
    if not e:
        continue
    checks.append({
        "property_id": pid,
        "quick_cmd": f"./check {pid} quick",
        "thorough_cmd": f"./check {pid} thorough",
        "evidence_file": f"/verif/evidence/{pid}.json",
        "replay_cmd_template": f"./check {pid} --replay {{path}}",
        "engine": "vmon",
        "level_claimed": {"category": e["category"], "text": e["text"], "design_ref": e.get("design_ref", f"DESIGN.md §6 {pid}")},
        "level_note": e["note"],
        "technique": e["technique"],
    })
na = [{"property_id": pid, "reason": entries["not_applicable"].get(pid, "check not built yet in this session; see DESIGN.md §6 for the planned monitor")}
      for pid in props if pid not in entries["checks"]]
m = {
    "version": 1,
    "setup_cmd": "./setup.sh",
    "hooks": {
        "guard": "--cfg noodles_verif",
        "enable": "RUSTFLAGS=\"--cfg noodles_verif\" (set by ./check and ./setup.sh for every harness build; /repo crates are path dependencies of /verif/harness)",
        "baseline_off_cmd": "cd /repo && cargo nextest run --workspace --no-fail-fast --offline",
        "source_commits": hook_commits,
        "add_only": True,
    },
    "engines": [{"name": "vmon", "path": "/verif/harness", "serves_properties": [c["property_id"] for c in checks],
                 "kind_free_text": "Rust monitoring harness (one binary per property, cases run in child processes) driven by /verif/check (python3): generated hostile workloads against the real code, oracles = independent implementations / reference models / inverse twins, panic+abort+CPU-time monitors, sanitizer stages (ASan/TSan/Miri) in the thorough tier"}],
    "checks": checks,
    "notes": entries.get("notes", ""),
    "not_applicable": na,
}
json.dump(m, open(os.path.join(ROOT, "MANIFEST.json"), "w"), indent=1)
print(f"MANIFEST.json: {len(checks)} checks, {len(na)} not claimed")
