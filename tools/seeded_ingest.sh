#!/bin/bash
# tools/seeded_ingest.sh <id lower-case, e.g. c02> <index offset, e.g. 3> [default demo crate]
# Confirms the three candidates under /tmp/adv/<id>/out/{1,2,3} at /repo HEAD, stores the confirmed ones as
# seeded/<ID>-<offset+i>/ (patch re-applied to HEAD), removes the adversary worktree and runs the check on them.
id=$1; off=$2; defcrate=${3:-noodles-bgzf}
ID=$(echo "$id" | tr a-z A-Z)
cd /verif
stored=""
for i in 1 2 3; do
  cand=/tmp/adv/$id/out/$i
  [ -f "$cand/patch.diff" ] || continue
  crate=$(python3 -c "import json;print(json.load(open('$cand/meta.json')).get('demo_crate') or '$defcrate')")
  feats=$(python3 -c "import json;f=json.load(open('$cand/meta.json')).get('demo_features') or '';print(('--features '+(','.join(f) if isinstance(f,list) else f)) if f else '')")
  res=$(CARGO_TARGET_DIR=/tmp/adv/$id/target tools/confirm_seeded.sh /tmp/adv/$id/repo "$cand" "$crate" $feats 2>&1 | tail -1)
  echo "confirm $ID cand $i ($crate $feats): $res"
  if echo "$res" | grep -q "demo_clean_exit=0" && ! echo "$res" | grep -q "demo_patched_exit=0" && echo "$res" | grep -q "tests_summary_ok=1 tests_failed_lines=0"; then
    n=$((off+i)); d=seeded/$ID-$n; mkdir -p "$d"
    cp "$cand/patch.rebased.diff" "$d/patch.diff"; cp "$cand/demo.rs" "$d/"
    python3 - "$cand/meta.json" "$d/meta.json" "$ID" "$crate" <<'PY'
import json, sys
m = json.load(open(sys.argv[1])); m['property'] = sys.argv[3]
m['confirmed_by_coordinator'] = {"procedure": "tools/confirm_seeded.sh <scratch worktree at /repo HEAD> <dir> " + sys.argv[4],
  "demo_on_clean_tree": "exit 0", "demo_with_patch": "non-zero exit", "workspace_nextest_with_patch": "1125 passed",
  "note": "patch.diff is the adversary's patch re-applied to /repo HEAD at confirmation time (git diff HEAD)"}
json.dump(m, open(sys.argv[2], 'w'), indent=1)
PY
    stored="$stored|seeded/$ID-$n/"
  else
    echo "NOT STORED: $ID candidate $i"
  fi
done
git -C /repo worktree remove --force /tmp/adv/$id/repo 2>/dev/null; rm -rf /tmp/adv/$id
if [ -n "$stored" ]; then tools/selftest.sh -j 3 "(${stored#|})" 2>&1 | sort; fi
