#!/usr/bin/env python3
"""Rewrites DESIGN.md §12.5 (between the FINAL-STATE markers) from KNOWN_FINDINGS.txt, findings/*.known, seeded/STATUS.tsv,
mutants/ and evidence/*.json."""
import glob, json, os, re, collections
ROOT = os.path.dirname(os.path.dirname(os.path.abspath(__file__)))
ids = [f"C{i:02d}" for i in range(1, 21)]
fixed = collections.Counter(); fixed_commits = collections.defaultdict(set)
for l in open(os.path.join(ROOT, 'KNOWN_FINDINGS.txt')):
    m = re.match(r'fixed: property=(C\d\d) (\w+)', l)
    if m:
        fixed[m.group(1)] += 1; fixed_commits[m.group(1)].add(m.group(2))
known = collections.Counter()
for f in glob.glob(os.path.join(ROOT, 'findings', '*.known')) + [os.path.join(ROOT, 'KNOWN_FINDINGS.txt')]:
    for l in open(f):
        m = re.match(r'known: property=(C\d\d)', l)
        if m: known[m.group(1)] += 1
seeded = collections.Counter(); first = collections.Counter(); after = collections.Counter(); outside = collections.Counter()
for l in open(os.path.join(ROOT, 'seeded', 'STATUS.tsv')):
    if l.startswith('#') or not l.strip(): continue
    f = (l.rstrip('\n').split('\t') + [''] * 5)[:5]
    seeded[f[1]] += 1
    if f[2].startswith('CAUGHT'): first[f[1]] += 1
    elif f[3].startswith('CAUGHT by') or 'not a ' in f[2]: outside[f[1]] += 1
    elif f[3].startswith('CAUGHT'): after[f[1]] += 1
    else: outside[f[1]] += 1
mut = collections.Counter(os.path.basename(p).split('-')[0] for p in glob.glob(os.path.join(ROOT, 'mutants', '*.diff')))
rows = []
for i in ids:
    ev = {}
    p = os.path.join(ROOT, 'evidence', i + '.json')
    if os.path.exists(p):
        try: ev = json.load(open(p))
        except Exception: ev = {}
    rows.append(f"| {i} | {known[i]} | {fixed[i]} ({len(fixed_commits[i])} commits) | {mut[i]} | {seeded[i]} | {first[i]} | {after[i]} | {outside[i]} |")
out = ["<!-- FINAL-STATE-BEGIN -->",
       "| property | known findings left (signatures) | signatures repaired by `fix:` commits | hand-written mutants | confirmed seeded changes | caught as first built | caught after strengthening | judged by another property / outside the statement |",
       "|---|---|---|---|---|---|---|---|"] + rows
out.append(f"| total | {sum(known.values())} | {sum(fixed.values())} | {sum(mut.values())} | {sum(seeded.values())} | {sum(first.values())} | {sum(after.values())} | {sum(outside.values())} |")
out.append("<!-- FINAL-STATE-END -->")
p = os.path.join(ROOT, 'DESIGN.md')
s = open(p).read()
a, b = s.index("<!-- FINAL-STATE-BEGIN -->"), s.index("<!-- FINAL-STATE-END -->") + len("<!-- FINAL-STATE-END -->")
open(p, 'w').write(s[:a] + "\n".join(out) + s[b:])
print("\n".join(out))
