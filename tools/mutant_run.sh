#!/bin/bash
# Runs checks against a *patched scratch copy* of /repo, never against /repo itself.
#   tools/mutant_run.sh <patch.diff> <ID> [<ID> ...]            (quick tier; VERIF_TIER=thorough to change)
# Creates a git worktree of /repo's HEAD under $SCRATCH (default /tmp/mw.$$), applies the patch, copies the
# harness with its path dependencies rewritten to the worktree, runs ./check for each ID with a private
# target dir, prints the output and removes everything again (KEEP=1 keeps the scratch dir).
set -u
patch=$(readlink -f "$1"); shift
S=${SCRATCH:-/tmp/mw.$$}
tier=${VERIF_TIER:-quick}
mkdir -p "$S"
git -C /repo worktree add -q --detach "$S/repo" HEAD || exit 2
cleanup() {
  if [ -z "${KEEP:-}" ]; then
    git -C /repo worktree remove --force "$S/repo" 2>/dev/null
    rm -rf "$S"
  fi
}
trap cleanup EXIT
if ! git -C "$S/repo" apply "$patch" 2>/dev/null && ! git -C "$S/repo" apply -3 "$patch"; then echo "PATCH DOES NOT APPLY"; exit 2; fi
mkdir -p "$S/verif"
rsync -a --exclude target --exclude work --exclude replays --exclude evidence --exclude .git /verif/ "$S/verif/"
sed -i "s#\"/repo/#\"$S/repo/#g" "$S/verif/harness/Cargo.toml"
rc=0
for id in "$@"; do
  echo "=== $id ($tier) on $(basename "$patch")"
  (cd "$S/verif" && VERIF_TARGET="$S/target" ./check "$id" "$tier") || rc=$?
done
exit $rc
