#!/bin/bash
# tools/adv_setup.sh <ID>...  : scratch worktree + property text for a blind adversary under /tmp/adv/<id>
for ID in "$@"; do
  id=$(echo "$ID" | tr A-Z a-z)
  mkdir -p /tmp/adv/$id/out
  git -C /repo worktree add -q --detach /tmp/adv/$id/repo HEAD
  python3 - "$ID" <<'PY'
import json, sys
ID = sys.argv[1]
for l in open('/verif/properties.jsonl'):
    p = json.loads(l)
    if p['id'] == ID:
        open(f"/tmp/adv/{ID.lower()}/property.txt", 'w').write(
            f"{p['id']}: {p['title']}\n\nSTATEMENT: {p['statement']}\n\nQUANTIFIER: {p['quantifier']['text']}\n\nCODE ANCHORS: {', '.join(p['anchors']['files'])}\n")
PY
  echo "ready /tmp/adv/$id"
done
