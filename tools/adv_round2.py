#!/usr/bin/env python3
"""tools/adv_round2.py <ID> : builds /tmp/adv/<id>/prompt.txt for a second-round blind adversary (after tools/adv_setup.sh <ID>),
re-using the round-1 parameters recorded in tools/prompts/adv_params.json and listing the mechanisms already tried."""
import glob, json, subprocess, sys
ID = sys.argv[1]
params = json.load(open('/verif/tools/prompts/adv_params.json'))[ID]
tried = []
for d in sorted(glob.glob(f'/verif/seeded/{ID}-*')):
    m = json.load(open(d + '/meta.json'))
    tried.append(f"- {m.get('title', '?')}: {m.get('what_it_breaks', '')[:300]}")
out = subprocess.run(["python3", "/verif/tools/adv_prompt.py", ID, params['crate'], params.get('features', ''), params['tests'],
                      params['specific'], params['hints']], capture_output=True, text=True).stdout
out += ("\nALREADY TRIED by previous rounds (do NOT repeat these mechanisms or close variants of them; find three NEW ones, in other "
        "functions/files and concerning other clauses of the statement where possible):\n" + "\n".join(tried) + "\n\n"
        "ADDITIONAL RULES: never use `git stash` (shared between all worktrees); use only `git diff`, `git apply`, `git checkout -- .`. "
        f"Use CARGO_TARGET_DIR=/tmp/adv/{ID.lower()}/target for all cargo commands. The demo may be an example of any ONE noodles crate "
        "(say which in meta.json \"demo_crate\", and \"demo_features\" if it needs cargo features).\n")
open(f'/tmp/adv/{ID.lower()}/prompt.txt', 'w').write(out)
print(len(out))
