#!/bin/bash
# Applies every patch in mutants/ (and seeded/*/patch.diff) to a scratch worktree and requires the quick check of the
# property it targets to print a VIOLATION line.   tools/selftest.sh [-j N] [pattern]
# Output: one line per patch: CAUGHT / MISSED / BROKEN(patch does not apply or harness exit 2) + the first signature.
cd "$(dirname "$0")/.."
J=3
if [ "$1" = "-j" ]; then J=$2; shift 2; fi
pat=${1:-}
list=$( (ls mutants/*.diff 2>/dev/null; ls seeded/*/patch.diff 2>/dev/null) | grep -E "${pat:-.}" )
run_one() {
  f=$1
  case "$f" in
    mutants/*) id=$(basename "$f" | cut -d- -f1) ;;
    seeded/*) id=$(python3 -c "import json,sys;m=json.load(open('$(dirname "$f")/meta.json'));print(m.get('judged_by') or m['property'])")
      outside=$(python3 -c "import json,sys;print(json.load(open('$(dirname "$f")/meta.json')).get('outside_statement',''))")
      if [ -n "$outside" ]; then echo "OUTSIDE $id  $f  [$outside]" | cut -c1-200; return; fi ;;
  esac
  out=$(SCRATCH=/tmp/st.$$.$(echo "$f" | md5sum | cut -c1-8) tools/mutant_run.sh "$f" "$id" 2>&1)
  if echo "$out" | grep -q "^VIOLATION property=$id"; then
    sig=$(echo "$out" | grep -m1 "^  sig:" | cut -c8-100)
    echo "CAUGHT  $id  $f  [$sig]"
  elif echo "$out" | grep -q "PATCH DOES NOT APPLY\|exit 2, no verdict\|INCONCLUSIVE: build"; then
    echo "BROKEN  $id  $f  $(echo "$out" | grep -m1 -E 'PATCH DOES NOT APPLY|INCONCLUSIVE' | cut -c1-120)"
  else
    echo "MISSED  $id  $f"
  fi
}
export -f run_one
echo "$list" | xargs -P "$J" -I{} bash -c 'run_one {}'
