#!/usr/bin/env python3
"""tools/adv_prompt.py <ID> <democrate> <demofeatures> <tests> <specific> <hints> -> prints the adversary prompt"""
import sys
ID, democrate, demofeatures, tests, specific, hints = sys.argv[1:7]
t = open('/verif/tools/prompts/adversary_template.txt').read()
prop = open(f'/tmp/adv/{ID.lower()}/property.txt').read()
for k, v in {'@id@': ID.lower(), '@ID@': ID, '@property@': prop, '@tests@': tests, '@specific@': specific, '@hints@': hints,
             '@democrate@': democrate, '@demofeatures@': demofeatures}.items():
    t = t.replace(k, v)
print(t)
