#!/usr/bin/env python3
"""tools/prune_known.py <ID> [--apply]: runs `./check <ID> quick`, lists `known:` lines of findings/<ID>.known (and
KNOWN_FINDINGS.txt) whose signature was NOT observed in that run; with --apply removes them from findings/<ID>.known."""
import json, os, subprocess, sys
ROOT = os.path.dirname(os.path.dirname(os.path.abspath(__file__)))
pid = sys.argv[1]
subprocess.run(["./check", pid, "quick"], cwd=ROOT, stdout=subprocess.DEVNULL)
ev = json.load(open(os.path.join(ROOT, "evidence", f"{pid}.json")))
seen = set(ev["coverage"].get("known_findings_observed", []))
path = os.path.join(ROOT, "findings", f"{pid}.known")
if not os.path.exists(path):
    sys.exit(0)
keep, drop = [], []
for line in open(path):
    if line.startswith("known: "):
        sig = line[len("known: "):].partition(" :: ")[0].partition(" sig=")[2]
        # signatures that only a thorough-tier stage can observe are never pruned on the basis of a quick run
        if sig.startswith("profile=chk:") or "-report:" in sig:
            keep.append(line)
        else:
            (keep if sig in seen else drop).append(line)
    else:
        keep.append(line)
for l in drop:
    print("NOT OBSERVED:", l[:200].rstrip())
print(f"{pid}: {len(drop)} known line(s) not observed, {sum(1 for l in keep if l.startswith('known: '))} observed; violations in evidence: {ev.get('violations')}")
if "--apply" in sys.argv and drop:
    open(path, "w").write("".join(keep))
