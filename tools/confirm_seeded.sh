#!/bin/bash
# Confirms a candidate seeded change in a scratch worktree:
#   tools/confirm_seeded.sh <worktree> <candidate dir with patch.diff + demo.rs> <crate> [cargo feature args...]
# 1. demo (dropped as <crate>/examples/verif_demo.rs) passes on the clean tree, 2. patch applies and compiles, demo fails,
# 3. the repository's own test suite (nextest, whole workspace) passes with the patch. Leaves the worktree clean.
wt=$1; cand=$(readlink -f "$2"); crate=$3; shift 3
cd "$wt" || exit 2
git checkout -q -- . && git clean -fdq -e target
git checkout -q --detach "$(git -C /repo rev-parse HEAD)"
mkdir -p "$crate/examples"
cp "$cand/demo.rs" "$crate/examples/verif_demo.rs"
echo "--- demo on clean tree"
timeout 900 cargo run --offline --release -q -p "$crate" --example verif_demo "$@" >/tmp/cs.$$.a 2>&1; a=$?
tail -3 /tmp/cs.$$.a
echo "--- apply patch"
git apply "$cand/patch.diff" || git apply -3 "$cand/patch.diff" || { echo "RESULT patch does not apply"; exit 2; }
git diff HEAD > "$cand/patch.rebased.diff"
timeout 900 cargo run --offline --release -q -p "$crate" --example verif_demo "$@" >/tmp/cs.$$.b 2>&1; b=$?
tail -3 /tmp/cs.$$.b
rm -f "$crate/examples/verif_demo.rs"
echo "--- test suite with patch"
timeout 3000 cargo nextest run --workspace --no-fail-fast --offline 2>&1 | tail -3 >/tmp/cs.$$.c; 
cat /tmp/cs.$$.c
t=$(grep -c "passed" /tmp/cs.$$.c); f=$(grep -E "[1-9][0-9]* failed" /tmp/cs.$$.c | wc -l)
git checkout -q -- . && git clean -fdq -e target
rm -f /tmp/cs.$$.*
echo "RESULT demo_clean_exit=$a demo_patched_exit=$b tests_summary_ok=$t tests_failed_lines=$f"
