"""Per-property stage tables live in py/props/cNN.py (one module per property, each defining PROP)."""
import importlib
import os
import sys

_here = os.path.dirname(os.path.abspath(__file__))
sys.path.insert(0, os.path.join(_here, "props"))

PROPS = {}
for _n in sorted(os.listdir(os.path.join(_here, "props"))):
    if _n.startswith("c") and _n.endswith(".py"):
        _m = importlib.import_module(_n[:-3])
        PROPS[_n[:-3].upper()] = _m.PROP
