"""C15 — corrupt or hostile input is reported as an error, never a panic.

Stages: `main` (rel build: stored witnesses, deterministic byte-level enumeration, seeded structured part, codec decoders,
constructed indexes) and, in the thorough tier, `chk` (the same workload, smaller, in a build with overflow checks and
debug assertions; panics that are not listed for the rel profile carry `profile=chk:` in their signature).
The post hook only adds evidence: which of the observed signatures are listed in findings/C15.known.
"""
import os


def _known_sigs():
    root = os.path.dirname(os.path.dirname(os.path.dirname(os.path.abspath(__file__))))
    sigs = set()
    for name in ("KNOWN_FINDINGS.txt", os.path.join("findings", "C15.known")):
        p = os.path.join(root, name)
        if not os.path.exists(p):
            continue
        for line in open(p):
            if line.startswith("known: property=C15 sig="):
                sigs.add(line[len("known: property=C15 sig="):].rstrip("\n").split(" :: ")[0])
    return sigs


def _post(rep, swork, replays, seed):
    known = _known_sigs()
    observed = {}
    for key, val in rep.get("counters", {}).items():
        if key.startswith("violations_observed[") and key.endswith("]"):
            observed[key[len("violations_observed["):-1]] = val
    rep.setdefault("extra", {})
    rep["extra"]["signatures_observed_known"] = sorted(s for s in observed if s in known)
    rep["extra"]["signatures_observed_new"] = sorted(s for s in observed if s not in known)
    rep["extra"]["distinct_signatures_observed"] = {"known": sum(1 for s in observed if s in known),
                                                    "new": sum(1 for s in observed if s not in known),
                                                    "listed_in_C15.known": len(known)}
    # batches (cases) in which a signature was observed; keep the report small
    rep["extra"]["batches_per_signature"] = {s: n for s, n in sorted(observed.items())}
    for key in list(rep.get("counters", {})):
        if key.startswith("violations_observed["):
            del rep["counters"][key]


PROP = {
    "level": "exploration",
    "stages": [
        {"name": "main", "post": _post},
        # overflow-checks + debug-assertions build: what `cargo build` / `cargo test` give a user by default
        {"name": "chk", "variant": "chk", "post": _post, "tiers": ("thorough",),
         "args": ["cases=300000", "codec_cases=250000", "query_cases=150000", "detbudget_s=15"], "timeout": 4 * 3600},
    ],
}
