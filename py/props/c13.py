import json
import os


def _post_chk(rep, swork, replays, seed):
    """Panics of the chk stage carry ` profile=chk`. A panic that the rel stage (main) reports as well is not
    specific to the chk profile: give it the rel signature, so that it is matched / printed once."""
    main = os.path.join(os.path.dirname(swork), "report-main.json")
    try:
        rel_sigs = {v["sig"] for v in json.load(open(main)).get("violations", [])}
    except (OSError, ValueError):
        return
    for v in rep["violations"]:
        base = v["sig"].removesuffix(" profile=chk")
        if base != v["sig"] and base in rel_sigs:
            v["sig"] = base


PROP = {
    "level": "fault_enumeration",
    "stages": [
        {"name": "main"},
        # overflow checks + debug assertions on, over a reduced set of cuts (scale-1 corpus, one seed)
        {"name": "chk", "variant": "chk", "args": ["reduced=1"], "tiers": ("thorough",), "post": _post_chk, "timeout": 3600},
        # the same reduced set in-process under AddressSanitizer (zlib-rs inflate, lazy record buffers on short input)
        {"name": "asan", "variant": "asan", "args": ["inproc=1", "reduced=1"], "tiers": ("thorough",), "optional": True, "timeout": 3600},
    ],
}
