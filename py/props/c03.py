"""C03: one run of the c03 binary per rayon pool size (the pool is process-global), plus a TSan stage and a
Miri many-seeds stage (schedule exploration inside channel operations, data races, deadlocks) in the thorough tier."""


def _stage(n, tiers):
    return {"name": f"pool{n}", "crate": "c03", "args": [f"pool={n}"], "tiers": tiers}


QUICK_POOLS = (1, 2, 4, 16)
MIRI = ("-Zmiri-disable-isolation -Zmiri-tree-borrows -Zmiri-permissive-provenance -Zmiri-ignore-leaks "
        "-Zmiri-many-seeds=0..8")
PROP = {
    "level": "exploration",
    "stages": [_stage(n, ("quick", "thorough") if n in QUICK_POOLS else ("thorough",)) for n in range(1, 17)] + [
        {"name": "tsan-pool4", "crate": "c03", "variant": "tsan", "args": ["pool=4", "inproc=1", "histories=6", "fault_histories=1"],
         "tiers": ("thorough",), "optional": True, "timeout": 3600},
        {"name": "miri-pool2", "crate": "c03", "variant": "miri", "args": ["pool=2", "inproc=1", "tiny=1"],
         "env": {"MIRIFLAGS": MIRI}, "tiers": ("thorough",), "optional": True, "timeout": 7200},
        {"name": "miri-pool3", "crate": "c03", "variant": "miri", "args": ["pool=3", "inproc=1", "tiny=1"],
         "env": {"MIRIFLAGS": MIRI}, "tiers": ("thorough",), "optional": True, "timeout": 7200},
    ],
}
