PROP = {
    "level": "exploration",
    "stages": [
        {"name": "main"},
    ],
}
