import json
import os
import shutil

import cram_walk


def _post(rep, swork, replays, seed):
    """Container conformance: every file the stage dumped is walked by the independent walker."""
    dump = os.path.join(swork, "dump")
    if not os.path.isdir(dump):
        rep["floors_unmet"].append("container walker: the stage dumped no file")
        return
    stats, failures, crashes = cram_walk.check_dump(dump)
    for k, v in stats.items():
        rep["counters"][f"walker.{k}"] = v
    kept = {}
    for name, check, msg in failures:
        sig = f"walker:{check}"
        side = os.path.join(dump, name[:-5] + ".json")
        if check.startswith("slice:") and os.path.exists(side):
            # a stream class the generator declares (known zero-span defect) is part of the signature
            cls = json.load(open(side)).get("stream_class")
            if cls:
                sig = f"walker:{cls}:{check}"
        rep["counters"][f"violations_observed[{sig}]"] = rep["counters"].get(f"violations_observed[{sig}]", 0) + 1
        n = kept.get(sig, 0)
        if n >= 3:
            continue
        kept[sig] = n + 1
        keep = os.path.join(replays, f"C07-walker-s{seed}-{name}")
        shutil.copy(os.path.join(dump, name), keep)
        side = os.path.join(dump, name[:-5] + ".json")
        if os.path.exists(side):
            shutil.copy(side, keep[:-5] + ".json")
        rep["violations"].append({"sig": sig, "desc": f"independent container walker, file {name}: {msg}", "replay": keep})
    for name, why in crashes[:5]:
        rep["inconclusive"].append(f"container walker crashed on {name}: {why}")
    if stats.get("files", 0) == 0:
        rep["floors_unmet"].append("container walker saw no file")
    if stats.get("files", 0) < rep["counters"].get("files_dumped_for_walker", 0):
        rep["floors_unmet"].append(f"container walker walked {stats.get('files', 0)} of {rep['counters'].get('files_dumped_for_walker')} dumped files")


PROP = {
    "level": "exploration",
    "stages": [
        {"name": "main", "post": _post},
        # the unsafe surface below the CRAM writer/reader is zlib-rs / bzip2 / lzma: same workload, reduced
        {"name": "asan", "variant": "asan", "args": ["inproc=1", "cases=300", "big=0"], "tiers": ("thorough",), "optional": True, "timeout": 3600},
        # No Miri stage: every CRAM file starts with a gzip'ed header block and Miri (Stacked and Tree Borrows
        # alike) stops in zlib-rs 0.6.7 `<Deflate as Drop>::drop` -> `deflate::end` ("deallocating while item is
        # strongly protected") at the first drop of a deflate stream, before any CRAM code of interest runs.
        # `c07 inproc=1 tiny=1` (six tiny files) is kept in the binary for the day the dependency is fixed.
    ],
}
