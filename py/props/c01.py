import os
import shutil

import bgzf_walk


def _post(rep, swork, replays, seed):
    files, members, failures = bgzf_walk.check_dump(os.path.join(swork, "dump"))
    rep["counters"]["python_oracle_files"] = files
    rep["counters"]["python_oracle_members"] = members
    for name, why in failures:
        keep = os.path.join(replays, f"C01-py-{seed}-{name}")
        shutil.copy(os.path.join(swork, "dump", name), keep)
        rep["violations"].append({"sig": "python-oracle-rejects-file", "desc": f"CPython zlib/gzip oracle: {why}", "replay": keep})
    if files == 0:
        rep["floors_unmet"].append("python oracle saw no file")


PROP = {
    "level": "exploration",
    "stages": [
        {"name": "main", "post": _post},
        # zlib-rs deflate/inflate/crc32 `unsafe` under the exact call pattern noodles uses
        {"name": "asan", "variant": "asan", "args": ["inproc=1", "cases=300"], "tiers": ("thorough",), "optional": True, "timeout": 3600},
        {"name": "miri", "variant": "miri", "args": ["inproc=1", "tiny=10"], "tiers": ("thorough",), "optional": True, "timeout": 7200},
    ],
}
