PROP = {
    "level": "exploration",
    "stages": [
        {"name": "main"},
        # cheap insurance only (safe cursor arithmetic; zlib-rs inflate/crc32 under seek and direct-decode call
        # patterns): ~30 tiny histories run in-process under Miri. Optional: if Miri cannot run, the behavioural
        # verdict of `main` stands alone.
        {"name": "miri", "variant": "miri", "tiers": ("thorough",), "optional": True, "timeout": 2400},
    ],
}
