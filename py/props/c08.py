PROP = {
    "level": "exploration",
    "stages": [
        {"name": "main"},
        # dependency `unsafe` (lexical-core, memchr, bstr, zlib-rs, bzip2, lzma) reached by the same workload, reduced
        {"name": "asan", "variant": "asan", "args": ["inproc=1", "cases=300", "itf8_exhaustive=0"], "tiers": ("thorough",), "optional": True, "timeout": 3600},
    ],
}
