import json
import os
import shutil
import zlib

import cram_walk


def _read_crai(path):
    """CRAI = gzip-compressed text: ref id, alignment start, span, container offset, landmark, slice length."""
    text = zlib.decompress(open(path, "rb").read(), 47).decode()
    out = []
    for line in text.splitlines():
        f = line.split("\t")
        if len(f) != 6:
            raise ValueError(f"CRAI line with {len(f)} fields: {line!r}")
        out.append(tuple(int(x) for x in f))
    return out


def _judge(name, dump):
    """Compares the CRAI entries of one file with the geometry the independent walker derives.
    Returns (counters, [(sig, message)])."""
    from collections import Counter

    st = Counter()
    fails = []
    cram = os.path.join(dump, name + ".cram")
    crai = os.path.join(dump, name + ".crai")
    side = json.load(open(os.path.join(dump, name + ".json")))
    wst, wfails, geom = cram_walk.walk_file(cram, None)
    hard = [f for f in wfails if f[0] in ("malformed", "file:magic")]
    if hard:
        return st, [("crai:file-not-walkable", f"{hard[0][0]}: {hard[0][1]}")]
    st["conformance_failures_seen_on_c19_files (judged by C07)"] += len(wfails)
    entries = _read_crai(crai)
    st["crai_entries"] += len(entries)
    # expected: per slice (one per container in the generated layout), in file order
    slices = []
    for c in geom:
        for s in c["slices"]:
            slices.append((c["offset"], s))
    exp = side["expected_index"]
    # group the entries by (container offset, landmark), keeping file order
    groups = []
    for e in entries:
        key = (e[3], e[4])
        if groups and groups[-1][0] == key:
            groups[-1][1].append(e)
        else:
            groups.append((key, [e]))
    st["checks[crai:slice-count]"] += 1
    if len(groups) != len(slices):
        fails.append(("crai:slice-count", f"index lists {len(groups)} slices (by offset/landmark), the file holds {len(slices)}"))
        return st, fails
    seen = set()

    def fail(sig, msg):
        if sig not in seen:
            seen.add(sig)
            fails.append((sig, msg))

    for k, ((key, ents), (coff, s)) in enumerate(zip(groups, slices)):
        kind = exp[k]["kind"] if k < len(exp) else "?"
        st["checks[crai:geometry]"] += 1
        for e in ents:
            if e[3] != coff:
                fail(f"crai:container-offset:{kind}", f"slice #{k}: entry {e} has container offset {e[3]}, the container header starts at {coff}")
            if e[4] != s["landmark"]:
                fail(f"crai:landmark:{kind}", f"slice #{k}: entry {e} has landmark {e[4]}, the slice header block starts {s['landmark']} bytes into the container data")
            if e[5] != s["length"]:
                fail(f"crai:slice-length:{kind}", f"slice #{k}: entry {e} has slice length {e[5]}, the slice (header block + {s['blocks']} blocks) occupies {s['length']} bytes")
        # (reference, start, span)
        st["checks[crai:reference-span]"] += 1
        got = sorted((e[0], e[1], e[2]) for e in ents)
        if s["ref"] >= 0:
            want = [(s["ref"], s["start"], s["span"])]
            if got != want:
                fail(f"crai:reference-span:{kind}", f"slice #{k}: entries {got}, slice header says {want}")
        elif s["ref"] == -1:
            if got != [(-1, 0, 0)]:
                fail(f"crai:reference-span:{kind}", f"slice #{k}: entries {got} for an unmapped slice")
        else:
            want = sorted((x["ref"], x["start"], x["span"]) for x in exp[k]["entries"]) if k < len(exp) else None
            exact = all(x["exact"] for x in exp[k]["entries"]) if k < len(exp) else False
            if want is not None and exact and got != want:
                fail(f"crai:reference-span:{kind}", f"slice #{k} (multi-reference): entries {got}, the records written into it cover {want}")
            if len(set(e[0] for e in ents)) != len(ents):
                fail(f"crai:reference-span:{kind}", f"slice #{k}: several entries for one reference: {got}")
    return st, fails


def _post(rep, swork, replays, seed):
    dump = os.path.join(swork, "dump")
    names = sorted((n[:-5] for n in os.listdir(dump) if n.endswith(".crai")), key=int) if os.path.isdir(dump) else []
    total = {}
    kept = {}
    for name in names:
        try:
            st, fails = _judge(name, dump)
        except Exception as e:  # noqa: BLE001  an oracle crash is never a verdict
            rep["inconclusive"].append(f"CRAI judge crashed on {name}: {e!r}")
            continue
        for k, v in st.items():
            total[k] = total.get(k, 0) + v
        total["index_files_judged"] = total.get("index_files_judged", 0) + 1
        for sig, msg in fails:
            key = f"violations_observed[{sig}]"
            rep["counters"][key] = rep["counters"].get(key, 0) + 1
            if kept.get(sig, 0) >= 3:
                continue
            kept[sig] = kept.get(sig, 0) + 1
            keep = os.path.join(replays, f"C19-crai-s{seed}-{name}.cram")
            shutil.copy(os.path.join(dump, name + ".cram"), keep)
            shutil.copy(os.path.join(dump, name + ".crai"), keep[:-5] + ".crai")
            shutil.copy(os.path.join(dump, name + ".json"), keep[:-5] + ".json")
            rep["violations"].append({"sig": sig, "desc": f"CRAI entries vs independent container walker, file {name}: {msg}", "replay": keep})
    for k, v in total.items():
        rep["counters"][f"walker.{k}"] = v
    built = rep["counters"].get("indexes_built", 0)
    if total.get("index_files_judged", 0) < built:
        rep["floors_unmet"].append(f"CRAI judge saw {total.get('index_files_judged', 0)} of {built} index files")
    if built == 0:
        rep["floors_unmet"].append("no index was built")


PROP = {
    "level": "exploration",
    "stages": [
        {"name": "main", "post": _post},
    ],
}
