"""C16: async readers / writers == sync counterparts. The c16 binary covers readers (valid, re-blocked, truncated and
one-bit-corrupt inputs; read_* calls and Stream APIs), BGZF seek histories, region queries and writers (corpus histories +
seeded BGZF write/flush histories) under scripted poll schedules (PollRead / PollWrite), two tokio runtime flavours, BGZF
worker counts 1..8 and H1 delay plans inside the spawn_blocking inflate / deflate closures. The thorough tier adds a
ThreadSanitizer stage over a reduced in-process workload (all case kinds, every async module once)."""

PROP = {
    "level": "exploration",
    "stages": [
        {"name": "main", "timeout": 3000},
        {"name": "tsan", "variant": "tsan", "args": ["inproc=1", "tiny=1", "cfgs=6", "seek_histories=3", "bgzf_histories=8"],
         "tiers": ("thorough",), "optional": True, "timeout": 3600},
    ],
}
