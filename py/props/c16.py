"""C16: async readers / writers == sync counterparts. One stage; the binary covers readers (valid, re-blocked, malformed
inputs), BGZF seek histories, region queries and writers under scripted poll schedules, two tokio runtime flavours,
BGZF worker counts 1..8 and H1 delay plans."""

PROP = {
    "level": "exploration",
    "stages": [
        {"name": "main", "timeout": 1500},
    ],
}
