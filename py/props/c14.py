"""C14: every canonical write history of the corpus replayed on fault-injecting sinks; every failing sink-call index of
each history is enumerated (sticky + transient), plus short-write and Interrupted sinks and dropped BGZF writers."""

PROP = {
    "level": "fault_enumeration",
    "stages": [
        {"name": "main", "crate": "c14", "timeout": 3600},
    ],
}
