#!/usr/bin/env python3
"""Independent CRAM 3.x container walker (stdlib only), written from the CRAM specification.

    python3 cram_walk.py <dump-dir>        walk every <n>.cram (+ sidecar <n>.json) and print a summary

`walk_file(cram_path, sidecar_path)` returns (stats, failures, geometry):
  stats     counters (containers, slices, blocks by method, checks evaluated per kind, ...)
  failures  list of (check-name, message); a file is conformant iff the list is empty
  geometry  per data container: offset, length, header fields, per slice: landmark, byte length,
            header fields (used by the C19 monitor to judge CRAI entries)

Checked: file definition (magic, version 3.0/3.1, 20-byte file id); every container header (length,
reference id/start/span, record count, record counter == running sum, bases, block count, landmarks,
CRC32); every block (method, content type, content id, sizes, CRC32; declared raw size re-derived by
actually decompressing for raw/gzip/bzip2/lzma; for rANS 4x8, rANS Nx16, the adaptive arithmetic
coder and fqzcomp the raw size is compared with the length field at the head of the codec stream
-- the streams themselves are NOT decoded here; name-tokeniser blocks: framing and CRC only, the
stream's length field is recorded as an observation); compression header block first; landmarks ==
byte offsets of the slice header blocks relative to the start of the container data; slice headers
(reference id/start/span against the sidecar expectation, record count, record counter, block
count, content ids, embedded-reference id, reference MD5 against md5(uppercase reference[start..end])
for single-reference slices and all-zero otherwise); totals against the sidecar; container length ==
sum of block lengths; the last container == the 38-byte EOF container.
"""
import bz2
import hashlib
import json
import lzma
import os
import struct
import sys
import zlib
from collections import Counter

EOF_V3 = bytes.fromhex("0f000000ffffffff0fe0454f4600000000010005bdd94f0001000606010001000100ee63014b")

METHODS = {0: "raw", 1: "gzip", 2: "bzip2", 3: "lzma", 4: "rans4x8", 5: "rans-nx16", 6: "aac", 7: "fqzcomp", 8: "tok3"}
FILE_HEADER, COMPRESSION_HEADER, SLICE_HEADER, EXTERNAL, CORE = 0, 1, 2, 4, 5


class Malformed(Exception):
    pass


def itf8(b, p):
    """ITF8: the number of leading 1 bits of the first byte (0..4) = number of following bytes."""
    if p >= len(b):
        raise Malformed("ITF8 beyond end of data")
    b0 = b[p]
    if b0 < 0x80:
        v, n = b0, 1
    elif b0 < 0xC0:
        if p + 2 > len(b):
            raise Malformed("ITF8 truncated")
        v, n = ((b0 & 0x3F) << 8) | b[p + 1], 2
    elif b0 < 0xE0:
        if p + 3 > len(b):
            raise Malformed("ITF8 truncated")
        v, n = ((b0 & 0x1F) << 16) | (b[p + 1] << 8) | b[p + 2], 3
    elif b0 < 0xF0:
        if p + 4 > len(b):
            raise Malformed("ITF8 truncated")
        v, n = ((b0 & 0x0F) << 24) | (b[p + 1] << 16) | (b[p + 2] << 8) | b[p + 3], 4
    else:
        if p + 5 > len(b):
            raise Malformed("ITF8 truncated")
        # only the low 4 bits of the fifth byte are used
        v, n = ((b0 & 0x0F) << 28) | (b[p + 1] << 20) | (b[p + 2] << 12) | (b[p + 3] << 4) | (b[p + 4] & 0x0F), 5
    if v >= 1 << 31:
        v -= 1 << 32
    return v, p + n


def ltf8(b, p):
    """LTF8: leading 1 bits of the first byte (0..8) = number of following bytes."""
    if p >= len(b):
        raise Malformed("LTF8 beyond end of data")
    b0 = b[p]
    n = 0
    while n < 8 and b0 & (0x80 >> n):
        n += 1
    if p + 1 + n > len(b):
        raise Malformed("LTF8 truncated")
    v = b0 & (0xFF >> (n + 1)) if n < 8 else 0
    for i in range(n):
        v = (v << 8) | b[p + 1 + i]
    if v >= 1 << 63:
        v -= 1 << 64
    return v, p + 1 + n


def uint7(b, p):
    """Variable-length unsigned integer of the CRAM 3.1 codecs: 7 bits per byte, most significant
    group first, top bit = continuation."""
    v = 0
    for _ in range(10):
        if p >= len(b):
            raise Malformed("uint7 beyond end of data")
        c = b[p]
        p += 1
        v = (v << 7) | (c & 0x7F)
        if not c & 0x80:
            return v, p
    raise Malformed("uint7 too long")


class _RefView:
    """A reference of the sidecar: verbatim ("seq") or sparse ("length", "fill", "patches" = [[offset, bases], ...])."""

    def __init__(self, ref):
        self.ref = ref

    def __len__(self):
        return len(self.ref["seq"]) if "seq" in self.ref else self.ref["length"]

    def md5(self, start, span):
        h = hashlib.md5()
        if "seq" in self.ref:
            h.update(self.ref["seq"][start:start + span].upper().encode())
            return h.hexdigest()
        fill = self.ref["fill"].upper().encode()
        pos = start
        end = start + span
        for off, bases in sorted(self.ref["patches"]):
            if off + len(bases) <= pos or off >= end:
                continue
            if off > pos:
                _update_fill(h, fill, off - pos)
                pos = off
            part = bases[pos - off:end - off]
            h.update(part.upper().encode())
            pos += len(part)
        if pos < end:
            _update_fill(h, fill, end - pos)
        return h.hexdigest()


def _update_fill(h, fill, n):
    chunk = fill * (1 << 20)
    while n > 0:
        k = min(n, len(chunk))
        h.update(chunk[:k])
        n -= k


def parse_block(b, p, st, fail, where):
    start = p
    if p + 2 > len(b):
        raise Malformed(f"{where}: block header beyond end of data")
    method, ctype = b[p], b[p + 1]
    p += 2
    cid, p = itf8(b, p)
    csize, p = itf8(b, p)
    rsize, p = itf8(b, p)
    if csize < 0 or rsize < 0 or p + csize + 4 > len(b):
        raise Malformed(f"{where}: block sizes ({csize}, {rsize}) do not fit the data")
    data = b[p:p + csize]
    p += csize
    crc = struct.unpack_from("<I", b, p)[0]
    st["checks[block:crc32]"] += 1
    if zlib.crc32(b[start:p]) & 0xFFFFFFFF != crc:
        fail("block:crc32", f"{where}: stored {crc:08x}, computed {zlib.crc32(b[start:p]) & 0xFFFFFFFF:08x} (method {method}, type {ctype}, id {cid})")
    p += 4
    st["checks[block:method]"] += 1
    if method not in METHODS:
        fail("block:method", f"{where}: unknown compression method {method}")
    st["checks[block:content-type]"] += 1
    if ctype not in (0, 1, 2, 4, 5):
        fail("block:content-type", f"{where}: unknown content type {ctype}")
    st[f"blocks[{METHODS.get(method, method)}]"] += 1
    raw = None
    # raw size
    name = METHODS.get(method)
    try:
        if rsize == 0:
            # "blocks with a raw size of zero are treated as empty irrespective of their method"
            raw = b""
        elif name == "raw":
            raw = data
        elif name == "gzip":
            raw = zlib.decompress(data, 31)
        elif name == "bzip2":
            raw = bz2.decompress(data)
        elif name == "lzma":
            raw = lzma.decompress(data)
    except Exception as e:  # noqa: BLE001
        fail("block:decompress", f"{where}: {name} data of block (type {ctype}, id {cid}) does not decompress: {e!r}")
    if raw is not None:
        st["checks[block:raw-size-by-decompression]"] += 1
        if len(raw) != rsize:
            fail("block:raw-size", f"{where}: block (method {name}, type {ctype}, id {cid}) declares raw size {rsize} but decompresses to {len(raw)} bytes")
    elif rsize > 0 and name in ("rans4x8", "rans-nx16", "aac", "fqzcomp", "tok3"):
        st[f"blocks_not_decoded[{name}]"] += 1
        declared = None
        try:
            if name == "rans4x8":
                if len(data) >= 9:
                    declared = struct.unpack_from("<I", data, 5)[0]
                    st["checks[block:codec-stream-compressed-size]"] += 1
                    if struct.unpack_from("<I", data, 1)[0] != len(data) - 9:
                        fail("block:codec-stream-compressed-size", f"{where}: rANS 4x8 stream declares {struct.unpack_from('<I', data, 1)[0]} payload bytes, block holds {len(data) - 9}")
            elif name in ("rans-nx16", "aac"):
                if data and not data[0] & 0x10:
                    declared, _ = uint7(data, 1)
            elif name == "fqzcomp":
                declared, _ = uint7(data, 0)
            elif name == "tok3":
                if len(data) >= 4:
                    st[f"observed_tok3_ulen_minus_raw_size[{struct.unpack_from('<I', data, 0)[0] - rsize}]"] += 1
        except Malformed as e:
            fail("block:codec-stream-header", f"{where}: {name} stream header: {e}")
        if declared is not None:
            st[f"checks[block:raw-size-vs-codec-stream:{name}]"] += 1
            if declared != rsize:
                fail(f"block:raw-size-vs-codec-stream:{name}",
                     f"{where}: block (method {name}, type {ctype}, id {cid}) declares raw size {rsize} (compressed size {csize}) but its codec stream says it decodes to {declared} bytes")
    return {"method": method, "ctype": ctype, "cid": cid, "csize": csize, "rsize": rsize, "raw": raw, "start": start, "end": p}, p


def parse_container_header(b, p):
    start = p
    if p + 4 > len(b):
        raise Malformed("container length beyond end of file")
    length = struct.unpack_from("<i", b, p)[0]
    p += 4
    ref, p = itf8(b, p)
    astart, p = itf8(b, p)
    span, p = itf8(b, p)
    nrec, p = itf8(b, p)
    counter, p = ltf8(b, p)
    bases, p = ltf8(b, p)
    nblocks, p = itf8(b, p)
    nl, p = itf8(b, p)
    if nl < 0 or nl > 1 << 20:
        raise Malformed(f"landmark count {nl}")
    landmarks = []
    for _ in range(nl):
        v, p = itf8(b, p)
        landmarks.append(v)
    if p + 4 > len(b):
        raise Malformed("container header CRC beyond end of file")
    crc = struct.unpack_from("<I", b, p)[0]
    crc_ok = zlib.crc32(b[start:p]) & 0xFFFFFFFF == crc
    p += 4
    return {"offset": start, "length": length, "ref": ref, "start": astart, "span": span, "records": nrec, "counter": counter,
            "bases": bases, "blocks": nblocks, "landmarks": landmarks, "crc_ok": crc_ok, "data_start": p}, p


def parse_slice_header(raw):
    p = 0
    ref, p = itf8(raw, p)
    start, p = itf8(raw, p)
    span, p = itf8(raw, p)
    nrec, p = itf8(raw, p)
    counter, p = ltf8(raw, p)
    nblocks, p = itf8(raw, p)
    n, p = itf8(raw, p)
    if n < 0 or n > 1 << 20:
        raise Malformed(f"slice content id count {n}")
    ids = []
    for _ in range(n):
        v, p = itf8(raw, p)
        ids.append(v)
    emb, p = itf8(raw, p)
    if p + 16 > len(raw):
        raise Malformed("slice header too short for the reference MD5")
    md5 = raw[p:p + 16]
    p += 16
    return {"ref": ref, "start": start, "span": span, "records": nrec, "counter": counter, "blocks": nblocks, "ids": ids,
            "embedded": emb, "md5": md5.hex(), "tags_len": len(raw) - p}


def walk_bytes(b, side):
    st = Counter()
    failures = []

    def fail(check, msg):
        if len(failures) < 50:
            failures.append((check, msg))

    geometry = []
    try:
        _walk(b, side, st, fail, geometry)
    except Malformed as e:
        fail("malformed", str(e))
    except (struct.error, IndexError) as e:
        fail("malformed", f"structure runs off the data: {e!r}")
    return st, failures, geometry


def _walk(b, side, st, fail, geometry):
    st["files"] += 1
    st["checks[file:definition]"] += 1
    if len(b) < 26 or b[:4] != b"CRAM":
        fail("file:magic", f"file starts with {b[:4]!r}")
        return
    major, minor = b[4], b[5]
    if (major, minor) not in ((3, 0), (3, 1)):
        fail("file:version", f"version {major}.{minor}")
    st[f"version[{major}.{minor}]"] += 1
    p = 26
    # header container
    hc, p = parse_container_header(b, p)
    st["checks[container:header-crc32]"] += 1
    if not hc["crc_ok"]:
        fail("container:header-crc32", "header container")
    end = hc["data_start"] + hc["length"]
    if hc["length"] < 0 or end > len(b):
        raise Malformed(f"header container length {hc['length']} runs off the file")
    nb = 0
    first = True
    while p < end and nb < hc["blocks"]:
        blk, p = parse_block(b, p, st, fail, "header container")
        nb += 1
        if first:
            first = False
            st["checks[header-container:file-header-block]"] += 1
            if blk["ctype"] != FILE_HEADER:
                fail("header-container:file-header-block", f"first block has content type {blk['ctype']}")
            elif blk["raw"] is not None:
                if len(blk["raw"]) < 4 or struct.unpack_from("<i", blk["raw"], 0)[0] > len(blk["raw"]) - 4 or struct.unpack_from("<i", blk["raw"], 0)[0] < 0:
                    fail("header-container:text-length", f"header text length field does not fit the block ({len(blk['raw'])} bytes)")
    st["checks[container:block-count]"] += 1
    if nb != hc["blocks"]:
        fail("container:block-count", f"header container declares {hc['blocks']} blocks, holds {nb}")
    # the header container may be padded: continue at its declared end
    p = end

    uses_31 = False
    running = 0
    total_bases = 0
    exp_containers = side.get("containers") if side else None
    refs = side.get("refs") if side else None
    ci = 0
    eof_seen = False
    while p < len(b):
        c, p = parse_container_header(b, p)
        where = f"container #{ci} @ {c['offset']}"
        st["checks[container:header-crc32]"] += 1
        if not c["crc_ok"]:
            fail("container:header-crc32", where)
        dstart = c["data_start"]
        dend = dstart + c["length"]
        if c["length"] < 0 or dend > len(b):
            raise Malformed(f"{where}: length {c['length']} runs off the file")
        # EOF container?
        if b[c["offset"]:dend] == EOF_V3:
            eof_seen = True
            st["checks[file:eof-container]"] += 1
            if dend != len(b):
                fail("file:eof-container", f"{len(b) - dend} bytes follow the EOF container")
            # its block must still be a well-formed block
            parse_block(b, dstart, st, fail, "EOF container")
            p = dend
            break
        st["containers"] += 1
        blocks = []
        q = dstart
        while q < dend:
            blk, q = parse_block(b, q, st, fail, where)
            blocks.append(blk)
        st["checks[container:length]"] += 1
        if q != dend:
            fail("container:length", f"{where}: blocks end at {q - dstart}, declared length {c['length']}")
        st["checks[container:block-count]"] += 1
        if len(blocks) != c["blocks"]:
            fail("container:block-count", f"{where}: declares {c['blocks']} blocks, holds {len(blocks)}")
        st["checks[container:compression-header-first]"] += 1
        if not blocks or blocks[0]["ctype"] != COMPRESSION_HEADER:
            fail("container:compression-header-first", f"{where}: first block has content type {blocks[0]['ctype'] if blocks else None}")
        if sum(1 for x in blocks if x["ctype"] == COMPRESSION_HEADER) != 1:
            fail("container:compression-header-first", f"{where}: {sum(1 for x in blocks if x['ctype'] == COMPRESSION_HEADER)} compression header blocks")
        for x in blocks:
            if x["method"] >= 5:
                uses_31 = True
        # slices
        slice_offsets = [x["start"] - dstart for x in blocks if x["ctype"] == SLICE_HEADER]
        st["checks[container:landmarks]"] += 1
        if slice_offsets != c["landmarks"]:
            fail("container:landmarks", f"{where}: landmarks {c['landmarks']} but slice header blocks start at {slice_offsets} (relative to the container data)")
        slices = []
        idx = [i for i, x in enumerate(blocks) if x["ctype"] == SLICE_HEADER]
        for k, i in enumerate(idx):
            j = idx[k + 1] if k + 1 < len(idx) else len(blocks)
            sh = blocks[i]
            swhere = f"{where} slice #{k}"
            if sh["raw"] is None:
                fail("slice:header", f"{swhere}: slice header block uses method {sh['method']}, not decoded")
                continue
            h = parse_slice_header(sh["raw"])
            body = blocks[i + 1:j]
            st["slices"] += 1
            st["checks[slice:block-count]"] += 1
            if h["blocks"] != len(body):
                fail("slice:block-count", f"{swhere}: header declares {h['blocks']} blocks, {len(body)} follow")
            st["checks[slice:core-block]"] += 1
            if sum(1 for x in body if x["ctype"] == CORE) != 1 or (body and body[0]["ctype"] != CORE):
                fail("slice:core-block", f"{swhere}: content types after the header: {[x['ctype'] for x in body]}")
            if any(x["ctype"] not in (CORE, EXTERNAL) for x in body):
                fail("slice:core-block", f"{swhere}: unexpected content types {[x['ctype'] for x in body]}")
            st["checks[slice:content-ids]"] += 1
            ext_ids = [x["cid"] for x in body if x["ctype"] == EXTERNAL]
            body_ids = [x["cid"] for x in body]
            if sorted(h["ids"]) != sorted(body_ids):
                fail("slice:content-ids", f"{swhere}: header lists {h['ids']}, blocks carry {body_ids}")
            if len(set(ext_ids)) != len(ext_ids):
                fail("slice:content-ids", f"{swhere}: duplicate external content ids {ext_ids}")
            st["checks[slice:embedded-reference-id]"] += 1
            if h["embedded"] != -1 and h["embedded"] not in ext_ids:
                fail("slice:embedded-reference-id", f"{swhere}: embedded reference block id {h['embedded']} is not a block of the slice")
            # MD5
            st["checks[slice:reference-md5]"] += 1
            if h["ref"] >= 0 and h["embedded"] == -1:
                if refs is not None:
                    if h["ref"] >= len(refs):
                        fail("slice:reference-id", f"{swhere}: reference id {h['ref']} out of range")
                    else:
                        ref = refs[h["ref"]]
                        seq = _RefView(ref)
                        if h["span"] < 1:
                            # one diagnosis for a mapped slice that claims to cover nothing
                            h["zero_span"] = True
                            fail("slice:zero-span", f"{swhere}: reference id {h['ref']}, start {h['start']}, span {h['span']}")
                        elif h["start"] < 1 or h["start"] - 1 + h["span"] > len(seq):
                            fail("slice:span-within-reference", f"{swhere}: start {h['start']} span {h['span']} exceed reference length {len(seq)}")
                        else:
                            want = seq.md5(h["start"] - 1, h["span"])
                            if h["md5"] != want:
                                fail("slice:reference-md5", f"{swhere}: stored {h['md5']}, md5(reference[{h['start']}..{h['start'] + h['span'] - 1}]) = {want}")
            elif h["ref"] < 0:
                if h["md5"] != "00" * 16:
                    fail("slice:reference-md5", f"{swhere}: reference id {h['ref']} but MD5 {h['md5']} is not all-zero")
            st["checks[slice:unmapped-multi-start-span]"] += 1
            if h["ref"] < 0 and (h["start"] != 0 or h["span"] != 0):
                fail("slice:unmapped-multi-start-span", f"{swhere}: reference id {h['ref']} with start {h['start']} span {h['span']}")
            if h["ref"] < -2:
                fail("slice:reference-id", f"{swhere}: reference id {h['ref']}")
            h["landmark"] = sh["start"] - dstart
            h["length"] = (blocks[j - 1]["end"] if j > i else sh["end"]) - sh["start"]
            slices.append(h)
        st["checks[container:landmark-count]"] += 1
        if len(c["landmarks"]) != len(slices):
            fail("container:landmark-count", f"{where}: {len(c['landmarks'])} landmarks, {len(slices)} slices")
        # counters
        st["checks[container:record-count]"] += 1
        if sum(s["records"] for s in slices) != c["records"]:
            fail("container:record-count", f"{where}: header says {c['records']} records, slices sum to {sum(s['records'] for s in slices)}")
        st["checks[container:record-counter]"] += 1
        if c["counter"] != running:
            fail("container:record-counter", f"{where}: record counter {c['counter']}, running sum of the preceding containers {running}")
        sc = c["counter"]
        for k, s in enumerate(slices):
            st["checks[slice:record-counter]"] += 1
            if s["counter"] != sc:
                fail("slice:record-counter", f"{where} slice #{k}: record counter {s['counter']}, expected {sc}")
            sc += s["records"]
        running += c["records"]
        total_bases += c["bases"]
        # container reference context vs its slices
        st["checks[container:reference-context]"] += 1
        if slices:
            ids = set(s["ref"] for s in slices)
            if len(ids) == 1 and next(iter(ids)) >= 0:
                lo = min(s["start"] for s in slices)
                hi = max(s["start"] + s["span"] - 1 for s in slices)
                if (c["ref"], c["start"], c["span"]) != (next(iter(ids)), lo, hi - lo + 1):
                    fail("container:reference-context", f"{where}: header ({c['ref']}, {c['start']}, {c['span']}) but its slices cover ({next(iter(ids))}, {lo}, {hi - lo + 1})")
            elif len(ids) == 1 and next(iter(ids)) == -1:
                if (c["ref"], c["start"], c["span"]) != (-1, 0, 0):
                    fail("container:reference-context", f"{where}: header ({c['ref']}, {c['start']}, {c['span']}) but all slices are unmapped")
            else:
                if (c["ref"], c["start"], c["span"]) != (-2, 0, 0):
                    fail("container:reference-context", f"{where}: header ({c['ref']}, {c['start']}, {c['span']}) but slices have reference ids {sorted(ids)}")
        # sidecar expectations
        if exp_containers is not None:
            if ci >= len(exp_containers):
                fail("totals:container-count", f"more containers than the {len(exp_containers)} expected")
            else:
                e = exp_containers[ci]
                st["checks[sidecar:container]"] += 1
                if c["records"] != e["records"]:
                    fail("container:record-count", f"{where}: {c['records']} records, {e['records']} were written into it")
                if c["counter"] != e["counter"]:
                    fail("container:record-counter", f"{where}: record counter {c['counter']}, {e['counter']} records precede it")
                if c["bases"] != e["bases"]:
                    fail("container:bases", f"{where}: base count {c['bases']}, the records hold {e['bases']} bases")
                if len(slices) != len(e["slices"]):
                    fail("container:slice-count", f"{where}: {len(slices)} slices, expected {len(e['slices'])}")
                else:
                    for k, (s, es) in enumerate(zip(slices, e["slices"])):
                        st["checks[sidecar:slice]"] += 1
                        if s["records"] != es["records"]:
                            fail("slice:record-count", f"{where} slice #{k}: {s['records']} records, expected {es['records']}")
                        if s["counter"] != es["counter"]:
                            fail("slice:record-counter", f"{where} slice #{k}: record counter {s['counter']}, expected {es['counter']}")
                        ctx = es["ctx"]
                        if ctx["kind"] == "unmapped" and s["ref"] != -1:
                            fail("slice:reference-context", f"{where} slice #{k}: all records unplaced but reference id {s['ref']}")
                        if ctx["kind"] == "multi" and s["ref"] != -2:
                            fail("slice:reference-context", f"{where} slice #{k}: records of several references / placed+unplaced but reference id {s['ref']}")
                        if ctx["kind"] == "single" and not s.get("zero_span"):
                            got = (s["ref"], s["start"], s["start"] + s["span"] - 1)
                            if ctx["exact"]:
                                if got != (ctx["ref"], ctx["start"], ctx["end"]):
                                    fail("slice:reference-context", f"{where} slice #{k}: header (ref, start, end) = {got}, the records cover {(ctx['ref'], ctx['start'], ctx['end'])}")
                            elif s["ref"] != ctx["ref"] or s["start"] > ctx["start"] or got[2] < ctx["end"]:
                                fail("slice:reference-context", f"{where} slice #{k}: header (ref, start, end) = {got} does not cover {(ctx['ref'], ctx['start'], ctx['end'])}")
        c["slices"] = slices
        c.pop("crc_ok")
        geometry.append(c)
        ci += 1
        p = dend

    st["checks[file:eof-container]"] += 1
    if not eof_seen:
        fail("file:eof-container", "the file does not end with the 38-byte EOF container")
    if side:
        st["checks[totals]"] += 1
        if running != side["records"]:
            fail("totals:record-count", f"containers hold {running} records, {side['records']} were written")
        if exp_containers is not None and ci != len(exp_containers):
            fail("totals:container-count", f"{ci} data containers, expected {len(exp_containers)}")
    if (major, minor) == (3, 0) and uses_31:
        st["observed_v3.0_file_with_3.1_method_blocks"] += 1
    st["records"] += running
    st["bases"] += total_bases


def walk_file(path, side_path=None):
    b = open(path, "rb").read()
    side = json.load(open(side_path)) if side_path and os.path.exists(side_path) else None
    return walk_bytes(b, side)


def _job(args):
    name, path, side = args
    try:
        st, failures, _ = walk_file(path, side)
    except Exception as e:  # noqa: BLE001
        return name, Counter(), [("walker-crash", repr(e))], True
    return name, st, failures, False


def check_dump(dump_dir, jobs=None):
    """Walks every <n>.cram of `dump_dir`. Returns (stats Counter, [(file, check, message)], crashes)."""
    import multiprocessing

    names = sorted((n for n in os.listdir(dump_dir) if n.endswith(".cram")), key=lambda n: int(n[:-5]) if n[:-5].isdigit() else 0)
    work = [(n, os.path.join(dump_dir, n), os.path.join(dump_dir, n[:-5] + ".json")) for n in names]
    total = Counter()
    failures = []
    crashes = []
    jobs = jobs or min(os.cpu_count() or 4, 16)
    if len(work) < 8 or jobs <= 1:
        results = map(_job, work)
    else:
        pool = multiprocessing.Pool(jobs)
        results = pool.imap(_job, work, chunksize=16)
    for name, st, fl, crashed in results:
        total.update(st)
        if crashed:
            crashes.append((name, fl[0][1]))
            continue
        for check, msg in fl:
            failures.append((name, check, msg))
    return total, failures, crashes


if __name__ == "__main__":
    tot, fails, crashes = check_dump(sys.argv[1])
    for k in sorted(tot):
        print(f"{k}: {tot[k]}")
    seen = Counter()
    for name, check, msg in fails:
        seen[check] += 1
        if seen[check] <= 3:
            print(f"FAIL {name} {check}: {msg}")
    print("failures by check:", dict(seen))
    print("crashes:", crashes[:5])
