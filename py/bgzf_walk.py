"""Third, language-independent BGZF oracle: struct + CPython zlib (system libz) + gzip.decompress."""
import gzip
import struct
import zlib

EOF_MARKER = bytes([0x1f, 0x8b, 0x08, 0x04, 0, 0, 0, 0, 0, 0xff, 0x06, 0, 0x42, 0x43, 0x02, 0, 0x1b, 0, 0x03, 0,
                    0, 0, 0, 0, 0, 0, 0, 0])


def walk(data):
    """Returns (payload, members) or raises ValueError with the reason."""
    p, out, members = 0, [], 0
    while p < len(data):
        if len(data) - p < 18:
            raise ValueError(f"trailing {len(data) - p} bytes at {p}")
        id1, id2, cm, flg, _mtime, _xfl, _os, xlen = struct.unpack_from("<BBBBIBBH", data, p)
        if (id1, id2, cm, flg) != (0x1f, 0x8b, 8, 4):
            raise ValueError(f"member at {p}: bad gzip header {id1:02x} {id2:02x} cm={cm} flg={flg}")
        if xlen != 6:
            raise ValueError(f"member at {p}: XLEN={xlen}")
        si1, si2, slen, bsize = struct.unpack_from("<BBHH", data, p + 12)
        if (si1, si2, slen) != (66, 67, 2):
            raise ValueError(f"member at {p}: not a BC subfield")
        size = bsize + 1
        if size > 65536 or size < 26 or p + size > len(data):
            raise ValueError(f"member at {p}: BSIZE+1={size} does not fit")
        cdata = data[p + 18:p + size - 8]
        crc, isize = struct.unpack_from("<II", data, p + size - 8)
        d = zlib.decompressobj(-15)
        raw = d.decompress(cdata) + d.flush()
        if not d.eof or d.unused_data:
            raise ValueError(f"member at {p}: deflate stream does not end exactly at the trailer")
        if len(raw) != isize or isize > 65536:
            raise ValueError(f"member at {p}: ISIZE={isize}, inflated {len(raw)}")
        if zlib.crc32(raw) != crc:
            raise ValueError(f"member at {p}: CRC32 mismatch")
        out.append(raw)
        members += 1
        p += size
    if data[-28:] != EOF_MARKER:
        raise ValueError("file does not end with the EOF marker")
    payload = b"".join(out)
    if gzip.decompress(data) != payload:
        raise ValueError("gzip.decompress of the whole file differs from the member-wise inflation")
    return payload, members


def check_dump(dump_dir):
    """Checks every <n>.bgzf / <n>.payload pair; returns (files, members, failures[(name, reason)])."""
    import os
    files = members = 0
    failures = []
    if not os.path.isdir(dump_dir):
        return 0, 0, failures
    for name in sorted(os.listdir(dump_dir)):
        if not name.endswith(".bgzf"):
            continue
        data = open(os.path.join(dump_dir, name), "rb").read()
        want = open(os.path.join(dump_dir, name[:-5] + ".payload"), "rb").read()
        files += 1
        try:
            got, m = walk(data)
            members += m
            if got != want:
                failures.append((name, f"CPython inflation yields {len(got)} bytes != payload {len(want)} bytes"))
        except (ValueError, zlib.error, OSError, EOFError) as e:
            failures.append((name, str(e)))
    return files, members, failures
