//! C13 — a truncated file yields a prefix of the original records (or bytes), then EOF or an error.
//!
//! Monitor: every corpus file of the kinds the quantifier lists (BGZF, BAM, raw BAM, BCF, raw BCF, CRAM,
//! bgzipped and plain SAM / VCF, and the index kinds BAI / CSI / tabix / GZI / FAI / FASTQ-FAI / CRAI) is read
//! once uncut (transcript `T`) and then once per cut offset `c` (`bytes[..c]`) with the same driver. Small files
//! are cut at EVERY offset `0..=len`; larger ones at every offset within ±40 bytes of (a capped number of)
//! structural boundaries plus seeded random offsets. Per cut the monitor requires
//!
//! 1. no panic (`guard::catch`; cases run in child processes, so an abort is attributed as well);
//! 2. the elements before the final END / ERR are a prefix of `T`'s elements (bytes for the BGZF byte stream),
//!    element-wise equal — with the format-inherent tolerance for text streams (a stream that ends inside a
//!    line may yield ONE extra element parsed from that partial line; a stream that ends inside the text header
//!    is only checked for shape);
//! 3. BAM / BCF record readers: if the stream the record reader receives (what the independent member walker
//!    inflates from the complete BGZF members before the cut; `bytes[..c]` for the raw kinds) ends inside a
//!    record, the run ends with ERR; CRAM: if the file ends inside a container that follows the header container
//!    (the 38-byte EOF container counts), the run ends with ERR;
//! 4. index readers: ERR, or an index equal to the original (losing only the optional trailing
//!    unplaced-unmapped count of BAI / CSI / tabix is allowed; text indexes follow the text rule of 2).
//!
//! Everything else (clean END at a boundary, ERR anywhere, clean END of the BGZF *byte* stream after a partial
//! member header) is allowed by the statement and only counted.
//!
//! Drivers: the corpus transcripts (`Variant::Primary` and, where the kind has one, `Variant::Eager`) for all record
//! and index kinds; for the BGZF byte stream three drivers of this crate that collect BYTES until the first END / ERR
//! (`bgzf::io::Reader` + `read_to_end`, the same reader under the corpus' mixed `read(n)` / `fill_buf` pattern incl.
//! ≥ 64 KiB reads, `MultithreadedReader` + `read_to_end` near member boundaries), so that read-call chunking cannot
//! blur the prefix comparison; FAI through `read_index` with one element per record.
//! Besides the corpus items, every small raw BAM / BCF stream is written once more through noodles' BGZF writer
//! with `flush()` 1, 2, 3, 4 and 8 bytes into a record, in the middle of one, on record starts and inside the header
//! (`<kind>/c13-flushed-inside-records-*`): member boundaries inside a record's length field do not occur in the
//! corpus files.
//!
//! Signatures: `<kind>[+<driver>]:<panic|fabricated-element|clean-eof-inside-record|clean-eof-inside-container|
//! index-silently-different>:<cut class>[:<witness shape>]`, cut class ∈ header | body | trailer | at-boundary |
//! inside-bgzf-header | inside-bgzf-body; witness shape e.g. `H-differs`, `R-extra`, `in-length-field`, `in-body`,
//! `in-container-header`, `in-container-blocks`; panics carry the call-site signature (and ` profile=chk` in the chk
//! stage).
//!
//! Parameters: `exhaustive=N` (cut every offset of files up to N bytes), `random=N`, `boundaries=N`, `seeds=N`,
//! `scale=0|1|2`, `reduced=1` (chk / asan stages), `only=<substring of item names>`, `plan=1` (print the plan),
//! `show=<item>:<cut>[:<driver>]` (print what one reading yields).

use std::{
    collections::{BTreeMap, BTreeSet},
    io::{self, BufRead, Read},
};

mod dense;

use corpus::{CramLayout, Item, Kind, Variant};
use noodles_bgzf as bgzf;
use noodles_fasta as fasta;
use serde_json::{Value, json};
use vcore::{CaseOut, Ctx, Report, Rng, bgzf as obgzf, guard, rng::fnv1a, run_cases};

// ------------------------------------------------------------------------------------------------
// drivers

#[derive(Clone, Copy, Debug, PartialEq, Eq, PartialOrd, Ord)]
enum Drv {
    /// corpus transcript, `Variant::Primary`
    Primary,
    /// corpus transcript, `Variant::Eager`
    Eager,
    /// `bgzf::io::Reader` + `read_to_end`
    BgzfReadToEnd,
    /// `bgzf::io::Reader` driven with the corpus' mixed `read(n)` / `fill_buf + consume` pattern
    BgzfPattern,
    /// `bgzf::io::MultithreadedReader` + `read_to_end`
    BgzfMt,
    /// `fasta::fai::io::Reader::read_index`, one element per record of the returned index
    FaiRecords,
}

impl Drv {
    fn name(self) -> &'static str {
        match self {
            Drv::Primary => "primary",
            Drv::Eager => "eager",
            Drv::BgzfReadToEnd => "read_to_end",
            Drv::BgzfPattern => "pattern",
            Drv::BgzfMt => "mt",
            Drv::FaiRecords => "records",
        }
    }

    /// prefix of violation signatures: the kind, plus the reader variant where it is not the primary one
    fn sig_kind(self, kind: Kind) -> String {
        match self {
            Drv::Primary | Drv::BgzfReadToEnd | Drv::FaiRecords => kind.name().to_string(),
            d => format!("{}+{}", kind.name(), d.name()),
        }
    }
}

fn drivers(kind: Kind) -> Vec<Drv> {
    match kind {
        Kind::Bgzf => vec![Drv::BgzfReadToEnd, Drv::BgzfPattern, Drv::BgzfMt],
        Kind::Fai => vec![Drv::FaiRecords],
        k if k.variants().contains(&Variant::Eager) => vec![Drv::Primary, Drv::Eager],
        _ => vec![Drv::Primary],
    }
}

const KINDS: &[Kind] = &[
    Kind::Bgzf,
    Kind::Bam,
    Kind::BamRaw,
    Kind::Bcf,
    Kind::BcfRaw,
    Kind::Cram,
    Kind::Sam,
    Kind::SamGz,
    Kind::Vcf,
    Kind::VcfGz,
    Kind::Bai,
    Kind::Csi,
    Kind::Tbi,
    Kind::Gzi,
    Kind::Fai,
    Kind::FastqFai,
    Kind::Crai,
];

/// What one reading of one byte string gave.
struct Run {
    /// content elements before the final one (`V:` virtual-position elements removed); empty for byte drivers
    elems: Vec<String>,
    /// "END" or "ERR:<ErrorKind>"
    fin: String,
    /// byte drivers: everything delivered before the final END / ERR
    bytes: Option<Vec<u8>>,
    err_msg: Option<String>,
}

impl Run {
    fn ended_cleanly(&self) -> bool {
        self.fin == "END"
    }
}

fn fin_of(r: &io::Result<()>) -> (String, Option<String>) {
    match r {
        Ok(()) => ("END".into(), None),
        Err(e) => (format!("ERR:{:?}", e.kind()), Some(e.to_string())),
    }
}

/// `cap`: a reader that delivers more than this is stopped (a reader that re-delivers a block forever must not eat
/// the machine's memory before the CPU budget fires); the surplus makes the byte comparison fail.
fn bgzf_read_to_end<R: Read>(r: R, cap: usize) -> Run {
    let mut v = Vec::new();
    // `read_to_end` keeps what was read before an error in `v`
    let res = r.take(cap as u64).read_to_end(&mut v).map(|_| ());
    let (fin, err_msg) = fin_of(&res);
    Run { elems: vec![], fin, bytes: Some(v), err_msg }
}

fn bgzf_pattern<R: Read + BufRead>(mut r: R, cap: usize) -> Run {
    use corpus::{BGZF_READ_PATTERN, BgzfReadOp};
    let mut out = Vec::new();
    let mut buf = vec![0u8; 70000];
    let mut i = 0usize;
    let res = loop {
        let op = BGZF_READ_PATTERN[i % BGZF_READ_PATTERN.len()];
        i += 1;
        let res: io::Result<usize> = match op {
            BgzfReadOp::Read(n) => r.read(&mut buf[..n]),
            BgzfReadOp::FillConsume(n) => match r.fill_buf() {
                Ok(w) => {
                    let k = w.len().min(n);
                    buf[..k].copy_from_slice(&w[..k]);
                    r.consume(k);
                    Ok(k)
                }
                Err(e) => Err(e),
            },
        };
        match res {
            Ok(0) => break Ok(()),
            Ok(n) => {
                out.extend_from_slice(&buf[..n]);
                if out.len() >= cap {
                    break Ok(());
                }
            }
            Err(e) if e.kind() == io::ErrorKind::Interrupted => {}
            Err(e) => break Err(e),
        }
    };
    let (fin, err_msg) = fin_of(&res);
    Run { elems: vec![], fin, bytes: Some(out), err_msg }
}

fn fai_records(data: &[u8]) -> Run {
    let mut r = fasta::fai::io::Reader::new(io::BufReader::new(data));
    match r.read_index() {
        Ok(index) => {
            let recs: &[fasta::fai::Record] = index.as_ref();
            Run { elems: recs.iter().map(|r| format!("I:{r:?}")).collect(), fin: "END".into(), bytes: None, err_msg: None }
        }
        Err(e) => Run { elems: vec![], fin: format!("ERR:{:?}", e.kind()), bytes: None, err_msg: Some(e.to_string()) },
    }
}

fn run_driver(item: &Item, drv: Drv, data: &[u8], cap: usize) -> Result<Run, guard::PanicInfo> {
    guard::catch(|| match drv {
        Drv::BgzfReadToEnd => bgzf_read_to_end(bgzf::io::Reader::new(data), cap),
        Drv::BgzfPattern => bgzf_pattern(bgzf::io::Reader::new(data), cap),
        Drv::BgzfMt => bgzf_read_to_end(bgzf::io::MultithreadedReader::new(io::Cursor::new(data.to_vec())), cap),
        Drv::FaiRecords => fai_records(data),
        Drv::Primary | Drv::Eager => {
            let variant = if drv == Drv::Eager { Variant::Eager } else { Variant::Primary };
            let mut t = corpus::transcript_read_variant(item.kind, variant, data, &item.side, false, corpus::DEFAULT_CAP);
            let fin = t.pop().unwrap_or_else(|| "MALFORMED:empty-transcript".into());
            let err_msg = if fin.starts_with("ERR:") { corpus::last_error_message() } else { None };
            t.retain(|e| !e.starts_with("V:"));
            Run { elems: t, fin, bytes: None, err_msg }
        }
    })
}

// ------------------------------------------------------------------------------------------------
// independent description of a file

#[derive(Clone, Copy, Debug, PartialEq, Eq)]
enum Class {
    Bytes,
    Records,
    Cram,
    Text,
    IndexBin,
    IndexText,
    Crai,
}

fn class_of(kind: Kind) -> Class {
    match kind {
        Kind::Bgzf => Class::Bytes,
        Kind::Bam | Kind::BamRaw | Kind::Bcf | Kind::BcfRaw => Class::Records,
        Kind::Cram => Class::Cram,
        Kind::Sam | Kind::SamGz | Kind::Vcf | Kind::VcfGz => Class::Text,
        Kind::Bai | Kind::Csi | Kind::Tbi | Kind::Gzi => Class::IndexBin,
        Kind::Fai | Kind::FastqFai => Class::IndexText,
        Kind::Crai => Class::Crai,
        k => panic!("kind {k:?} is not part of C13"),
    }
}

struct Oracle {
    kind: Kind,
    class: Class,
    len: usize,
    wrapped: bool,
    /// BGZF-wrapped kinds: (offset, size, is EOF marker) of every member (independent walker)
    members: Vec<(usize, usize, bool)>,
    /// offset in the inflated stream at which member i starts; last entry = total
    starts: Vec<usize>,
    /// the stream the format reader sees for the uncut file (inflated payload, the file itself for raw kinds,
    /// the gunzipped text for CRAI)
    stream: Vec<u8>,
    /// Records: `[b0, …, bn]` in stream coordinates
    rec_bounds: Vec<usize>,
    cram: Option<CramLayout>,
    cram_hdr_end: usize,
    cram_eof_start: Option<usize>,
    /// text classes: every line start of `stream` plus `stream.len()`, sorted, deduplicated
    line_bounds: Vec<usize>,
    /// Text: offset in `stream` of the first non-header line
    text_header_end: usize,
    problem: Option<String>,
}

/// Everything `miniz_oxide` can inflate from a (possibly truncated) raw DEFLATE stream.
fn inflate_partial(data: &[u8]) -> Vec<u8> {
    use miniz_oxide::{
        DataFormat, MZFlush, MZStatus,
        inflate::stream::{InflateState, inflate},
    };
    let mut state = InflateState::new_boxed(DataFormat::Raw);
    let mut out = Vec::new();
    let mut buf = vec![0u8; 1 << 15];
    let mut input = data;
    loop {
        let r = inflate(&mut state, input, &mut buf, MZFlush::None);
        input = &input[r.bytes_consumed..];
        out.extend_from_slice(&buf[..r.bytes_written]);
        match r.status {
            Ok(MZStatus::Ok) if r.bytes_consumed > 0 || r.bytes_written > 0 => {}
            _ => break,
        }
    }
    out
}

/// Length of a gzip member header (RFC 1952), `None` if incomplete.
fn gzip_header_len(b: &[u8]) -> Option<usize> {
    if b.len() < 10 || b[0] != 0x1f || b[1] != 0x8b {
        return None;
    }
    let flg = b[3];
    let mut p = 10usize;
    if flg & 4 != 0 {
        let x = u16::from_le_bytes([*b.get(p)?, *b.get(p + 1)?]) as usize;
        p += 2 + x;
    }
    for bit in [8u8, 16] {
        if flg & bit != 0 {
            p += b.get(p..)?.iter().position(|&c| c == 0)? + 1;
        }
    }
    if flg & 2 != 0 {
        p += 2;
    }
    (p <= b.len()).then_some(p)
}

fn line_bounds(s: &[u8]) -> Vec<usize> {
    let mut v = corpus::bounds::line_starts(s);
    v.push(s.len());
    v.sort_unstable();
    v.dedup();
    v
}

impl Oracle {
    fn new(item: &Item) -> Oracle {
        let kind = item.kind;
        let class = class_of(kind);
        let wrapped = kind.is_bgzf_wrapped();
        let mut o = Oracle {
            kind,
            class,
            len: item.bytes.len(),
            wrapped,
            members: vec![],
            starts: vec![0],
            stream: vec![],
            rec_bounds: vec![],
            cram: None,
            cram_hdr_end: 0,
            cram_eof_start: None,
            line_bounds: vec![],
            text_header_end: 0,
            problem: None,
        };
        if wrapped {
            match obgzf::walk(&item.bytes) {
                Ok(w) => {
                    o.members = w.members.iter().map(|m| (m.offset as usize, m.size as usize, m.is_eof_marker)).collect();
                    o.starts = w.starts.iter().map(|&s| s as usize).collect();
                    o.starts.push(w.total as usize);
                    o.stream = w.concat();
                }
                Err(e) => o.problem = Some(format!("independent walker rejects the uncut file: {e}")),
            }
        } else if kind == Kind::Crai {
            match gzip_header_len(&item.bytes) {
                Some(h) if item.bytes.len() >= h + 8 => o.stream = inflate_partial(&item.bytes[h..item.bytes.len() - 8]),
                _ => o.problem = Some("CRAI item is not a complete gzip member".into()),
            }
        } else {
            o.stream = item.bytes.clone();
        }
        match class {
            Class::Records => {
                let b = match kind {
                    Kind::Bam | Kind::BamRaw => corpus::bounds::bam_record_offsets(&o.stream),
                    _ => corpus::bounds::bcf_record_offsets(&o.stream),
                };
                match b {
                    Some(b) if b.last() == Some(&o.stream.len()) => o.rec_bounds = b,
                    Some(_) => o.problem = Some("record walker: the uncut stream does not end on a record boundary".into()),
                    None => o.problem = Some("record walker: cannot parse the header of the uncut stream".into()),
                }
            }
            Class::Cram => {
                let l = corpus::cram_layout(&item.bytes);
                if l.containers.is_empty() || l.end != item.bytes.len() {
                    o.problem = Some("container walker: the uncut file does not end on a container boundary".into());
                } else {
                    o.cram_hdr_end = l.containers.get(1).copied().unwrap_or(l.end);
                    // EOF container: 38 bytes, no records, last in the file
                    let last = *l.containers.last().unwrap();
                    if l.containers.len() >= 2 && l.end - last == 38 && l.records.last() == Some(&0) {
                        o.cram_eof_start = Some(last);
                    }
                    o.cram = Some(l);
                }
            }
            Class::Text => {
                o.line_bounds = line_bounds(&o.stream);
                let marker = if matches!(kind, Kind::Sam | Kind::SamGz) { b'@' } else { b'#' };
                let mut h = o.stream.len();
                for &s in &o.line_bounds {
                    if s < o.stream.len() && o.stream[s] != marker {
                        h = s;
                        break;
                    }
                }
                o.text_header_end = h;
            }
            Class::IndexText | Class::Crai => o.line_bounds = line_bounds(&o.stream),
            _ => {}
        }
        o
    }

    fn byte_cap(&self) -> usize {
        self.stream.len() + 200_000
    }

    /// (number of complete members before the cut, end offset of the last of them)
    fn members_before(&self, c: usize) -> (usize, usize) {
        let k = self.members.partition_point(|m| m.0 + m.1 <= c);
        let p = if k == 0 { 0 } else { self.members[k - 1].0 + self.members[k - 1].1 };
        (k, p)
    }

    /// Length of the stream the format reader can receive from `bytes[..c]`.
    fn stream_len(&self, c: usize, item: &Item) -> usize {
        if self.wrapped {
            self.starts[self.members_before(c).0]
        } else if self.kind == Kind::Crai {
            match gzip_header_len(&item.bytes) {
                Some(h) if c > h => inflate_partial(&item.bytes[h..c.min(self.len - 8)]).len(),
                _ => 0,
            }
        } else {
            c
        }
    }

    fn cut_class(&self, c: usize) -> &'static str {
        if self.wrapped {
            let (k, p) = self.members_before(c);
            return if c == p {
                "at-boundary"
            } else if self.members.get(k).map(|m| m.2).unwrap_or(false) && k + 1 == self.members.len() {
                "trailer"
            } else if c - p < 18 {
                "inside-bgzf-header"
            } else {
                "inside-bgzf-body"
            };
        }
        match self.kind {
            Kind::BamRaw | Kind::BcfRaw => {
                if c < self.rec_bounds.first().copied().unwrap_or(0) {
                    "header"
                } else if self.rec_bounds.binary_search(&c).is_ok() {
                    "at-boundary"
                } else {
                    "body"
                }
            }
            Kind::Cram => {
                let Some(l) = &self.cram else { return "body" };
                if c < self.cram_hdr_end {
                    "header"
                } else if c == l.end || l.containers[1..].binary_search(&c).is_ok() {
                    "at-boundary"
                } else if self.cram_eof_start.map(|e| c > e).unwrap_or(false) {
                    "trailer"
                } else {
                    "body"
                }
            }
            Kind::Sam | Kind::Vcf => {
                if c < self.text_header_end {
                    "header"
                } else if self.line_bounds.binary_search(&c).is_ok() {
                    "at-boundary"
                } else {
                    "body"
                }
            }
            Kind::Fai | Kind::FastqFai => {
                if self.line_bounds.binary_search(&c).is_ok() { "at-boundary" } else { "body" }
            }
            Kind::Bai => {
                if c == self.len {
                    "at-boundary"
                } else if c < 8 {
                    "header"
                } else if c + 8 >= self.len {
                    "trailer"
                } else {
                    "body"
                }
            }
            Kind::Gzi => {
                if c < 8 {
                    "header"
                } else if (c - 8) % 16 == 0 {
                    "at-boundary"
                } else {
                    "body"
                }
            }
            Kind::Crai => {
                if c == self.len {
                    "at-boundary"
                } else if c < 10 {
                    "header"
                } else if c + 8 >= self.len {
                    "trailer"
                } else {
                    "body"
                }
            }
            _ => "body",
        }
    }
}

// ------------------------------------------------------------------------------------------------
// judgement of one run

#[derive(Default)]
struct Verdict {
    /// (diagnosis or "diagnosis|witness shape", description)
    violations: Vec<(String, String)>,
    /// counters to bump
    notes: Vec<String>,
    /// class of the position at which the received stream ends
    stream_end: &'static str,
}

fn clip(s: &str) -> String {
    let s = s.replace('\u{1f}', "␟");
    if s.chars().count() > 260 { format!("{}…[{} chars]", s.chars().take(260).collect::<String>(), s.chars().count()) } else { s }
}

fn tail_hex(b: &[u8], n: usize) -> String {
    let from = b.len().saturating_sub(n);
    vcore::report::hex(&b[from..])
}

/// `got[..n]` must equal `want[..n]`; returns ("fabricated-element|<witness shape>", description) of the first
/// difference. Shape = kind letter of the offending element (H, R, C, I) + `-differs` / `-extra`.
fn prefix_diff(got: &[String], want: &[String], n: usize) -> Option<(String, String)> {
    let letter = |e: &str| e.split(':').next().unwrap_or("?").chars().take(3).collect::<String>();
    for i in 0..n {
        match (got.get(i), want.get(i)) {
            (Some(g), Some(w)) if g == w => {}
            (Some(g), Some(w)) => {
                return Some((
                    format!("fabricated-element|{}-differs", letter(g)),
                    format!("element #{i} differs from the uncut file's element #{i}: got `{}`, original `{}`", clip(g), clip(w)),
                ));
            }
            (Some(g), None) => {
                return Some((
                    format!("fabricated-element|{}-extra", letter(g)),
                    format!("element #{i} `{}` has no counterpart: the uncut file yields only {} elements", clip(g), want.len()),
                ));
            }
            (None, _) => return None,
        }
    }
    None
}

/// The last `n` chars before char index `at` and what follows (char-boundary safe).
fn around(s: &str, at: usize) -> String {
    clip(&s.chars().skip(at.saturating_sub(40)).collect::<String>())
}

const COUNT_RE: &str = "unplaced_unmapped_record_count: Some(";

/// `I:` element with the optional trailing unplaced-unmapped count removed.
fn without_unplaced_count(s: &str) -> Option<String> {
    let i = s.find(COUNT_RE)?;
    let rest = &s[i + COUNT_RE.len()..];
    let j = rest.find(')')?;
    if !rest[..j].bytes().all(|b| b.is_ascii_digit()) {
        return None;
    }
    Some(format!("{}unplaced_unmapped_record_count: None{}", &s[..i], &rest[j + 1..]))
}

fn judge(o: &Oracle, item: &Item, t: &Run, run: &Run, c: usize) -> Verdict {
    let mut v = Verdict { stream_end: "-", ..Default::default() };
    let sl = o.stream_len(c, item);
    if !(run.fin == "END" || run.fin.starts_with("ERR:")) {
        v.violations.push(("fabricated-element|bad-final-element".into(), format!("the transcript does not end with END or ERR but with `{}`", clip(&run.fin))));
        return v;
    }
    match o.class {
        Class::Bytes => {
            let got = run.bytes.as_deref().unwrap_or(&[]);
            let want = &o.stream;
            if got.len() > want.len() || got != &want[..got.len()] {
                let at = got.iter().zip(want.iter()).position(|(a, b)| a != b).unwrap_or(got.len().min(want.len()));
                v.violations.push((
                    "fabricated-element|bytes-differ".into(),
                    format!(
                        "the reader delivered {} bytes that are not a prefix of the {} original bytes (first difference at {at}; the complete members before the cut hold {sl} bytes); then {}",
                        got.len(),
                        want.len(),
                        run.fin
                    ),
                ));
            } else if got.len() == sl {
                v.notes.push("bytes_delivered[all-complete-members]".into());
            } else if got.len() < sl {
                v.notes.push("bytes_delivered[fewer-than-complete-members]".into());
            } else {
                // more than the complete members hold: only possible from a partial member, i.e. unverified data
                v.violations.push((
                    "fabricated-element|bytes-beyond-complete-members".into(),
                    format!("the reader delivered {} bytes although the complete members before the cut hold only {sl} (bytes from an incomplete, unverifiable member)", got.len()),
                ));
            }
            v.stream_end = if sl == want.len() { "whole-stream" } else { "partial-stream" };
        }
        Class::Records => {
            if let Some((diag, d)) = prefix_diff(&run.elems, &t.elems, run.elems.len()) {
                v.violations.push((diag, format!("{d}; then {}", run.fin)));
            }
            let b0 = o.rec_bounds[0];
            if sl < b0 {
                v.stream_end = "inside-header";
                if run.ended_cleanly() {
                    v.notes.push("observed[clean-END-with-incomplete-header]".into());
                }
            } else if o.rec_bounds.binary_search(&sl).is_ok() {
                v.stream_end = "at-record-boundary";
                let complete = o.rec_bounds.binary_search(&sl).unwrap();
                let got = run.elems.iter().filter(|e| e.starts_with("R:")).count();
                if run.ended_cleanly() && got < complete {
                    v.notes.push("observed[clean-END-before-all-complete-records]".into());
                }
            } else {
                v.stream_end = "inside-record";
                if run.ended_cleanly() {
                    let i = o.rec_bounds.partition_point(|&b| b <= sl);
                    let (rs, re) = (o.rec_bounds[i - 1], o.rec_bounds[i]);
                    v.violations.push((
                        // the first 4 bytes of a BAM / BCF record are its (first) length field
                        format!("clean-eof-inside-record|{}", if sl - rs < 4 { "in-length-field" } else { "in-body" }),
                        format!(
                            "the stream the record reader receives is {sl} bytes long and ends {} bytes into record #{} (bytes {rs}..{re} of the stream), yet the reader reports a clean end of file after {} record(s); last 24 stream bytes: {}",
                            sl - rs,
                            i - 1,
                            run.elems.iter().filter(|e| e.starts_with("R:")).count(),
                            tail_hex(&o.stream[..sl], 24)
                        ),
                    ));
                }
            }
        }
        Class::Cram => {
            if let Some((diag, d)) = prefix_diff(&run.elems, &t.elems, run.elems.len()) {
                v.violations.push((diag, format!("{d}; then {}", run.fin)));
            }
            let l = o.cram.as_ref().unwrap();
            if c < o.cram_hdr_end {
                v.stream_end = "inside-header-container";
                if run.ended_cleanly() {
                    v.notes.push("observed[clean-END-inside-header-container]".into());
                }
            } else if c == l.end || l.containers[1..].binary_search(&c).is_ok() {
                v.stream_end = "at-container-boundary";
            } else {
                v.stream_end = "inside-container";
                if run.ended_cleanly() {
                    let i = l.containers.partition_point(|&b| b <= c) - 1;
                    let end = l.containers.get(i + 1).copied().unwrap_or(l.end);
                    v.violations.push((
                        format!("clean-eof-inside-container|{}", if c < l.bodies[i] { "in-container-header" } else { "in-container-blocks" }),
                        format!(
                            "the file ends {} bytes into container #{i} (bytes {}..{end}, {} records{}), yet the reader reports a clean end of file",
                            c - l.containers[i],
                            l.containers[i],
                            l.records[i],
                            if Some(l.containers[i]) == o.cram_eof_start { ", the EOF container" } else { "" }
                        ),
                    ));
                }
            }
        }
        Class::Text | Class::IndexText | Class::Crai => {
            let hdr_elems = if o.class == Class::Text { 1 } else { 0 };
            if o.class == Class::Text && sl < o.text_header_end {
                // the text header itself is cut: any prefix of header lines is a valid header
                v.stream_end = "inside-header";
                v.notes.push("tolerated[text-header-cut-not-compared]".into());
                if run.elems.len() > 1 || run.elems.first().map(|e| !e.starts_with("H:")).unwrap_or(false) {
                    v.violations.push((
                        "fabricated-element|elements-from-cut-text-header".into(),
                        format!("the stream ends inside the header ({sl} of {} header bytes) but the reader yields {} element(s), first `{}`", o.text_header_end, run.elems.len(), clip(&run.elems[0])),
                    ));
                }
                return v;
            }
            // complete lines in the received stream
            let i = o.line_bounds.partition_point(|&b| b <= sl);
            let complete_end = o.line_bounds[i - 1];
            let partial = sl > complete_end;
            let first_record_line = o.line_bounds.partition_point(|&b| b < o.text_header_end);
            let k = (i - 1).saturating_sub(first_record_line);
            v.stream_end = if partial { "inside-line" } else { "at-line-boundary" };
            let fixed = hdr_elems + k;
            if let Some((diag, d)) = prefix_diff(&run.elems, &t.elems, run.elems.len().min(fixed)) {
                v.violations.push((diag, format!("{d}; then {} (the received stream holds {k} complete record line(s))", run.fin)));
            } else if run.elems.len() > fixed + partial as usize {
                v.violations.push((
                    "fabricated-element|more-elements-than-lines".into(),
                    format!(
                        "{} element(s) from a stream of {sl} bytes that holds {k} complete record line(s){}: extra element `{}`",
                        run.elems.len(),
                        if partial { " and one partial line" } else { "" },
                        clip(&run.elems[fixed + partial as usize])
                    ),
                ));
            } else if run.elems.len() == fixed + 1 {
                let e = &run.elems[fixed];
                if t.elems.get(fixed) == Some(e) {
                    v.notes.push("tolerated[partial-line-parsed-equal-to-original]".into());
                } else if e.starts_with("R:") || e.starts_with("I:") {
                    v.notes.push("tolerated[partial-line-parsed-as-record]".into());
                } else {
                    v.violations.push(("fabricated-element|partial-line-not-a-record".into(), format!("element parsed from the partial last line is not a record: `{}`", clip(e))));
                }
            }
            if o.class == Class::Crai && run.ended_cleanly() && run.elems != t.elems {
                v.violations.push((
                    "index-silently-different|fewer-records".into(),
                    format!("read to a clean end with {} of {} records although the gzip member is incomplete", run.elems.len(), t.elems.len()),
                ));
            }
        }
        Class::IndexBin => {
            v.stream_end = if sl == o.stream.len() { "whole-stream" } else { "partial-stream" };
            if run.ended_cleanly() {
                let want = t.elems.first().cloned().unwrap_or_default();
                let got = run.elems.first().cloned().unwrap_or_default();
                if run.elems.len() != 1 {
                    v.violations.push(("fabricated-element|element-count".into(), format!("{} elements from an index reader", run.elems.len())));
                } else if got == want {
                    if c < o.len {
                        v.notes.push("observed[index-equal-from-cut-file]".into());
                    }
                } else if sl + 8 >= o.stream.len() && without_unplaced_count(&want).as_deref() == Some(&got) {
                    v.notes.push("tolerated[optional-unplaced-unmapped-count-lost]".into());
                } else {
                    let at = got.chars().zip(want.chars()).position(|(a, b)| a != b).unwrap_or(got.chars().count().min(want.chars().count()));
                    v.violations.push((
                        "index-silently-different".into(),
                        format!(
                            "read_index returned Ok from {sl} of {} stream bytes with an index that differs from the original (Debug text differs at char {at}: got `…{}`, original `…{}`)",
                            o.stream.len(),
                            around(&got, at),
                            around(&want, at)
                        ),
                    ));
                }
            } else if !run.elems.is_empty() {
                v.violations.push(("fabricated-element|element-before-error".into(), "an index element followed by ERR".into()));
            }
        }
    }
    v
}

// ------------------------------------------------------------------------------------------------
// files, cuts, cases

struct FileEntry {
    item: Item,
    seed: u64,
    cuts: Vec<usize>,
    exhaustive: bool,
}

#[derive(Clone, Debug)]
struct Case {
    file: usize,
    drv: Drv,
    /// range of indices into the file's cut list
    lo: usize,
    hi: usize,
}

struct Plan {
    exhaustive_limit: usize,
    near: usize,
    max_boundaries: usize,
    random: usize,
    scale: u8,
    seeds: Vec<u64>,
}

fn plan(ctx: &Ctx) -> Plan {
    let reduced = ctx.param("reduced").is_some();
    let tiny = ctx.param("tiny").is_some();
    let n_seeds = if reduced || tiny { 1 } else { ctx.budget("seeds", 1, 5) };
    let mut seeds = vec![ctx.seed];
    for i in 1..n_seeds {
        seeds.push(fnv1a(format!("c13-corpus-seed|{}|{i}", ctx.seed).as_bytes()) >> 1);
    }
    Plan {
        exhaustive_limit: if reduced { 700 } else { ctx.budget("exhaustive", 14000, 20000) as usize },
        near: 40,
        max_boundaries: if reduced { 8 } else { ctx.budget("boundaries", 14, 40) as usize },
        random: if reduced { 60 } else { ctx.budget("random", 300, 2000) as usize },
        scale: if tiny { 0 } else if reduced { 1 } else { ctx.budget("scale", 1, 2) as u8 },
        seeds,
    }
}

fn cuts_for(item: &Item, seed: u64, p: &Plan) -> (Vec<usize>, bool) {
    let len = item.bytes.len();
    if item.name.contains(dense::MARK) && item.name.ends_with("many-flushed") {
        // ~1 000 tiny members: the stream the index parser sees only changes at member boundaries, so every member
        // is cut at its start, 1 and 17 bytes into its header, at the first byte of its body and 1 byte before its end
        let mut set = BTreeSet::new();
        if let Ok(w) = obgzf::walk(&item.bytes) {
            for m in &w.members {
                let (o, e) = (m.offset as usize, (m.offset + m.size) as usize);
                set.extend([o, o + 1, o + 17, o + 18, e - 1, e]);
            }
        }
        set.extend(len.saturating_sub(p.near)..=len);
        return (set.into_iter().filter(|&c| c <= len).collect(), false);
    }
    if len <= p.exhaustive_limit || item.name.contains(dense::MARK) {
        return ((0..=len).collect(), true);
    }
    let mut set = BTreeSet::new();
    let mut rng = Rng::new(seed, 0xC13, fnv1a(item.name.as_bytes()));
    let mut b = corpus::boundaries(item);
    if b.len() > p.max_boundaries {
        // keep the first and last few, sample the rest
        let keep = (p.max_boundaries / 3).max(2);
        let mut mid: Vec<usize> = b[keep..b.len() - keep].to_vec();
        rng.shuffle(&mut mid);
        mid.truncate(p.max_boundaries.saturating_sub(2 * keep));
        let mut nb: Vec<usize> = b[..keep].to_vec();
        nb.extend_from_slice(&b[b.len() - keep..]);
        nb.extend(mid);
        b = nb;
    }
    for x in b {
        for c in x.saturating_sub(p.near)..=(x + p.near).min(len) {
            set.insert(c);
        }
    }
    for c in 0..=p.near.min(len) {
        set.insert(c);
        set.insert(len - c);
    }
    for _ in 0..p.random {
        set.insert(rng.urange(0, len));
    }
    (set.into_iter().collect(), false)
}

/// A raw BAM / BCF corpus stream written through noodles' own BGZF writer with `flush()` calls at chosen stream
/// offsets, so that member boundaries fall 1, 2, 3 and 4 bytes into a record (inside / right after its length
/// field), 8 bytes into one, in the middle of one, exactly on record starts, on the end of the header and inside the
/// header. (The corpus files have their member boundaries either on record boundaries or wherever 64 KiB end.)
fn rewrap(item: &Item) -> Option<Item> {
    use std::io::Write;
    let (kind, b) = match item.kind {
        Kind::BamRaw => (Kind::Bam, corpus::bounds::bam_record_offsets(&item.bytes)?),
        Kind::BcfRaw => (Kind::Bcf, corpus::bounds::bcf_record_offsets(&item.bytes)?),
        _ => return None,
    };
    if b.len() < 9 || item.bytes.len() > 40000 {
        return None;
    }
    // the header split avoids the last 200 header bytes (a BCF header cut inside its `#CHROM` line is a finding of
    // its own, witnessed by the raw BCF files)
    let mut splits = vec![b[0].saturating_sub(200).max(10), b[0], b[1] + 1, b[2] + 2, b[3] + 3, b[4] + 4, b[5], b[6] + 8, (b[6] + b[7]) / 2, b[7]];
    splits.sort_unstable();
    splits.dedup();
    let s = &item.bytes;
    let mut w = bgzf::io::Writer::new(Vec::new());
    let mut prev = 0usize;
    for x in splits {
        w.write_all(&s[prev..x]).ok()?;
        w.flush().ok()?;
        prev = x;
    }
    w.write_all(&s[prev..]).ok()?;
    let bytes = w.finish().ok()?;
    let tail = item.name.split_once('/').map(|x| x.1).unwrap_or(&item.name);
    Some(Item { kind, name: format!("{}/c13-flushed-inside-records-{tail}", kind.name()), bytes, side: item.side.clone() })
}

fn build_files(ctx: &Ctx) -> Vec<FileEntry> {
    let p = plan(ctx);
    let tmp = ctx.work.join(format!("corpus-{}", std::process::id()));
    let _ = std::fs::create_dir_all(&tmp);
    let mut seen = BTreeSet::new();
    let mut files = Vec::new();
    let only = ctx.param("only");
    for &seed in &p.seeds {
        let mut items = corpus::items_with_tmp(seed, p.scale, &tmp);
        let extra: Vec<Item> = items.iter().filter_map(rewrap).collect();
        items.extend(extra);
        if seed == p.seeds[0] && p.scale > 0 {
            // seed-independent dense index files (see dense.rs); the in-process chk / asan stages skip the two largest
            let reduced = ctx.param("reduced").is_some();
            items.extend(dense::items().into_iter().filter(|i| !(reduced && i.name.ends_with("many-flushed"))));
        }
        for item in items {
            if !KINDS.contains(&item.kind) {
                continue;
            }
            if let Some(f) = only {
                if !item.name.contains(f) {
                    continue;
                }
            }
            // the same bytes under the same name (CRAM fixtures, empty files) are cut once
            if !seen.insert((item.name.clone(), fnv1a(&item.bytes))) {
                continue;
            }
            let (cuts, exhaustive) = cuts_for(&item, seed, &p);
            files.push(FileEntry { item, seed, cuts, exhaustive });
        }
    }
    let _ = std::fs::remove_dir_all(&tmp);
    files
}

/// Rough relative cost of reading a prefix of `c` bytes of a file of this kind (calibrated by measurement).
fn cost(kind: Kind, drv: Drv, c: usize) -> f64 {
    let per_byte = match (kind, drv) {
        (Kind::Bgzf, Drv::BgzfMt) => 0.05,
        (Kind::Bgzf, _) => 0.03,
        (Kind::Cram, _) => 2.0,
        (Kind::Bam | Kind::Bcf | Kind::SamGz | Kind::VcfGz, _) => 2.0,
        (Kind::Csi | Kind::Tbi, _) => 3.0,
        _ => 1.0,
    };
    let fixed = if drv == Drv::BgzfMt { 60000.0 } else { 1500.0 };
    fixed + per_byte * c as f64
}

fn gen_cases(ctx: &Ctx, files: &[FileEntry]) -> Vec<Case> {
    let chunk_budget = ctx.budget("chunk", 4_000_000, 12_000_000) as f64;
    let mut cases = Vec::new();
    for (fi, f) in files.iter().enumerate() {
        for drv in drivers(f.item.kind) {
            let mut lo = 0usize;
            let mut acc = 0.0;
            for (i, &c) in f.cuts.iter().enumerate() {
                acc += cost(f.item.kind, drv, c);
                if acc >= chunk_budget || i + 1 == f.cuts.len() {
                    cases.push(Case { file: fi, drv, lo, hi: i + 1 });
                    lo = i + 1;
                    acc = 0.0;
                }
            }
        }
    }
    // static round-robin sharding: spread cheap and expensive cases evenly over the shards
    Rng::new(ctx.seed, 0xC13C, 0).shuffle(&mut cases);
    cases
}

fn case_json(files: &[FileEntry], c: &Case) -> Value {
    let f = &files[c.file];
    json!({"item": f.item.name, "corpus_seed": f.seed, "len": f.item.bytes.len(), "driver": c.drv.name(),
           "first_cut": f.cuts.get(c.lo), "last_cut": f.cuts.get(c.hi.saturating_sub(1)), "cuts": c.hi - c.lo,
           "file_exhaustive": f.exhaustive})
}

/// The multithreaded reader is only driven near member boundaries and on a thinned-out grid elsewhere.
fn mt_wanted(o: &Oracle, c: usize) -> bool {
    let (k, p) = o.members_before(c);
    let next_end = o.members.get(k).map(|m| m.0 + m.1).unwrap_or(o.len);
    c - p <= 24 || next_end.saturating_sub(c) <= 12 || c % 37 == 0
}

fn run_case(ctx: &Ctx, files: &[FileEntry], case: &Case) -> CaseOut {
    let mut out = CaseOut::new();
    out.evaluations = 0;
    let f = &files[case.file];
    let item = &f.item;
    let kind = item.kind;
    let chk = ctx.stage == "chk";
    let t0 = guard::thread_cpu_s();
    let o = Oracle::new(item);
    if let Some(p) = &o.problem {
        out.inconclusive.push(format!("{}: {p}", item.name));
        return out;
    }
    let sk = case.drv.sig_kind(kind);
    // transcript of the uncut file
    let t = match run_driver(item, case.drv, &item.bytes, o.byte_cap()) {
        Ok(t) => t,
        Err(p) => {
            out.inconclusive.push(format!("{}: the {} driver panics on the UNCUT file ({}); not a truncation finding", item.name, case.drv.name(), p.sig));
            return out;
        }
    };
    if !t.ended_cleanly() {
        out.inconclusive.push(format!(
            "{}: the {} driver does not read the UNCUT file to END ({}: {}); not a truncation finding",
            item.name,
            case.drv.name(),
            t.fin,
            t.err_msg.clone().unwrap_or_default()
        ));
        return out;
    }
    if let Some(b) = &t.bytes {
        if *b != o.stream {
            out.inconclusive.push(format!("{}: the uncut file does not read back to the independent walker's payload (C01's business)", item.name));
            return out;
        }
    }
    let mut fps = BTreeSet::new();
    let mut counters: BTreeMap<String, u64> = BTreeMap::new();
    let mut bump = |k: String| *counters.entry(k).or_insert(0) += 1;
    let mut reported = BTreeSet::new();
    for &c in &f.cuts[case.lo..case.hi] {
        if case.drv == Drv::BgzfMt && !mt_wanted(&o, c) {
            continue;
        }
        let cc = o.cut_class(c);
        out.evaluations += 1;
        bump(format!("runs[{}/{}]", kind.name(), case.drv.name()));
        if case.drv == drivers(kind)[0] {
            bump(format!("cuts[{}]", kind.name()));
            bump(format!("cuts_by_class[{cc}]"));
            bump("cuts".into());
        }
        let run = match run_driver(item, case.drv, &item.bytes[..c], o.byte_cap()) {
            Ok(r) => r,
            Err(p) => {
                let sig = format!("{sk}:panic:{cc}:{}{}", p.sig, if chk { " profile=chk" } else { "" });
                if reported.insert(sig.clone()) {
                    out.violation_with(
                        sig,
                        format!("{} cut at {c} of {} ({cc}): the {} reader panics: {} at {}:{}", item.name, o.len, case.drv.name(), p.message, p.file, p.line),
                        json!({"item": item.name, "corpus_seed": f.seed, "cut": c, "driver": case.drv.name()}),
                    );
                }
                bump(format!("outcome[{cc}][PANIC]"));
                continue;
            }
        };
        let v = judge(&o, item, &t, &run, c);
        let fin_class = if run.ended_cleanly() { "END" } else { "ERR" };
        bump(format!("outcome[{cc}][{fin_class}]"));
        bump(format!("stream_end[{}][{}][{fin_class}]", class_name(o.class), v.stream_end));
        if !run.ended_cleanly() {
            bump(format!("error_kind[{}]", &run.fin[4..]));
        }
        for n in v.notes {
            bump(n);
        }
        fps.insert(fnv1a(format!("{}|{}|{cc}|{}|{}", kind.name(), case.drv.name(), v.stream_end, run.fin).as_bytes()));
        for (diag, desc) in v.violations {
            // <kind>:<diagnosis>:<cut class>[:<witness shape>]
            let sig = match diag.split_once('|') {
                Some((d, shape)) => format!("{sk}:{d}:{cc}:{shape}"),
                None => format!("{sk}:{diag}:{cc}"),
            };
            bump(format!("violating_runs[{sig}]"));
            if reported.insert(sig.clone()) {
                out.violation_with(
                    sig,
                    format!(
                        "{} (corpus seed {}) cut at {c} of {} bytes ({cc}; the format reader can receive {} of {} stream bytes), {} reader, final element {}{}: {desc}",
                        item.name,
                        f.seed,
                        o.len,
                        o.stream_len(c, item),
                        o.stream.len(),
                        case.drv.name(),
                        run.fin,
                        run.err_msg.as_ref().map(|m| format!(" ({m})")).unwrap_or_default(),
                    ),
                    json!({"item": item.name, "corpus_seed": f.seed, "cut": c, "driver": case.drv.name(),
                           "elements_before_final": run.elems.len(), "uncut_elements": t.elems.len(),
                           "file_tail_hex": tail_hex(&item.bytes[..c], 48)}),
                );
            }
        }
    }
    out.fps = fps.into_iter().collect();
    for (k, n) in counters {
        out.count(&k, n);
    }
    out.max("max_case_cpu_ms", ((guard::thread_cpu_s() - t0) * 1000.0) as u64);
    if case.lo == 0 {
        out.sample = Some(case_json(files, case));
    }
    out
}

fn class_name(c: Class) -> &'static str {
    match c {
        Class::Bytes => "bgzf-bytes",
        Class::Records => "bam/bcf",
        Class::Cram => "cram",
        Class::Text => "sam/vcf-text",
        Class::IndexBin => "binary-index",
        Class::IndexText => "text-index",
        Class::Crai => "crai",
    }
}

fn main() {
    let ctx = Ctx::from_args();
    let ctx = vcore::cases::replay_request(&ctx).map(|r| r.1).unwrap_or(ctx);
    // the multithreaded BGZF reader inflates on the global rayon pool: keep it small (16 children run at once)
    let _ = rayon::ThreadPoolBuilder::new().num_threads(2).build_global();
    let mut rep = Report::new(
        "case = (corpus file, reader driver, chunk of cut offsets); one evaluation = one reading of bytes[..c] with one driver, \
         judged against the same driver's transcript of the uncut file and against independent walkers (BGZF members, BAM/BCF \
         record offsets, CRAM containers, text lines). Files up to the `exhaustive` limit are cut at every offset 0..=len, larger \
         ones within ±40 bytes of structural boundaries plus seeded random offsets. distinct = distinct (kind, driver, cut class, \
         class of the position where the received stream ends, final element incl. error kind); non-trivial = all",
    );
    rep.assumptions.push("the stream a format reader can receive from a cut BGZF file = what the independent walker (miniz_oxide inflate, table CRC32) inflates from the complete members before the cut".into());
    rep.assumptions.push("record / container / line boundaries come from walkers written from the format specifications (corpus::bounds), not from noodles".into());
    rep.assumptions.push("text streams (SAM, VCF, FAI, FASTQ-FAI, gunzipped CRAI): a stream that ends inside a line may yield one extra element parsed from the partial line, a stream that ends inside the SAM/VCF header is only checked for shape — a text reader cannot tell a cut line from a short last line".into());
    rep.assumptions.push("BAI/CSI/tabix: an index that differs from the original only by the optional trailing unplaced-unmapped count is accepted when at most those 8 bytes are missing".into());
    rep.assumptions.push("virtual-position (V:) elements are not compared: the statement is about records and bytes".into());
    let files = build_files(&ctx);
    let cases = gen_cases(&ctx, &files);
    if ctx.param("plan").is_some() {
        let mut per_kind: BTreeMap<&str, (usize, usize, usize)> = BTreeMap::new();
        for f in &files {
            let e = per_kind.entry(f.item.kind.name()).or_default();
            e.0 += 1;
            e.1 += f.cuts.len();
            e.2 += f.exhaustive as usize;
        }
        for (k, (n, c, e)) in &per_kind {
            println!("{k}: {n} files, {c} cuts, {e} exhaustive");
        }
        println!("total: {} files, {} cuts, {} cases", files.len(), files.iter().map(|f| f.cuts.len()).sum::<usize>(), cases.len());
        std::process::exit(0);
    }
    if let Some(spec) = ctx.param("show") {
        // show=<item name>:<cut>[:<driver>] — print what one reading yields (diagnosis aid)
        let mut it = spec.split(':');
        let (name, cut) = (it.next().unwrap_or(""), it.next().and_then(|c| c.parse::<usize>().ok()).unwrap_or(0));
        let drv_name = it.next().unwrap_or("");
        for f in files.iter().filter(|f| f.item.name == name) {
            let o = Oracle::new(&f.item);
            for drv in drivers(f.item.kind).into_iter().filter(|d| drv_name.is_empty() || d.name() == drv_name) {
                let c = cut.min(f.item.bytes.len());
                println!("== {} (corpus seed {}, {} bytes) cut at {c}: class {}, stream {} of {} bytes, driver {}", f.item.name, f.seed, o.len, o.cut_class(c), o.stream_len(c, &f.item), o.stream.len(), drv.name());
                let t = run_driver(&f.item, drv, &f.item.bytes, o.byte_cap()).ok();
                match run_driver(&f.item, drv, &f.item.bytes[..c], o.byte_cap()) {
                    Err(p) => println!("   PANIC {}", p.sig),
                    Ok(r) => {
                        println!("   {} element(s), {} byte(s), final {} {:?}", r.elems.len(), r.bytes.as_ref().map(|b| b.len()).unwrap_or(0), r.fin, r.err_msg);
                        for (i, e) in r.elems.iter().enumerate().rev().take(3).rev() {
                            println!("   [{i}] {}", e.replace('\u{1f}', " ␟ "));
                            if let Some(w) = t.as_ref().and_then(|t| t.elems.get(i)) {
                                if w != e {
                                    println!("   original [{i}] {}", w.replace('\u{1f}', " ␟ "));
                                }
                            }
                        }
                        if let Some(t) = &t {
                            for (diag, desc) in judge(&o, &f.item, t, &r, c).violations {
                                println!("   VIOLATION {diag}: {desc}");
                            }
                        }
                    }
                }
            }
        }
        std::process::exit(0);
    }
    let f = |i: u64| -> CaseOut { run_case(&ctx, &files, &cases[i as usize]) };
    run_cases(&ctx, &mut rep, cases.len() as u64, 120.0, &f, &|i| case_json(&files, &cases[i as usize]));
    if ctx.replay.is_none() {
        let exhaustive = files.iter().filter(|f| f.exhaustive).count();
        rep.count("files", files.len() as u64);
        rep.count("files_cut_at_every_offset", exhaustive as u64);
        rep.count("files_cut_near_boundaries_and_at_random", (files.len() - exhaustive) as u64);
        rep.exhaustive = Some(exhaustive == files.len());
        rep.extra.insert(
            "files".into(),
            Value::Array(
                files
                    .iter()
                    .map(|f| json!({"item": f.item.name, "corpus_seed": f.seed, "len": f.item.bytes.len(), "cuts": f.cuts.len(), "exhaustive": f.exhaustive}))
                    .collect(),
            ),
        );
        if ctx.param("only").is_none() && ctx.param("tiny").is_none() {
            let snapshot = rep.counters.clone();
            let get = |k: &str| snapshot.get(k).copied().unwrap_or(0);
            let reduced = ctx.param("reduced").is_some();
            let scale = if reduced { 10 } else { 1 };
            rep.floor("cuts", get("cuts"), 30000 / scale);
            rep.floor("cuts inside a BGZF member header", get("cuts_by_class[inside-bgzf-header]"), 2000 / scale);
            rep.floor("cuts inside a BGZF member body", get("cuts_by_class[inside-bgzf-body]"), 2000 / scale);
            rep.floor("record readers: streams ending inside a record", get("stream_end[bam/bcf][inside-record][ERR]") + get("stream_end[bam/bcf][inside-record][END]"), 3000 / scale);
            rep.floor("CRAM: files ending inside a container", get("stream_end[cram][inside-container][ERR]") + get("stream_end[cram][inside-container][END]"), 1000 / scale);
            rep.floor("index files cut", get("cuts[bai]") + get("cuts[csi]") + get("cuts[tbi]") + get("cuts[gzi]") + get("cuts[fai]") + get("cuts[fastqfai]") + get("cuts[crai]"), 2000 / scale);
            for k in KINDS {
                rep.floor(&format!("files of kind {}", k.name()), files.iter().filter(|f| f.item.kind == *k).count() as u64, 1);
            }
            rep.floor("dense index files (every numeric field uses all its bytes)", files.iter().filter(|f| f.item.name.contains(dense::MARK)).count() as u64, if reduced { 14 } else { 16 });
            rep.floor("binary-index trailer cuts that lose exactly the optional count", get("tolerated[optional-unplaced-unmapped-count-lost]"), 20);
        }
    }
    rep.finish(&ctx);
}
