//! C13 — stub (to be implemented).

fn main() {
    eprintln!("c13: not implemented");
    std::process::exit(2);
}
