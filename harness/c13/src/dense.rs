//! Index files in which a partially read or zero-extended value can never equal the written one.
//!
//! The corpus indexes come from real (small) data files, so their counts and offsets fit into one byte: a reader
//! that decodes the first k bytes of a cut field and pads with zeros returns the ORIGINAL value by luck. The items
//! built here use every byte of every numeric field with distinct non-zero byte values wherever the format allows
//! (unplaced-unmapped count 0x0102030405060708, dense virtual offsets, metadata counts, tabix header integers, name
//! blobs longer than 255 bytes, decimal numbers ≥ 2^40 in the text indexes) and, in the `many` variants, have ≥ 258
//! references / bins / chunks / intervals / entries, so that the count fields need two bytes as well.
//!
//! All of them are built through the public constructors and serialised with the real noodles index writers. CSI and
//! tabix files are single BGZF members when they come out of the writer, so a cut never shows a partial payload to
//! the index parser; their payload is therefore written once more through noodles' BGZF writer with `flush()` after
//! every byte (small variants) or after every byte at the start, at the end and around every two-byte count field
//! (many variants): every payload prefix the parser can see then corresponds to a cut of the file.
//!
//! The items are seed independent (deterministic part of the workload) and are cut at EVERY offset.

use std::{io, io::Write, num::NonZero};

use bstr::BString;
use corpus::{Item, Kind, Side};
use indexmap::IndexMap;
use noodles_bam as bam;
use noodles_bgzf as bgzf;
use noodles_core::Position;
use noodles_cram as cram;
use noodles_csi::{
    self as csi,
    binning_index::index::{
        Header, ReferenceSequence, header,
        reference_sequence::{
            Bin, Metadata,
            bin::Chunk,
            index::{BinnedIndex, LinearIndex},
        },
    },
};
use noodles_fasta as fasta;
use noodles_fastq as fastq;
use noodles_tabix as tabix;

pub const MARK: &str = "/c13-dense-";

/// The i-th dense 64-bit value: eight distinct non-zero bytes (little-endian b, b+1, …, b+7).
fn d64(i: usize) -> u64 {
    let b = 1 + (i * 9 % 240) as u8;
    u64::from_le_bytes([b, b + 1, b + 2, b + 3, b + 4, b + 5, b + 6, b + 7])
}

fn vp(i: usize) -> bgzf::VirtualPosition {
    bgzf::VirtualPosition::from(d64(i))
}

/// Counter handing out distinct dense values.
struct Dense(usize);

impl Dense {
    fn next(&mut self) -> usize {
        self.0 += 1;
        self.0
    }
    fn chunk(&mut self) -> Chunk {
        Chunk::new(vp(self.next()), vp(self.next()))
    }
    fn chunks(&mut self, n: usize) -> Vec<Chunk> {
        (0..n).map(|_| self.chunk()).collect()
    }
    fn metadata(&mut self) -> Metadata {
        Metadata::new(vp(self.next()), vp(self.next()), d64(self.next()), d64(self.next()))
    }
}

trait RefIndex: csi::binning_index::index::reference_sequence::Index + Sized {
    /// linear / binned index for the given bins with `n` dense entries
    fn make(d: &mut Dense, bins: &IndexMap<usize, Bin>, n: usize) -> Self;
}

impl RefIndex for LinearIndex {
    fn make(d: &mut Dense, _: &IndexMap<usize, Bin>, n: usize) -> Self {
        (0..n).map(|_| vp(d.next())).collect()
    }
}

impl RefIndex for BinnedIndex {
    fn make(d: &mut Dense, bins: &IndexMap<usize, Bin>, _: usize) -> Self {
        bins.keys().map(|&k| (k, vp(d.next()))).collect()
    }
}

/// `bin_id(k)`: the k-th bin id to use (BAI / tabix: two non-zero bytes; CSI depth 9: four non-zero bytes).
fn references<I: RefIndex>(many: bool, bin_id: &dyn Fn(usize) -> usize) -> Vec<ReferenceSequence<I>> {
    let mut d = Dense(0);
    let mut refs = Vec::new();
    let one = |d: &mut Dense, n_bins: usize, chunks_in_first: usize, n_intv: usize, meta: bool| {
        let mut bins = IndexMap::new();
        for k in 0..n_bins {
            let n = if k == 0 { chunks_in_first } else { 1 + k % 2 };
            bins.insert(bin_id(k), Bin::new(d.chunks(n)));
        }
        let index = I::make(d, &bins, n_intv);
        let metadata = if meta { Some(d.metadata()) } else { None };
        ReferenceSequence::new(bins, index, metadata)
    };
    if many {
        // reference 0: 258 intervals; reference 1: 258 bins, the first of them with 258 chunks; then 256 references
        // without bins (n_ref = 258 = 0x0102)
        refs.push(one(&mut d, 1, 2, 258, true));
        refs.push(one(&mut d, 258, 258, 3, true));
        for i in 0..256 {
            refs.push(one(&mut d, 0, 0, if i % 64 == 0 { 2 } else { 0 }, false));
        }
    } else {
        refs.push(one(&mut d, 3, 2, 3, true));
        refs.push(one(&mut d, 0, 0, 0, false));
        refs.push(one(&mut d, 2, 1, 2, true));
    }
    refs
}

fn names(n: usize) -> indexmap::IndexSet<BString> {
    // many variants: one name of 300 bytes; the name blob (l_nm) of the many variants needs two bytes anyway
    (0..n)
        .map(|i| if i == 1 && n > 3 { BString::from(format!("sq1-{}", "n".repeat(296))) } else { BString::from(format!("sq{i}")) })
        .collect()
}

fn tabix_header(n_names: usize) -> Header {
    // generic (BED-like) format: the only one whose end column is free; column indexes are written 1-based
    header::Builder::bed()
        .set_reference_sequence_name_index(0x0102_0304 - 1)
        .set_start_position_index(0x0506_0708 - 1)
        .set_end_position_index(Some(0x090a_0b0c - 1))
        .set_line_comment_prefix(b'#')
        .set_line_skip_count(0x0d0e_0f10)
        .set_reference_sequence_names(names(n_names))
        .build()
}

const N_NO_COOR: u64 = 0x0102_0304_0506_0708;

fn bai(many: bool) -> io::Result<Vec<u8>> {
    let refs = references::<LinearIndex>(many, &|k| 0x1249 + 0x0101 * (k % 2) + k);
    let index: bam::bai::Index = csi::binning_index::Index::builder().set_reference_sequences(refs).set_unplaced_unmapped_record_count(N_NO_COOR).build();
    let mut out = Vec::new();
    bam::bai::io::Writer::new(&mut out).write_index(&index)?;
    Ok(out)
}

fn csi_file(many: bool) -> io::Result<Vec<u8>> {
    // depth 9: bin ids up to 153 391 689, i.e. four bytes
    let refs = references::<BinnedIndex>(many, &|k| 0x0102_0304 + 0x0101 * k);
    let n = refs.len();
    let index: csi::Index = csi::binning_index::Index::builder()
        .set_min_shift(14)
        .set_depth(9)
        .set_header(tabix_header(n))
        .set_reference_sequences(refs)
        .set_unplaced_unmapped_record_count(N_NO_COOR)
        .build();
    let mut out = Vec::new();
    let mut w = csi::io::Writer::new(&mut out);
    w.write_index(&index)?;
    w.get_mut().try_finish()?;
    let _ = w.into_inner().into_inner();
    Ok(out)
}

fn tbi(many: bool) -> io::Result<Vec<u8>> {
    let refs = references::<LinearIndex>(many, &|k| 0x1249 + 0x0101 * (k % 2) + k);
    let n = refs.len();
    let index: tabix::Index = csi::binning_index::Index::builder().set_header(tabix_header(n)).set_reference_sequences(refs).set_unplaced_unmapped_record_count(N_NO_COOR).build();
    let mut out = Vec::new();
    let mut w = tabix::io::Writer::new(&mut out);
    w.write_index(&index)?;
    w.try_finish()?;
    let _ = w.into_inner().into_inner();
    Ok(out)
}

fn gzi(n: usize) -> io::Result<Vec<u8>> {
    let index = bgzf::gzi::Index::from((0..n).map(|i| (d64(2 * i + 1), d64(2 * i + 2))).collect::<Vec<_>>());
    let mut out = Vec::new();
    bgzf::gzi::io::Writer::new(&mut out).write_index(&index)?;
    Ok(out)
}

/// Decimal numbers ≥ 2^40 with pairwise different digits at every position.
fn big(i: u64) -> u64 {
    1_234_567_890_123 + i * 1_111_111_111_111
}

fn fai() -> io::Result<Vec<u8>> {
    let nz = |v: u64| NonZero::new(v).unwrap();
    let recs: Vec<fasta::fai::Record> = (0..4u64)
        .map(|i| {
            let name = if i == 1 { format!("sq1-{}", "n".repeat(296)) } else { format!("sq{i}") };
            fasta::fai::Record::new(name, big(i), big(i + 2), nz(big(i + 4)), nz(big(i + 4) + 1))
        })
        .collect();
    let mut out = Vec::new();
    fasta::fai::io::Writer::new(&mut out).write_index(&fasta::fai::Index::from(recs))?;
    Ok(out)
}

fn fastq_fai() -> io::Result<Vec<u8>> {
    let mut out = Vec::new();
    let mut w = fastq::fai::io::Writer::new(&mut out);
    for i in 0..4u64 {
        let name = if i == 1 { format!("r1-{}", "n".repeat(296)) } else { format!("r{i}") };
        w.write_record(&fastq::fai::Record::new(name, big(i), big(i + 1), big(i + 2), big(i + 2) + 1, big(i + 3)))?;
    }
    Ok(out)
}

fn crai(n: usize) -> io::Result<Vec<u8>> {
    let recs: Vec<cram::crai::Record> = (0..n as u64)
        .map(|i| {
            cram::crai::Record::new(
                if i % 5 == 4 { None } else { Some(12_345 + i as usize) },
                Position::new(123_456_789 + i as usize),
                234_567_891 + i as usize,
                big(i),
                big(i + 1) % 1_000_000_007,
                big(i + 2) % 998_244_353,
            )
        })
        .collect();
    let mut out = Vec::new();
    let mut w = cram::crai::io::Writer::new(&mut out);
    w.write_index(&recs)?;
    w.finish()?;
    Ok(out)
}

/// Writes `payload` through noodles' BGZF writer with a `flush()` after every offset for which `cut_here` holds.
fn reblock(payload: &[u8], cut_here: &dyn Fn(usize) -> bool) -> io::Result<Vec<u8>> {
    let mut w = bgzf::io::Writer::new(Vec::new());
    let mut prev = 0usize;
    for x in 1..payload.len() {
        if cut_here(x) {
            w.write_all(&payload[prev..x])?;
            w.flush()?;
            prev = x;
        }
    }
    w.write_all(&payload[prev..])?;
    w.finish()
}

/// Offsets of the two-byte count fields (value 258 = `02 01 00 00`; every other field is dense, so the pattern does
/// not occur elsewhere) and of `03 01 00 00` (n_bin incl. the metadata pseudo-bin).
fn count_fields(p: &[u8]) -> Vec<usize> {
    (0..p.len().saturating_sub(3)).filter(|&i| (p[i] == 2 || p[i] == 3) && p[i + 1] == 1 && p[i + 2] == 0 && p[i + 3] == 0).collect()
}

fn reblocked(file: &[u8], many: bool) -> io::Result<Vec<u8>> {
    let payload = vcore::bgzf::walk(file).map_err(|e| io::Error::new(io::ErrorKind::InvalidData, e))?.concat();
    if !many {
        return reblock(&payload, &|_| true);
    }
    let hot = count_fields(&payload);
    let len = payload.len();
    reblock(&payload, &|x| x <= 700 || x + 40 >= len || hot.iter().any(|&h| x + 8 >= h && x <= h + 12) || x % 509 == 0)
}

/// (kind, name, builder)
pub fn items() -> Vec<Item> {
    let mut v = Vec::new();
    let mut push = |kind: Kind, name: &str, bytes: io::Result<Vec<u8>>| match bytes {
        Ok(bytes) => v.push(Item { kind, name: format!("{}{MARK}{name}", kind.name()), bytes, side: Side::default() }),
        // a writer that rejects the index shows up as an unmet floor (files of this name are counted)
        Err(e) => eprintln!("c13: dense index item {name} could not be built: {e}"),
    };
    push(Kind::Bai, "small", bai(false));
    push(Kind::Bai, "many", bai(true));
    push(Kind::Gzi, "small", gzi(3));
    push(Kind::Gzi, "many", gzi(258));
    push(Kind::Fai, "big-numbers", fai());
    push(Kind::FastqFai, "big-numbers", fastq_fai());
    push(Kind::Crai, "small", crai(3));
    push(Kind::Crai, "many", crai(300));
    for many in [false, true] {
        let tag = if many { "many" } else { "small" };
        let c = csi_file(many);
        let t = tbi(many);
        push(Kind::Csi, &format!("{tag}-flushed"), c.as_ref().map_err(|e| io::Error::new(e.kind(), e.to_string())).and_then(|f| reblocked(f, many)));
        push(Kind::Tbi, &format!("{tag}-flushed"), t.as_ref().map_err(|e| io::Error::new(e.kind(), e.to_string())).and_then(|f| reblocked(f, many)));
        push(Kind::Csi, &format!("{tag}-as-written"), c);
        push(Kind::Tbi, &format!("{tag}-as-written"), t);
    }
    v
}
