//! C03 — multithreaded BGZF I/O equals single-threaded I/O under every schedule.
//!
//! The rayon pool is process-global, so the driver runs this binary once per pool size
//! (`RAYON_NUM_THREADS=n`, parameter `pool=n`); every case runs in a child process.
//!
//! Case kinds
//!   W  writer: a write/flush history is run on the single-threaded `Writer` and on the
//!      `MultithreadedWriter` while hook H1 delays individual compress tasks according to a delay
//!      plan; the sink bytes must be identical; `finish()` must return the sink.
//!   R  reader: an operation history (read / read_exact / fill_buf+consume / seek) is run on the
//!      single-threaded `Reader` and on the `MultithreadedReader` with delayed inflate tasks; bytes,
//!      results and virtual positions after every operation must be identical.
//!   WF writer fault: the sink fails at call k (every k enumerated): some call up to and including
//!      `finish()` must return an error.
//!   RF reader fault: block j is corrupted / the file is truncated: the bytes delivered before the
//!      first error must be exactly the blocks preceding the bad one, and some call up to and
//!      including `finish()` must return an error.
//! The H1 event log yields what was actually observed: completion orders, inversions, tasks in
//! flight. A deadlock monitor samples /proc/self/task while a case is overdue.

use std::{
    collections::{HashMap, VecDeque},
    io::{BufRead, Cursor, Read, Write},
    sync::{
        Arc, Mutex, OnceLock,
        atomic::{AtomicI64, AtomicU64, Ordering},
    },
    time::{Duration, Instant},
};

use noodles_bgzf::{self as bgzf, verif::Site};
use serde_json::{Value, json};
use vcore::{
    CaseOut, Ctx, Report, Rng,
    adv::{Accept, FaultMode, FaultyWrite, is_injected},
    bgzf as obgzf, guard, payload,
    rng::fnv1a,
    run_cases,
};

// ------------------------------------------------------------------------------------------------
// H1 hook state: delay plan + event log
// ------------------------------------------------------------------------------------------------

#[derive(Clone, Copy, Debug)]
struct Event {
    site: Site,
    /// index of the block in submission / file order (usize::MAX = unknown block)
    block: usize,
    /// log index of the start event of the same task (tasks run start..end on one thread)
    start_seq: usize,
}

thread_local! {
    static CURRENT_START: std::cell::Cell<usize> = const { std::cell::Cell::new(usize::MAX) };
}

#[derive(Default)]
struct HookState {
    /// content hash -> block indices carrying that content, in submission order
    by_hash_start: HashMap<u64, VecDeque<usize>>,
    by_hash_end: HashMap<u64, VecDeque<usize>>,
    /// (delay before the task body, delay after it) per block index, in microseconds
    delays: Vec<(u64, u64)>,
    log: Vec<Event>,
}

fn state() -> &'static Mutex<HookState> {
    static S: OnceLock<Mutex<HookState>> = OnceLock::new();
    S.get_or_init(|| Mutex::new(HookState::default()))
}

static PENDING_DELAYS: AtomicI64 = AtomicI64::new(0);
static HOOK_HITS: AtomicU64 = AtomicU64::new(0);

fn hook(site: Site, data: &[u8]) {
    HOOK_HITS.fetch_add(1, Ordering::Relaxed);
    let h = fnv1a(data);
    let is_start = matches!(site, Site::DeflateTaskStart | Site::InflateTaskStart);
    let is_end = matches!(site, Site::DeflateTaskEnd | Site::InflateTaskEnd);
    if !is_start && !is_end {
        return;
    }
    if is_start {
        let (block, delay) = {
            let mut s = state().lock().unwrap();
            let block = rotate(s.by_hash_start.get_mut(&h));
            let delay = s.delays.get(block).map(|d| d.0).unwrap_or(0);
            let seq = s.log.len();
            CURRENT_START.with(|c| c.set(seq));
            s.log.push(Event { site, block, start_seq: seq });
            (block, delay)
        };
        let _ = block;
        if delay > 0 {
            PENDING_DELAYS.fetch_add(1, Ordering::SeqCst);
            std::thread::sleep(Duration::from_micros(delay));
            PENDING_DELAYS.fetch_sub(1, Ordering::SeqCst);
        }
    } else {
        // the end event is logged AFTER the delay so that the log order is the real hand-over order
        let (block, delay) = {
            let mut s = state().lock().unwrap();
            let block = rotate(s.by_hash_end.get_mut(&h));
            let delay = s.delays.get(block).map(|d| d.1).unwrap_or(0);
            (block, delay)
        };
        if delay > 0 {
            PENDING_DELAYS.fetch_add(1, Ordering::SeqCst);
            std::thread::sleep(Duration::from_micros(delay));
            PENDING_DELAYS.fetch_sub(1, Ordering::SeqCst);
        }
        let start_seq = CURRENT_START.with(|c| c.replace(usize::MAX));
        state().lock().unwrap().log.push(Event { site, block, start_seq });
    }
}

/// Identical blocks are interchangeable: hand their indices out round-robin (a reader may also
/// inflate the same frame again after a seek).
fn rotate(q: Option<&mut VecDeque<usize>>) -> usize {
    match q {
        Some(q) => match q.pop_front() {
            Some(b) => {
                q.push_back(b);
                b
            }
            None => usize::MAX,
        },
        None => usize::MAX,
    }
}

fn arm(blocks: &[Vec<u8>], delays: Vec<(u64, u64)>) {
    let mut s = state().lock().unwrap();
    s.by_hash_start.clear();
    s.by_hash_end.clear();
    for (i, b) in blocks.iter().enumerate() {
        let h = fnv1a(b);
        s.by_hash_start.entry(h).or_default().push_back(i);
        s.by_hash_end.entry(h).or_default().push_back(i);
    }
    s.delays = delays;
    s.log.clear();
}

fn disarm() -> Vec<Event> {
    let mut s = state().lock().unwrap();
    s.by_hash_start.clear();
    s.by_hash_end.clear();
    s.delays.clear();
    std::mem::take(&mut s.log)
}

#[derive(Default, Debug)]
struct OrderStats {
    tasks: u64,
    /// adjacent pairs completing out of submission order
    inversions: u64,
    max_displacement: u64,
    max_in_flight: u64,
    order_hash: u64,
    unknown_blocks: u64,
}

fn analyse(log: &[Event]) -> OrderStats {
    let mut st = OrderStats::default();
    let mut in_flight = 0i64;
    // tasks in completion order, identified by the log index of their start event: an inversion
    // is a task that completes before a task that was started earlier
    let mut ends = Vec::new();
    let mut blocks_in_end_order = Vec::new();
    for e in log {
        match e.site {
            Site::DeflateTaskStart | Site::InflateTaskStart => {
                in_flight += 1;
                st.max_in_flight = st.max_in_flight.max(in_flight as u64);
            }
            Site::DeflateTaskEnd | Site::InflateTaskEnd => {
                in_flight -= 1;
                if e.block == usize::MAX {
                    st.unknown_blocks += 1;
                }
                if e.start_seq != usize::MAX {
                    ends.push(e.start_seq);
                    blocks_in_end_order.push(e.block);
                }
            }
            _ => {}
        }
    }
    st.tasks = ends.len() as u64;
    for w in ends.windows(2) {
        if w[0] > w[1] {
            st.inversions += 1;
        }
    }
    let mut sorted = ends.clone();
    sorted.sort_unstable();
    for (rank, s) in ends.iter().enumerate() {
        let started_rank = sorted.binary_search(s).unwrap();
        st.max_displacement = st.max_displacement.max((rank as i64 - started_rank as i64).unsigned_abs());
    }
    let bytes: Vec<u8> = blocks_in_end_order.iter().flat_map(|b| (*b as u32).to_le_bytes()).collect();
    st.order_hash = fnv1a(&bytes);
    st
}

// ------------------------------------------------------------------------------------------------
// cases
// ------------------------------------------------------------------------------------------------

#[derive(Clone, Debug)]
struct Case {
    kind: &'static str,
    class: String,
    len: usize,
    split: String,
    flush_every: usize,
    level: u8,
    plan: &'static str,
    pseed: u64,
    /// WF: failing sink call; RF: corrupted block index
    fault_at: usize,
    /// WF: 0 sticky / 1 transient; RF: corruption kind
    fault_kind: usize,
    slow_sink: bool,
    /// R: file built by the independent builder with odd layouts instead of the noodles writer
    odd_layout: bool,
}

fn case_json(c: &Case) -> Value {
    json!({"kind": c.kind, "class": c.class, "len": c.len, "split": c.split, "flush_every": c.flush_every,
           "level": c.level, "plan": c.plan, "pseed": c.pseed, "fault_at": c.fault_at, "fault_kind": c.fault_kind,
           "slow_sink": c.slow_sink, "odd_layout": c.odd_layout})
}

const PLANS: &[&str] = &["none", "reverse", "random", "one_slow", "alternating", "end_heavy"];

fn make_delays(plan: &str, n: usize, pool: usize, rng: &mut Rng) -> Vec<(u64, u64)> {
    let w = pool.max(2);
    let unit = 400u64; // microseconds
    (0..n)
        .map(|i| match plan {
            "none" => (0, 0),
            // within each window the first block is the slowest: completion order reverses
            "reverse" => (((w - i % w) as u64) * unit, 0),
            "random" => (rng.below(6) * unit, rng.below(3) * unit),
            "one_slow" => (if i == n / 3 { 15_000 } else { 0 }, 0),
            "alternating" => (if i % 2 == 0 { 3 * unit } else { 0 }, 0),
            "end_heavy" => (0, ((w - i % w) as u64) * unit),
            _ => unreachable!(),
        })
        .collect()
}

#[derive(Clone, Default)]
struct SharedSink {
    buf: Arc<Mutex<Vec<u8>>>,
    slow: bool,
    n: Arc<AtomicU64>,
}

impl Write for SharedSink {
    fn write(&mut self, b: &[u8]) -> std::io::Result<usize> {
        if self.slow && self.n.fetch_add(1, Ordering::Relaxed) % 23 == 0 {
            // counted like a hook delay so that the deadlock monitor never mistakes it for a stall
            PENDING_DELAYS.fetch_add(1, Ordering::SeqCst);
            std::thread::sleep(Duration::from_micros(300));
            PENDING_DELAYS.fetch_sub(1, Ordering::SeqCst);
        }
        self.buf.lock().unwrap().extend_from_slice(b);
        Ok(b.len())
    }
    fn flush(&mut self) -> std::io::Result<()> {
        Ok(())
    }
}

/// Runs a write/flush history on any writer; returns the first error.
fn drive_writer<W: Write>(w: &mut W, data: &[u8], pieces: &[usize], flush_every: usize) -> std::io::Result<()> {
    let mut off = 0;
    for (i, &n) in pieces.iter().enumerate() {
        w.write_all(&data[off..off + n])?;
        off += n;
        if flush_every > 0 && (i + 1) % flush_every == 0 {
            w.flush()?;
        }
    }
    Ok(())
}

fn level(l: u8) -> bgzf::io::writer::CompressionLevel {
    bgzf::io::writer::CompressionLevel::new(l).unwrap()
}

/// Same write/flush sequence on the single-threaded writer, ended by dropping it instead of finish().
fn st_write_dropped(data: &[u8], pieces: &[usize], flush_every: usize, l: u8) -> Vec<u8> {
    let sink = SharedSink::default();
    {
        let mut w = bgzf::io::writer::Builder::default().set_compression_level(level(l)).build_from_writer(sink.clone());
        drive_writer(&mut w, data, pieces, flush_every).expect("shared Vec sink");
    }
    let v = sink.buf.lock().unwrap().clone();
    v
}

fn st_write(data: &[u8], pieces: &[usize], flush_every: usize, l: u8) -> Vec<u8> {
    let mut w = bgzf::io::writer::Builder::default().set_compression_level(level(l)).build_from_writer(Vec::new());
    drive_writer(&mut w, data, pieces, flush_every).expect("Vec sink");
    w.finish().expect("Vec sink")
}

#[derive(Clone, Debug)]
enum Op {
    Read(usize),
    ReadExact(usize),
    FillConsume(usize),
    Seek(u64),
    ReadToEnd,
}

/// Transcript element: (op, result kind, bytes hash, byte count, virtual position after the op)
type Obs = (String, String, u64, usize, u64);

trait RdOps: Read + BufRead {
    fn vpos(&self) -> u64;
    fn seek_v(&mut self, v: u64) -> std::io::Result<u64>;
}

impl RdOps for bgzf::io::Reader<Cursor<Vec<u8>>> {
    fn vpos(&self) -> u64 {
        u64::from(self.virtual_position())
    }
    fn seek_v(&mut self, v: u64) -> std::io::Result<u64> {
        self.seek(bgzf::VirtualPosition::from(v)).map(u64::from)
    }
}

impl RdOps for bgzf::io::MultithreadedReader<Cursor<Vec<u8>>> {
    fn vpos(&self) -> u64 {
        u64::from(self.virtual_position())
    }
    fn seek_v(&mut self, v: u64) -> std::io::Result<u64> {
        use bgzf::io::Seek;
        self.seek_to_virtual_position(bgzf::VirtualPosition::from(v)).map(u64::from)
    }
}

/// Runs the operation history; stops after the first error (nothing is required of calls made
/// after an error was reported).
fn drive_reader<R: RdOps>(r: &mut R, ops: &[Op]) -> Vec<Obs> {
    let mut out = Vec::new();
    let mut buf = Vec::new();
    for op in ops {
        let (name, res): (String, std::io::Result<Vec<u8>>) = match op {
            Op::Read(n) => {
                buf.clear();
                buf.resize(*n, 0);
                (format!("read({n})"), r.read(&mut buf).map(|k| buf[..k].to_vec()))
            }
            Op::ReadExact(n) => {
                buf.clear();
                buf.resize(*n, 0);
                (format!("read_exact({n})"), r.read_exact(&mut buf).map(|_| buf.clone()))
            }
            Op::FillConsume(n) => {
                let res = r.fill_buf().map(|b| b[..b.len().min(*n)].to_vec());
                if let Ok(b) = &res {
                    r.consume(b.len());
                }
                (format!("fill_buf+consume({n})"), res)
            }
            Op::Seek(v) => (format!("seek({v:#x})"), r.seek_v(*v).map(|v| v.to_le_bytes().to_vec())),
            Op::ReadToEnd => {
                let mut v = Vec::new();
                ("read_to_end".to_string(), r.read_to_end(&mut v).map(|_| v))
            }
        };
        let failed = res.is_err();
        match res {
            Ok(b) => out.push((name, "ok".to_string(), fnv1a(&b), b.len(), r.vpos())),
            // read_exact/read_to_end may have consumed data before failing; the position after an
            // error is not compared
            Err(e) => out.push((name, format!("err:{:?}", e.kind()), 0, 0, 0)),
        }
        if failed {
            break;
        }
    }
    out
}

fn gen_ops(rng: &mut Rng, walk: &obgzf::Walk, n_ops: usize) -> Vec<Op> {
    // seek targets: canonical positions inside non-empty blocks, plus the end-of-data position of
    // files that end with an EOF marker (offset of the marker, 0)
    let mut targets = Vec::new();
    for m in &walk.members {
        if !m.data.is_empty() {
            targets.push((m.offset, m.data.len()));
        }
    }
    let mut ops = Vec::new();
    for _ in 0..n_ops {
        let op = match rng.below(12) {
            0..=3 => Op::Read(*rng.pick(&[0usize, 1, 2, 7, 100, 4000, 65535, 65536, 70000, 131072])),
            4..=5 => Op::ReadExact(*rng.pick(&[0usize, 1, 3, 50, 3000, 65536, 100000])),
            6..=7 => Op::FillConsume(*rng.pick(&[0usize, 1, 10, 5000, 70000])),
            8..=10 if !targets.is_empty() => {
                let (off, len) = *rng.pick(&targets);
                let u = match rng.below(4) {
                    0 => 0,
                    1 => len - 1,
                    _ => rng.usize_below(len),
                };
                Op::Seek(obgzf::vpos(off, u as u16))
            }
            8..=10 => Op::Read(10),
            _ => Op::ReadToEnd,
        };
        ops.push(op);
    }
    ops.push(Op::ReadToEnd);
    if walk.ends_with_eof_marker() && rng.bool() {
        // seek to the end-of-data position, then read: must be EOF on both readers
        let eof = walk.members.last().unwrap().offset;
        ops.push(Op::Seek(obgzf::vpos(eof, 0)));
        ops.push(Op::Read(100));
    }
    if !targets.is_empty() {
        let (off, len) = *rng.pick(&targets);
        ops.push(Op::Seek(obgzf::vpos(off, rng.usize_below(len) as u16)));
        ops.push(Op::ReadToEnd);
    }
    ops
}

fn pool_size(ctx: &Ctx) -> usize {
    ctx.param("pool").and_then(|s| s.parse().ok()).unwrap_or(2)
}

fn gen_cases(ctx: &Ctx) -> Vec<Case> {
    let pool = pool_size(ctx);
    let mut rng = Rng::new(ctx.seed, 0xC03, pool as u64);
    let mut cases = Vec::new();
    if ctx.param("tiny").is_some() {
        // Miri-sized: a few blocks of a few dozen bytes, every kind once or twice
        let n = ctx.budget("tiny", 2, 2) as usize;
        for h in 0..n {
            for (kind, plan) in [("W", "random"), ("R", "reverse"), ("WF", "none"), ("RF", "random")] {
                cases.push(Case {
                    kind, class: "text".into(), len: 90 + 40 * h, split: "small".into(), flush_every: 1, level: 1, plan,
                    pseed: ctx.seed + h as u64, fault_at: 3 + 2 * h, fault_kind: h % 2, slow_sink: false, odd_layout: false,
                });
            }
        }
        return cases;
    }
    let n_hist = ctx.budget("histories", 36, 300) as usize;
    let plans: Vec<&'static str> = if ctx.quick() { vec!["reverse", "random", "one_slow", "end_heavy"] } else { PLANS.to_vec() };
    for h in 0..n_hist {
        let class = rng.pick(&["text", "dna", "random", "runs", "skewed", "qualities", "random_with_repeats"]).to_string();
        // 3..40 blocks
        let len = match h % 4 {
            0 => rng.urange(3, 12) * 65495 + rng.urange(0, 3000),
            1 => rng.urange(100_000, 900_000),
            2 => rng.urange(200, 60_000),
            _ => rng.urange(300_000, 2_500_000),
        };
        let split = rng.pick(&["all", "mixed", "blocks", "halves"]).to_string();
        let flush_every = if len < 100_000 { *rng.pick(&[1usize, 2, 3]) } else { *rng.pick(&[0usize, 0, 3, 7]) };
        let split = if len < 100_000 { "small".to_string() } else { split };
        let len = if split == "small" { len.min(3000) } else { len };
        let pseed = ctx.seed.wrapping_mul(1_000_003).wrapping_add((pool * 10_000 + h) as u64);
        for &plan in &plans {
            for kind in ["W", "R"] {
                cases.push(Case {
                    kind,
                    class: class.clone(),
                    len,
                    split: split.clone(),
                    flush_every,
                    level: rng.below(10) as u8,
                    plan,
                    pseed,
                    fault_at: 0,
                    fault_kind: 0,
                    slow_sink: rng.chance(1, 4),
                    odd_layout: kind == "R" && h % 3 == 2,
                });
            }
        }
    }
    // fault enumeration on short histories: every sink call index / every block index
    let n_fault_hist = ctx.budget("fault_histories", 3, 20) as usize;
    for h in 0..n_fault_hist {
        let len = [3 * 65495 + 17, 150_000, 70_000, 5 * 65495][h % 4];
        let pseed = ctx.seed.wrapping_mul(77).wrapping_add((pool * 1000 + h) as u64);
        // the number of sink calls / blocks is only known after a healthy run: enumerate up to a
        // bound, cases beyond the real count report themselves as `out_of_range` (trivial)
        for k in 0..(if ctx.quick() { 70 } else { 140 }) {
            cases.push(Case {
                kind: "WF", class: "text".into(), len, split: "mixed".into(), flush_every: 0, level: 1,
                plan: ["none", "random", "reverse"][k % 3], pseed, fault_at: k, fault_kind: k % 2, slow_sink: false, odd_layout: false,
            });
        }
        for j in 0..8 {
            for fk in 0..4 {
                cases.push(Case {
                    kind: "RF", class: "text".into(), len, split: "all".into(), flush_every: 0, level: 1,
                    plan: ["none", "random", "reverse"][(j + fk) % 3], pseed, fault_at: j, fault_kind: fk, slow_sink: false, odd_layout: false,
                });
            }
        }
    }
    cases
}

fn fold_stats(o: &mut CaseOut, pool: usize, what: &str, st: &OrderStats) {
    o.count(&format!("{what}_tasks[pool={pool}]"), st.tasks);
    o.count(&format!("{what}_inversions[pool={pool}]"), st.inversions);
    o.max(&format!("max_{what}_in_flight[pool={pool}]"), st.max_in_flight);
    o.max(&format!("max_{what}_displacement[pool={pool}]"), st.max_displacement);
    o.count("hook_events_for_unknown_blocks", st.unknown_blocks);
    if st.inversions > 0 {
        o.fps.push(fnv1a(format!("{what}|{pool}|{}", st.order_hash).as_bytes()));
        o.count(&format!("{what}_cases_with_inversions[pool={pool}]"), 1);
    }
}

fn run_case_inner(ctx: &Ctx, c: &Case) -> CaseOut {
    let pool = pool_size(ctx);
    let mut o = CaseOut::new();
    let mut rng = Rng::new(c.pseed, 3, 0);
    let data = payload::make(&c.class, c.len, &mut rng);
    let pieces = payload::split_pattern(&c.split, c.len, &mut rng);
    o.count(&format!("cases[{}]", c.kind), 1);

    match c.kind {
        "W" => {
            // a third of the sequences end by dropping the writer (both sides) instead of finish()
            let drop_end = c.pseed % 3 == 0;
            let st_bytes = if drop_end { st_write_dropped(&data, &pieces, c.flush_every, c.level) } else { st_write(&data, &pieces, c.flush_every, c.level) };
            o.count(if drop_end { "writer_sequences_ended_by_drop" } else { "writer_sequences_ended_by_finish" }, 1);
            let walk = obgzf::walk(&st_bytes).expect("C01 territory: ST output must be walkable");
            let blocks: Vec<Vec<u8>> = walk.members.iter().filter(|m| !m.is_eof_marker).map(|m| m.data.clone()).collect();
            let delays = make_delays(c.plan, blocks.len(), pool, &mut rng);
            arm(&blocks, delays);
            let sink = SharedSink { slow: c.slow_sink, ..Default::default() };
            let res = guard::catch(|| -> Result<(), String> {
                let mut w = bgzf::io::multithreaded_writer::Builder::default()
                    .set_compression_level(level(c.level))
                    .build_from_writer(sink.clone());
                drive_writer(&mut w, &data, &pieces, c.flush_every).map_err(|e| format!("write/flush returned {e} on a healthy sink"))?;
                if drop_end {
                    drop(w);
                } else {
                    let _sink_back: SharedSink = w.finish().map_err(|e| format!("finish() returned {e} on a healthy sink"))?;
                }
                Ok(())
            });
            let log = disarm();
            let st = analyse(&log);
            fold_stats(&mut o, pool, "deflate", &st);
            o.count("blocks_submitted", blocks.len() as u64);
            match res {
                Err(p) => o.violation(format!("mt-writer-panic:{}", p.sig), format!("multithreaded writer panicked: {}", p.message)),
                Ok(Err(e)) => o.violation("mt-writer-error-on-healthy-sink", e),
                Ok(Ok(())) => {
                    let mt_bytes = sink.buf.lock().unwrap().clone();
                    if mt_bytes != st_bytes {
                        // diagnose: same members in another order / missing / duplicated / other
                        let class = match obgzf::walk(&mt_bytes) {
                            Err(_) => "malformed".to_string(),
                            Ok(w2) => {
                                let a: Vec<u64> = walk.members.iter().map(|m| fnv1a(&m.data)).collect();
                                let b: Vec<u64> = w2.members.iter().map(|m| fnv1a(&m.data)).collect();
                                let (mut sa, mut sb) = (a.clone(), b.clone());
                                sa.sort_unstable();
                                sb.sort_unstable();
                                if sa == sb && a != b {
                                    "blocks-reordered".into()
                                } else if b.len() < a.len() {
                                    "blocks-missing".into()
                                } else if b.len() > a.len() {
                                    "blocks-extra".into()
                                } else if w2.concat() == walk.concat() {
                                    "same-payload-different-bytes".into()
                                } else {
                                    "content-differs".into()
                                }
                            }
                        };
                        o.violation(
                            format!("mt-writer-output-ne-st-output:{class}"),
                            format!("multithreaded writer emitted {} bytes, single-threaded writer {} bytes for the same history ended by {} ({} blocks, completion inversions observed: {})",
                                    mt_bytes.len(), st_bytes.len(), if drop_end { "dropping the writer" } else { "finish()" }, blocks.len(), st.inversions),
                        );
                    }
                    if st.tasks != blocks.len() as u64 && st.unknown_blocks == 0 {
                        o.violation("mt-writer-task-count", format!("{} compress tasks completed for {} submitted blocks", st.tasks, blocks.len()));
                    }
                }
            }
            o.fp = fnv1a(format!("W|{pool}|{}|{}|{}|{}", c.plan, blocks.len().min(50), c.flush_every, c.slow_sink).as_bytes());
        }
        "R" => {
            let file = if c.odd_layout {
                // layouts the noodles writer never emits: empty members mid-file, 1-byte and full
                // 64 KiB members, stored members; always with a final EOF marker
                let mut blocks = Vec::new();
                let mut off = 0;
                // incompressible data does not fit into a member at 64 KiB
                let big = if matches!(c.class.as_str(), "text" | "dna" | "runs") { 65536 } else { 65000 };
                while off < data.len() {
                    let n = match rng.below(6) {
                        0 => 0,
                        1 => 1,
                        2 => big,
                        3 => big - 1,
                        _ => rng.urange(1, 40_000),
                    }
                    .min(data.len() - off);
                    blocks.push(data[off..off + n].to_vec());
                    off += n;
                    if blocks.len() > 60 {
                        blocks.push(data[off..(off + 60_000).min(data.len())].to_vec());
                        break;
                    }
                }
                let enc = if rng.bool() { obgzf::Enc::Stored } else { obgzf::Enc::Deflate(3) };
                obgzf::build_file(&blocks, enc, 1 + rng.usize_below(2))
            } else {
                st_write(&data, &pieces, c.flush_every, c.level)
            };
            let walk = obgzf::walk(&file).expect("walkable");
            let frames: Vec<Vec<u8>> = walk.members.iter().map(|m| file[m.offset as usize..(m.offset + m.size) as usize].to_vec()).collect();
            let ops = gen_ops(&mut rng, &walk, if ctx.quick() { 25 } else { 60 });
            let mut st_reader = bgzf::io::Reader::new(Cursor::new(file.clone()));
            let expected = match guard::catch(|| drive_reader(&mut st_reader, &ops)) {
                Ok(t) => t,
                Err(p) => {
                    o.inconclusive.push(format!("single-threaded reader panicked (C02/C15 territory): {}", p.sig));
                    return o;
                }
            };
            let delays = make_delays(c.plan, frames.len(), pool, &mut rng);
            arm(&frames, delays);
            let res = guard::catch(|| {
                let mut r = bgzf::io::MultithreadedReader::new(Cursor::new(file.clone()));
                let t = drive_reader(&mut r, &ops);
                let fin = r.finish().map(|_| ()).map_err(|e| e.kind());
                (t, fin)
            });
            let log = disarm();
            let st = analyse(&log);
            fold_stats(&mut o, pool, "inflate", &st);
            o.count("reader_ops", ops.len() as u64);
            o.count("reader_seeks", ops.iter().filter(|x| matches!(x, Op::Seek(_))).count() as u64);
            match res {
                Err(p) => o.violation(format!("mt-reader-panic:{}", p.sig), format!("multithreaded reader panicked: {}", p.message)),
                Ok((got, fin)) => {
                    if let Some(i) = (0..expected.len().max(got.len())).find(|&i| expected.get(i) != got.get(i)) {
                        let class = match (expected.get(i), got.get(i)) {
                            (Some(e), Some(g)) if e.1 != g.1 => "result-kind",
                            (Some(e), Some(g)) if e.3 != g.3 => "byte-count",
                            (Some(e), Some(g)) if e.2 != g.2 => "bytes",
                            (Some(e), Some(g)) if e.4 != g.4 => "virtual-position",
                            _ => "transcript-length",
                        };
                        let after_seek = ops[..=i.min(ops.len() - 1)].iter().any(|x| matches!(x, Op::Seek(_)));
                        o.violation(
                            format!("mt-reader-ne-st-reader:{class}:{}", if after_seek { "after-seek" } else { "sequential" }),
                            format!("operation #{i} {:?}: single-threaded reader observed {:?}, multithreaded reader {:?} (inflate inversions observed: {})",
                                    ops.get(i), expected.get(i), got.get(i), st.inversions),
                        );
                    }
                    if let Err(k) = fin {
                        o.violation("mt-reader-finish-error-on-valid-file", format!("finish() returned {k:?} on a valid file"));
                    }
                }
            }
            o.fp = fnv1a(format!("R|{pool}|{}|{}|{}|{}", c.plan, frames.len().min(50), c.odd_layout, ops.len()).as_bytes());
        }
        "WF" => {
            // healthy run first: number of sink calls
            let healthy = FaultyWrite::healthy();
            {
                let mut w = bgzf::io::multithreaded_writer::Builder::default().set_compression_level(level(c.level)).build_from_writer(healthy.clone());
                drive_writer(&mut w, &data, &pieces, c.flush_every).expect("healthy");
                w.finish().expect("healthy");
            }
            let n_calls = healthy.log.lock().unwrap().calls;
            if c.fault_at >= n_calls {
                o.count("fault_positions_out_of_range", 1);
                return o;
            }
            let st_bytes = healthy.bytes();
            let walk = obgzf::walk(&st_bytes).expect("walkable");
            let blocks: Vec<Vec<u8>> = walk.members.iter().filter(|m| !m.is_eof_marker).map(|m| m.data.clone()).collect();
            arm(&blocks, make_delays(c.plan, blocks.len(), pool, &mut rng));
            let mode = if c.fault_kind == 0 { FaultMode::Sticky(c.fault_at) } else { FaultMode::Transient(c.fault_at) };
            let kind = vcore::adv::ERROR_KINDS[c.fault_at % vcore::adv::ERROR_KINDS.len()];
            let sink = FaultyWrite::new(mode, kind, Accept::All);
            let res = guard::catch(|| -> Result<(), std::io::Error> {
                let mut w = bgzf::io::multithreaded_writer::Builder::default().set_compression_level(level(c.level)).build_from_writer(sink.clone());
                // after the first Err no further call is made; the writer is dropped
                drive_writer(&mut w, &data, &pieces, c.flush_every)?;
                w.finish().map(|_| ())
            });
            let _ = disarm();
            o.count("sink_fault_positions_enumerated", 1);
            o.max("max_sink_calls_of_a_history", n_calls as u64);
            let errors_returned = sink.log.lock().unwrap().errors_returned;
            match res {
                Err(p) => o.violation(format!("mt-writer-panic-on-sink-failure:{}", p.sig), format!("sink call {} failed ({kind:?}); the writer panicked: {}", c.fault_at, p.message)),
                Ok(Ok(())) => {
                    if errors_returned > 0 {
                        o.violation(
                            "mt-writer-swallowed-sink-error",
                            format!("sink call {} of {n_calls} failed with {kind:?} ({} error(s) returned to noodles) but write/flush/finish all returned Ok", c.fault_at, errors_returned),
                        );
                    } else {
                        o.inconclusive.push("fault position was never reached although the healthy run reached it".into());
                    }
                }
                Ok(Err(e)) => {
                    o.count("sink_faults_surfaced", 1);
                    if !is_injected(&e) && errors_returned > 0 {
                        o.count("sink_faults_surfaced_as_other_error", 1);
                    }
                }
            }
            o.fp = fnv1a(format!("WF|{pool}|{}|{}", c.fault_at.min(200), c.fault_kind).as_bytes());
        }
        "RF" => {
            let file = st_write(&data, &pieces, c.flush_every, c.level);
            let walk = obgzf::walk(&file).expect("walkable");
            let data_members: Vec<&obgzf::Member> = walk.members.iter().filter(|m| !m.is_eof_marker).collect();
            if c.fault_at >= data_members.len() {
                o.count("fault_positions_out_of_range", 1);
                return o;
            }
            let m = data_members[c.fault_at];
            let (off, size) = (m.offset as usize, m.size as usize);
            let mut bad = file.clone();
            let what = match c.fault_kind {
                0 => {
                    bad[off + 18 + (size - 26) / 2] ^= 0x55; // CDATA byte
                    "cdata-byte-flipped"
                }
                1 => {
                    bad[off + size - 8] ^= 0x01; // CRC32
                    "crc-flipped"
                }
                2 => {
                    bad[off + size - 4] ^= 0x01; // ISIZE
                    "isize-flipped"
                }
                _ => {
                    // the file ends inside the body of the block (a cut inside the 18-byte header is
                    // a clean end of file for the frame reader, which C13 allows)
                    bad.truncate(off + 18 + (size - 18) / 2);
                    "truncated-inside-block"
                }
            };
            let prefix_len: usize = data_members[..c.fault_at].iter().map(|m| m.data.len()).sum();
            let frames: Vec<Vec<u8>> = walk.members.iter().map(|m| file[m.offset as usize..(m.offset + m.size) as usize].to_vec()).collect();
            arm(&frames, make_delays(c.plan, frames.len(), pool, &mut rng));
            let res = guard::catch(|| {
                let mut r = bgzf::io::MultithreadedReader::new(Cursor::new(bad.clone()));
                let mut got = Vec::new();
                let mut buf = vec![0u8; 10_000];
                let mut err = None;
                loop {
                    match r.read(&mut buf) {
                        Ok(0) => break,
                        Ok(n) => got.extend_from_slice(&buf[..n]),
                        Err(e) => {
                            err = Some(e.kind());
                            break;
                        }
                    }
                }
                let fin = r.finish().map(|_| ()).map_err(|e| e.kind());
                (got, err, fin)
            });
            let _ = disarm();
            o.count("corrupt_block_positions_enumerated", 1);
            match res {
                Err(p) => o.violation(format!("mt-reader-panic-on-corrupt-block:{}", p.sig), format!("{what} in block {}: the reader panicked: {}", c.fault_at, p.message)),
                Ok((got, err, fin)) => {
                    let expected = &walk.concat()[..prefix_len];
                    if got.len() < prefix_len || &got[..prefix_len] != expected {
                        o.violation(format!("mt-reader-lost-data-before-corrupt-block:{what}"), format!("{what} in block {}: {} bytes delivered before the error, the {} preceding bytes were expected", c.fault_at, got.len(), prefix_len));
                    } else if got.len() > prefix_len {
                        o.violation(format!("mt-reader-delivered-data-from-or-after-corrupt-block:{what}"), format!("{what} in block {}: {} bytes delivered, only the {} bytes of the preceding blocks are intact", c.fault_at, got.len(), prefix_len));
                    }
                    if err.is_none() && fin.is_ok() {
                        o.violation(format!("mt-reader-swallowed-corrupt-block:{what}"), format!("{what} in block {}: every read and finish() returned Ok", c.fault_at));
                    } else {
                        o.count(if err.is_some() { "corruption_surfaced_in_read" } else { "corruption_surfaced_in_finish" }, 1);
                    }
                }
            }
            o.fp = fnv1a(format!("RF|{pool}|{}|{}", c.fault_at, c.fault_kind).as_bytes());
        }
        _ => unreachable!(),
    }
    o
}

// ------------------------------------------------------------------------------------------------
// deadlock monitor: the case runs on its own thread; while it is overdue, /proc/self/task is
// sampled. All threads asleep with unchanged CPU time over several samples and no hook delay
// pending => deadlock => violation (the child exits afterwards, its threads are stuck).
// ------------------------------------------------------------------------------------------------

fn thread_states() -> Vec<(String, char, u64)> {
    let mut v = Vec::new();
    if let Ok(rd) = std::fs::read_dir("/proc/self/task") {
        for e in rd.flatten() {
            if let Ok(s) = std::fs::read_to_string(e.path().join("stat")) {
                // pid (comm) state ... utime(14) stime(15)
                if let Some(rp) = s.rfind(')') {
                    let f: Vec<&str> = s[rp + 2..].split(' ').collect();
                    let state = f.first().and_then(|x| x.chars().next()).unwrap_or('?');
                    let cpu = f.get(11).and_then(|x| x.parse::<u64>().ok()).unwrap_or(0) + f.get(12).and_then(|x| x.parse::<u64>().ok()).unwrap_or(0);
                    v.push((e.file_name().to_string_lossy().to_string(), state, cpu));
                }
            }
        }
    }
    v.sort();
    v
}

fn run_case(ctx: &Ctx, c: &Case) -> CaseOut {
    if cfg!(miri) || ctx.param("inproc").is_some() {
        // the interpreter / sanitizer run has its own deadlock detection; no /proc sampling
        return run_case_inner(ctx, c);
    }
    let (tx, rx) = std::sync::mpsc::channel();
    let ctx2 = ctx.clone();
    let c2 = c.clone();
    let me = std::thread::Builder::new().name("case".into()).spawn(move || {
        let o = run_case_inner(&ctx2, &c2);
        let _ = tx.send(o);
    });
    let _ = me;
    let t0 = Instant::now();
    let mut quiet = 0;
    let mut last: Vec<(String, char, u64)> = Vec::new();
    loop {
        match rx.recv_timeout(Duration::from_millis(500)) {
            Ok(o) => return o,
            Err(std::sync::mpsc::RecvTimeoutError::Disconnected) => {
                // the case thread died without sending: a panic outside guard::catch
                let mut o = CaseOut::new();
                o.inconclusive.push("case thread ended without a result".into());
                return o;
            }
            Err(std::sync::mpsc::RecvTimeoutError::Timeout) => {}
        }
        if t0.elapsed() < Duration::from_secs(8) {
            continue;
        }
        let now = thread_states();
        let all_asleep = now.iter().all(|t| t.1 == 'S');
        let me_running = now.iter().filter(|t| t.1 == 'R').count();
        let unchanged = now.len() == last.len() && now.iter().zip(&last).all(|(a, b)| a.0 == b.0 && a.2 == b.2);
        // the sampling thread itself is 'R' while reading /proc: tolerate exactly one runnable thread
        if (all_asleep || me_running <= 1) && unchanged && PENDING_DELAYS.load(Ordering::SeqCst) == 0 {
            quiet += 1;
        } else {
            quiet = 0;
        }
        last = now;
        if quiet >= 6 {
            let mut o = CaseOut::new();
            o.violation(
                format!("deadlock:{}", c.kind),
                format!("no thread made progress for {}s (all threads asleep, CPU time unchanged over 6 samples, no hook delay pending); threads: {:?}", t0.elapsed().as_secs(), last.iter().map(|t| format!("{}:{}", t.0, t.1)).collect::<Vec<_>>()),
            );
            vcore::child::EXIT_AFTER_CASE.store(true, Ordering::SeqCst);
            return o;
        }
        if t0.elapsed() > Duration::from_secs(300) {
            let mut o = CaseOut::new();
            o.inconclusive.push("case overdue for 300 s without meeting the deadlock criterion".into());
            vcore::child::EXIT_AFTER_CASE.store(true, Ordering::SeqCst);
            return o;
        }
    }
}

fn main() {
    let ctx = Ctx::from_args();
    let ctx = vcore::cases::replay_request(&ctx).map(|r| r.1).unwrap_or(ctx);
    let pool = pool_size(&ctx);
    // the pool is process-global: fix its size first thing (children get the same arguments)
    rayon::ThreadPoolBuilder::new().num_threads(pool).build_global().expect("global rayon pool");
    assert_eq!(rayon::current_num_threads(), pool);
    bgzf::verif::set_hook(hook);
    let mut rep = Report::new(
        "one run per rayon pool size; case = (kind W writer / R reader / WF sink failing at call k / RF block j corrupt, \
         payload class, length, write split, flush policy, level, H1 delay plan, slow sink, layout); oracle = the \
         single-threaded writer/reader on the same history; schedules come from delaying individual block tasks through \
         hook H1, the realised completion orders are read from the event log; distinct = distinct (kind, pool, plan, \
         block-count, shape) tuples plus every distinct completion order with at least one inversion; non-trivial = the \
         history produced at least 3 blocks or a fault position inside the history",
    );
    rep.assumptions.push("completion order is observed at the hook sites (task start/end), i.e. where the real code can be pre-empted; interleavings inside channel operations are only explored by the Miri stage".into());
    rep.assumptions.push("sampled permutations, not every permutation of the window".into());
    let cases = gen_cases(&ctx);
    let f = |i: u64| -> CaseOut { run_case(&ctx, &cases[i as usize]) };
    // many cases sleep most of the time: oversubscribe the cores
    let mut ctx_run = ctx.clone();
    ctx_run.jobs = (ctx.jobs * 2).min(48);
    run_cases(&ctx_run, &mut rep, cases.len() as u64, 240.0, &f, &|i| case_json(&cases[i as usize]));
    if ctx.replay.is_none() && ctx.param("tiny").is_none() {
        let counters = rep.counters.clone();
        let get = |k: &str| counters.get(k).copied().unwrap_or(0);
        let d_inv = get(&format!("deflate_inversions[pool={pool}]"));
        let i_inv = get(&format!("inflate_inversions[pool={pool}]"));
        rep.extra.insert("pool".into(), json!(pool));
        if pool >= 2 {
            // a run that never saw blocks finish out of order has not exercised the property
            rep.floor(&format!("deflate completion inversions at pool size {pool}"), d_inv, 1);
            rep.floor(&format!("inflate completion inversions at pool size {pool}"), i_inv, 1);
        } else if d_inv + i_inv > 0 {
            rep.inconclusive.push(format!("pool size 1 showed {d_inv}+{i_inv} completion inversions: event attribution is unreliable in this run"));
        }
        rep.floor("hook events", get(&format!("deflate_tasks[pool={pool}]")) + get(&format!("inflate_tasks[pool={pool}]")), 100);
        rep.floor("sink fault positions", get("sink_fault_positions_enumerated"), 20);
        rep.floor("corrupt block positions", get("corrupt_block_positions_enumerated"), 8);
    }
    rep.finish(&ctx);
}
