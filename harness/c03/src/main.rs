//! C03 — stub (to be implemented).

fn main() {
    eprintln!("c03: not implemented");
    std::process::exit(2);
}
