//! Async twins of the I/O adversaries for tokio's `AsyncRead` / `AsyncSeek` / `AsyncWrite`:
//! scripted partial transfers and `Poll::Pending` (self-waking) before any poll.

use std::{
    io::{self, SeekFrom},
    pin::Pin,
    sync::{Arc, Mutex},
    task::{Context, Poll},
};

use tokio::io::{AsyncRead, AsyncSeek, AsyncWrite, ReadBuf};

use crate::Rng;

#[derive(Clone, Debug)]
pub struct PollScript {
    /// max bytes per transfer (0 = unlimited)
    pub max_chunk: usize,
    /// random chunk sizes in 1..=max_chunk instead of exactly max_chunk
    pub random: bool,
    /// `Pending` is returned before a poll with probability `pending_num/pending_den`
    pub pending_num: u64,
    pub pending_den: u64,
    pub seed: u64,
}

impl PollScript {
    pub fn ready() -> Self {
        PollScript { max_chunk: 0, random: false, pending_num: 0, pending_den: 1, seed: 0 }
    }

    pub fn describe(&self) -> String {
        format!(
            "chunk<={}{} pending={}/{} seed={}",
            self.max_chunk,
            if self.random { " random" } else { "" },
            self.pending_num,
            self.pending_den,
            self.seed
        )
    }
}

#[derive(Debug, Default, Clone)]
pub struct PollStats {
    pub polls: u64,
    pub pendings: u64,
    pub partial: u64,
}

#[derive(Debug)]
pub struct PollRead {
    data: Arc<Vec<u8>>,
    pos: u64,
    script: PollScript,
    rng: Rng,
    pending_seek: Option<u64>,
    pub stats: Arc<Mutex<PollStats>>,
    just_pended: bool,
}

impl PollRead {
    pub fn new(data: Arc<Vec<u8>>, script: PollScript) -> Self {
        let rng = Rng::new(script.seed, 0xA5, 1);
        PollRead {
            data,
            pos: 0,
            script,
            rng,
            pending_seek: None,
            stats: Arc::new(Mutex::new(PollStats::default())),
            just_pended: false,
        }
    }

    fn pend(&mut self, cx: &mut Context<'_>) -> bool {
        self.stats.lock().unwrap().polls += 1;
        // never two Pendings in a row for the same operation: progress is guaranteed
        if !self.just_pended
            && self.script.pending_num > 0
            && self.rng.chance(self.script.pending_num, self.script.pending_den)
        {
            self.just_pended = true;
            self.stats.lock().unwrap().pendings += 1;
            cx.waker().wake_by_ref();
            return true;
        }
        self.just_pended = false;
        false
    }
}

impl AsyncRead for PollRead {
    fn poll_read(
        mut self: Pin<&mut Self>,
        cx: &mut Context<'_>,
        buf: &mut ReadBuf<'_>,
    ) -> Poll<io::Result<()>> {
        if self.pend(cx) {
            return Poll::Pending;
        }
        let len = self.data.len() as u64;
        let pos = self.pos.min(len) as usize;
        let left = self.data.len() - pos;
        let want = buf.remaining().min(left);
        let mut n = want;
        if self.script.max_chunk > 0 {
            let k = if self.script.random {
                let m = self.script.max_chunk;
                self.rng.urange(1, m)
            } else {
                self.script.max_chunk
            };
            n = n.min(k);
        }
        if n < want {
            self.stats.lock().unwrap().partial += 1;
        }
        let data = self.data.clone();
        buf.put_slice(&data[pos..pos + n]);
        self.pos = (pos + n) as u64;
        Poll::Ready(Ok(()))
    }
}

impl AsyncSeek for PollRead {
    fn start_seek(mut self: Pin<&mut Self>, position: SeekFrom) -> io::Result<()> {
        let len = self.data.len() as i128;
        let p = match position {
            SeekFrom::Start(p) => p as i128,
            SeekFrom::End(d) => len + d as i128,
            SeekFrom::Current(d) => self.pos as i128 + d as i128,
        };
        if p < 0 {
            return Err(io::Error::new(io::ErrorKind::InvalidInput, "seek before start"));
        }
        self.pending_seek = Some(p as u64);
        Ok(())
    }

    fn poll_complete(mut self: Pin<&mut Self>, cx: &mut Context<'_>) -> Poll<io::Result<u64>> {
        if self.pending_seek.is_some() && self.pend(cx) {
            return Poll::Pending;
        }
        if let Some(p) = self.pending_seek.take() {
            self.pos = p;
        }
        Poll::Ready(Ok(self.pos))
    }
}

#[derive(Debug)]
pub struct PollWrite {
    pub out: Arc<Mutex<Vec<u8>>>,
    script: PollScript,
    rng: Rng,
    pub stats: Arc<Mutex<PollStats>>,
    just_pended: bool,
    pub shutdown_called: Arc<Mutex<bool>>,
}

impl PollWrite {
    pub fn new(script: PollScript) -> Self {
        let rng = Rng::new(script.seed, 0xA5, 2);
        PollWrite {
            out: Arc::new(Mutex::new(Vec::new())),
            script,
            rng,
            stats: Arc::new(Mutex::new(PollStats::default())),
            just_pended: false,
            shutdown_called: Arc::new(Mutex::new(false)),
        }
    }

    fn pend(&mut self, cx: &mut Context<'_>) -> bool {
        self.stats.lock().unwrap().polls += 1;
        if !self.just_pended
            && self.script.pending_num > 0
            && self.rng.chance(self.script.pending_num, self.script.pending_den)
        {
            self.just_pended = true;
            self.stats.lock().unwrap().pendings += 1;
            cx.waker().wake_by_ref();
            return true;
        }
        self.just_pended = false;
        false
    }
}

impl AsyncWrite for PollWrite {
    fn poll_write(
        mut self: Pin<&mut Self>,
        cx: &mut Context<'_>,
        buf: &[u8],
    ) -> Poll<io::Result<usize>> {
        if self.pend(cx) {
            return Poll::Pending;
        }
        if buf.is_empty() {
            return Poll::Ready(Ok(0));
        }
        let mut n = buf.len();
        if self.script.max_chunk > 0 {
            let k = if self.script.random {
                let m = self.script.max_chunk;
                self.rng.urange(1, m)
            } else {
                self.script.max_chunk
            };
            n = n.min(k);
        }
        if n < buf.len() {
            self.stats.lock().unwrap().partial += 1;
        }
        self.out.lock().unwrap().extend_from_slice(&buf[..n]);
        Poll::Ready(Ok(n))
    }

    fn poll_flush(mut self: Pin<&mut Self>, cx: &mut Context<'_>) -> Poll<io::Result<()>> {
        if self.pend(cx) {
            return Poll::Pending;
        }
        Poll::Ready(Ok(()))
    }

    fn poll_shutdown(mut self: Pin<&mut Self>, cx: &mut Context<'_>) -> Poll<io::Result<()>> {
        if self.pend(cx) {
            return Poll::Pending;
        }
        *self.shutdown_called.lock().unwrap() = true;
        Poll::Ready(Ok(()))
    }
}
