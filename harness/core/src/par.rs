//! Deterministic parallel map over case indices (std threads only).

use std::sync::atomic::{AtomicUsize, Ordering};

/// Runs `f(i)` for `i in 0..n` on `jobs` threads; results are returned in index order, so the
/// outcome does not depend on scheduling.
pub fn par_map<R: Send, F: Fn(usize) -> R + Sync>(jobs: usize, n: usize, f: F) -> Vec<R> {
    let jobs = jobs.max(1).min(n.max(1));
    let next = AtomicUsize::new(0);
    let mut out: Vec<Option<R>> = (0..n).map(|_| None).collect();
    let slots: Vec<std::sync::Mutex<&mut Option<R>>> =
        out.iter_mut().map(std::sync::Mutex::new).collect();
    std::thread::scope(|s| {
        for _ in 0..jobs {
            s.spawn(|| {
                loop {
                    let i = next.fetch_add(1, Ordering::Relaxed);
                    if i >= n {
                        break;
                    }
                    let r = f(i);
                    **slots[i].lock().unwrap() = Some(r);
                }
            });
        }
    });
    drop(slots);
    out.into_iter().map(|o| o.expect("case result")).collect()
}
