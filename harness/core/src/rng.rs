//! SplitMix64-seeded xoshiro256** generator. No external crate; every case is addressable as
//! `(seed, stream, index)`.

#[derive(Clone, Debug)]
pub struct Rng {
    s: [u64; 4],
}

fn splitmix(x: &mut u64) -> u64 {
    *x = x.wrapping_add(0x9E37_79B9_7F4A_7C15);
    let mut z = *x;
    z = (z ^ (z >> 30)).wrapping_mul(0xBF58_476D_1CE4_E5B9);
    z = (z ^ (z >> 27)).wrapping_mul(0x94D0_49BB_1331_11EB);
    z ^ (z >> 31)
}

impl Rng {
    pub fn new(seed: u64, stream: u64, index: u64) -> Self {
        let mut x = seed
            ^ stream.wrapping_mul(0xA076_1D64_78BD_642F)
            ^ index.wrapping_mul(0xE703_7ED1_A0B4_28DB).rotate_left(17);
        let mut s = [0u64; 4];
        for v in &mut s {
            *v = splitmix(&mut x);
        }
        if s == [0; 4] {
            s[0] = 1;
        }
        Rng { s }
    }

    pub fn fork(&mut self, tag: u64) -> Rng {
        let a = self.next_u64();
        Rng::new(a, tag, 0)
    }

    pub fn next_u64(&mut self) -> u64 {
        let r = self.s[1].wrapping_mul(5).rotate_left(7).wrapping_mul(9);
        let t = self.s[1] << 17;
        self.s[2] ^= self.s[0];
        self.s[3] ^= self.s[1];
        self.s[1] ^= self.s[2];
        self.s[0] ^= self.s[3];
        self.s[2] ^= t;
        self.s[3] = self.s[3].rotate_left(45);
        r
    }

    pub fn next_u32(&mut self) -> u32 {
        (self.next_u64() >> 32) as u32
    }

    /// Uniform in `0..n` (`n > 0`).
    pub fn below(&mut self, n: u64) -> u64 {
        assert!(n > 0);
        // Lemire's method without the rejection step is biased by < 2^-64 * n; fine here.
        ((self.next_u64() as u128 * n as u128) >> 64) as u64
    }

    pub fn usize_below(&mut self, n: usize) -> usize {
        self.below(n as u64) as usize
    }

    /// Uniform in `lo..=hi`.
    pub fn range(&mut self, lo: i64, hi: i64) -> i64 {
        assert!(lo <= hi);
        let span = (hi as i128 - lo as i128 + 1) as u128;
        if span > u64::MAX as u128 {
            return self.next_u64() as i64;
        }
        (lo as i128 + self.below(span as u64) as i128) as i64
    }

    pub fn urange(&mut self, lo: usize, hi: usize) -> usize {
        self.range(lo as i64, hi as i64) as usize
    }

    /// True with probability `num/den`.
    pub fn chance(&mut self, num: u64, den: u64) -> bool {
        self.below(den) < num
    }

    pub fn bool(&mut self) -> bool {
        self.next_u64() & 1 == 1
    }

    pub fn pick<'a, T>(&mut self, xs: &'a [T]) -> &'a T {
        &xs[self.usize_below(xs.len())]
    }

    pub fn fill(&mut self, buf: &mut [u8]) {
        for c in buf.chunks_mut(8) {
            let v = self.next_u64().to_le_bytes();
            c.copy_from_slice(&v[..c.len()]);
        }
    }

    pub fn bytes(&mut self, n: usize) -> Vec<u8> {
        let mut v = vec![0; n];
        self.fill(&mut v);
        v
    }

    pub fn shuffle<T>(&mut self, xs: &mut [T]) {
        for i in (1..xs.len()).rev() {
            let j = self.usize_below(i + 1);
            xs.swap(i, j);
        }
    }

    /// A "small most of the time, occasionally large" non-negative integer up to `max`.
    pub fn skewed(&mut self, max: u64) -> u64 {
        if max == 0 {
            return 0;
        }
        let bits = 64 - max.leading_zeros() as u64;
        let b = self.below(bits + 1);
        let cap = if b >= 64 { u64::MAX } else { (1u64 << b).saturating_sub(1) };
        self.below(cap.min(max) + 1)
    }
}

/// FNV-1a, used for cheap, dependency-free distinct-case fingerprints.
pub fn fnv1a(data: &[u8]) -> u64 {
    let mut h = 0xcbf2_9ce4_8422_2325u64;
    for &b in data {
        h ^= b as u64;
        h = h.wrapping_mul(0x0000_0100_0000_01B3);
    }
    h
}
