//! Independent BGZF / gzip-member oracle, written from SAMv1 §4.1 and RFC 1952. Inflate and
//! deflate go through `miniz_oxide` (noodles uses `zlib-rs`); CRC32 is table-driven here.

use std::sync::OnceLock;

pub const EOF_MARKER: [u8; 28] = [
    0x1f, 0x8b, 0x08, 0x04, 0x00, 0x00, 0x00, 0x00, 0x00, 0xff, 0x06, 0x00, 0x42, 0x43, 0x02, 0x00,
    0x1b, 0x00, 0x03, 0x00, 0x00, 0x00, 0x00, 0x00, 0x00, 0x00, 0x00, 0x00,
];

pub fn crc32(data: &[u8]) -> u32 {
    static TABLE: OnceLock<[u32; 256]> = OnceLock::new();
    let t = TABLE.get_or_init(|| {
        let mut t = [0u32; 256];
        for (i, e) in t.iter_mut().enumerate() {
            let mut c = i as u32;
            for _ in 0..8 {
                c = if c & 1 != 0 { 0xEDB8_8320 ^ (c >> 1) } else { c >> 1 };
            }
            *e = c;
        }
        t
    });
    let mut c = 0xFFFF_FFFFu32;
    for &b in data {
        c = t[((c ^ b as u32) & 0xFF) as usize] ^ (c >> 8);
    }
    c ^ 0xFFFF_FFFF
}

#[derive(Clone, Debug)]
pub struct Member {
    /// offset of the member in the file
    pub offset: u64,
    /// total member length (BSIZE + 1)
    pub size: u64,
    pub cdata_len: usize,
    pub data: Vec<u8>,
    pub is_eof_marker: bool,
}

#[derive(Clone, Debug)]
pub struct Walk {
    pub members: Vec<Member>,
    /// offset in the inflated stream at which each member starts
    pub starts: Vec<u64>,
    pub total: u64,
}

impl Walk {
    pub fn concat(&self) -> Vec<u8> {
        let mut v = Vec::with_capacity(self.total as usize);
        for m in &self.members {
            v.extend_from_slice(&m.data);
        }
        v
    }

    pub fn ends_with_eof_marker(&self) -> bool {
        self.members.last().map(|m| m.is_eof_marker).unwrap_or(false)
    }
}

fn u16le(b: &[u8]) -> usize {
    u16::from_le_bytes([b[0], b[1]]) as usize
}

fn u32le(b: &[u8]) -> u32 {
    u32::from_le_bytes([b[0], b[1], b[2], b[3]])
}

/// Walks a complete BGZF file strictly. Any deviation from the format is an `Err(description)`.
pub fn walk(file: &[u8]) -> Result<Walk, String> {
    let (w, rest) = walk_prefix(file)?;
    if rest != file.len() {
        return Err(format!("trailing {} bytes after the last complete member at {rest}", file.len() - rest));
    }
    Ok(w)
}

/// Walks as many complete, valid members as the bytes contain; returns the walk and the offset of
/// the first byte that is not part of a complete member. A malformed (not merely incomplete)
/// member is an error.
pub fn walk_prefix(file: &[u8]) -> Result<(Walk, usize), String> {
    let mut members = Vec::new();
    let mut starts = Vec::new();
    let mut total = 0u64;
    let mut p = 0usize;
    while p < file.len() {
        let rest = &file[p..];
        if rest.len() < 18 {
            break;
        }
        if rest[0] != 0x1f || rest[1] != 0x8b {
            return Err(format!("member at {p}: bad gzip magic"));
        }
        if rest[2] != 8 {
            return Err(format!("member at {p}: CM != 8"));
        }
        if rest[3] != 4 {
            return Err(format!("member at {p}: FLG != FEXTRA"));
        }
        let xlen = u16le(&rest[10..12]);
        if xlen != 6 {
            return Err(format!("member at {p}: XLEN {xlen} != 6"));
        }
        if &rest[12..14] != b"BC" {
            return Err(format!("member at {p}: extra subfield is not BC"));
        }
        if u16le(&rest[14..16]) != 2 {
            return Err(format!("member at {p}: SLEN != 2"));
        }
        let bsize = u16le(&rest[16..18]);
        let size = bsize + 1;
        if size < 18 + 8 {
            return Err(format!("member at {p}: BSIZE {bsize} too small"));
        }
        if size > 65536 {
            return Err(format!("member at {p}: member length {size} > 65536"));
        }
        if rest.len() < size {
            break;
        }
        let m = &rest[..size];
        let cdata = &m[18..size - 8];
        let crc = u32le(&m[size - 8..size - 4]);
        let isize = u32le(&m[size - 4..]) as usize;
        if isize > 65536 {
            return Err(format!("member at {p}: ISIZE {isize} > 65536"));
        }
        let data = miniz_oxide::inflate::decompress_to_vec_with_limit(cdata, 65536)
            .map_err(|e| format!("member at {p}: inflate failed: {e:?}"))?;
        if data.len() != isize {
            return Err(format!("member at {p}: ISIZE {isize} != inflated length {}", data.len()));
        }
        let actual = crc32(&data);
        if actual != crc {
            return Err(format!("member at {p}: CRC32 {crc:08x} != computed {actual:08x}"));
        }
        starts.push(total);
        total += data.len() as u64;
        members.push(Member {
            offset: p as u64,
            size: size as u64,
            cdata_len: cdata.len(),
            data,
            is_eof_marker: m == EOF_MARKER,
        });
        p += size;
    }
    Ok((Walk { members, starts, total }, p))
}

#[derive(Clone, Copy, Debug, PartialEq, Eq)]
pub enum Enc {
    Stored,
    Deflate(u8),
}

/// Raw DEFLATE stream consisting of stored blocks only (RFC 1951 §3.2.4).
pub fn stored_deflate(data: &[u8]) -> Vec<u8> {
    let mut out = Vec::with_capacity(data.len() + 5 * (data.len() / 65535 + 1));
    if data.is_empty() {
        return vec![0x01, 0x00, 0x00, 0xff, 0xff];
    }
    let mut chunks = data.chunks(65535).peekable();
    while let Some(c) = chunks.next() {
        let last = chunks.peek().is_none();
        out.push(if last { 1 } else { 0 });
        let n = c.len() as u16;
        out.extend_from_slice(&n.to_le_bytes());
        out.extend_from_slice(&(!n).to_le_bytes());
        out.extend_from_slice(c);
    }
    out
}

/// Builds one BGZF member for `data` (`data.len() <= 65536`). Returns `None` if it does not fit
/// into a 64 KiB member with the requested encoding.
pub fn build_member(data: &[u8], enc: Enc) -> Option<Vec<u8>> {
    assert!(data.len() <= 65536);
    let cdata = match enc {
        Enc::Stored => stored_deflate(data),
        Enc::Deflate(level) => miniz_oxide::deflate::compress_to_vec(data, level),
    };
    let size = 18 + cdata.len() + 8;
    if size > 65536 {
        return None;
    }
    let mut m = Vec::with_capacity(size);
    m.extend_from_slice(&[0x1f, 0x8b, 0x08, 0x04, 0, 0, 0, 0, 0, 0xff, 6, 0, b'B', b'C', 2, 0]);
    m.extend_from_slice(&((size - 1) as u16).to_le_bytes());
    m.extend_from_slice(&cdata);
    m.extend_from_slice(&crc32(data).to_le_bytes());
    m.extend_from_slice(&(data.len() as u32).to_le_bytes());
    Some(m)
}

/// Builds a BGZF file from explicit blocks. Falls back from stored to deflate (and vice versa) if
/// a block does not fit; panics if neither fits (only possible for > 65510 incompressible bytes).
pub fn build_file(blocks: &[Vec<u8>], enc: Enc, eof_markers: usize) -> Vec<u8> {
    let mut f = Vec::new();
    for b in blocks {
        let m = build_member(b, enc)
            .or_else(|| build_member(b, Enc::Deflate(6)))
            .or_else(|| build_member(b, Enc::Stored))
            .expect("block does not fit into a BGZF member");
        f.extend_from_slice(&m);
    }
    for _ in 0..eof_markers {
        f.extend_from_slice(&EOF_MARKER);
    }
    f
}

/// Re-compresses an inflated stream into a valid BGZF file with the given block lengths (used to
/// get corruption behind the checksums: mutate the inflated stream, then re-seal).
pub fn reseal(data: &[u8], block_len: usize) -> Vec<u8> {
    let blocks: Vec<Vec<u8>> = if data.is_empty() {
        vec![]
    } else {
        data.chunks(block_len.clamp(1, 65280)).map(|c| c.to_vec()).collect()
    };
    build_file(&blocks, Enc::Deflate(1), 1)
}

/// Virtual position as the BGZF spec defines it.
pub fn vpos(coffset: u64, uoffset: u16) -> u64 {
    (coffset << 16) | uoffset as u64
}

#[cfg(test)]
mod tests {
    use super::*;

    #[test]
    fn crc_vectors() {
        assert_eq!(crc32(b""), 0);
        assert_eq!(crc32(b"noodles"), 0x802a58a1);
        assert_eq!(crc32(b"123456789"), 0xcbf43926);
    }

    #[test]
    fn build_and_walk() {
        let blocks = vec![b"hello".to_vec(), vec![], vec![7u8; 65536], b"x".to_vec()];
        for enc in [Enc::Stored, Enc::Deflate(6)] {
            let f = build_file(&blocks, enc, 1);
            let w = walk(&f).unwrap();
            assert_eq!(w.members.len(), 5);
            assert!(w.ends_with_eof_marker());
            assert_eq!(w.concat().len(), 5 + 65536 + 1);
        }
        assert_eq!(walk(&EOF_MARKER).unwrap().members.len(), 1);
    }
}
