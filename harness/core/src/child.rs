//! Child-process runner for cases that may abort (stack overflow, allocation failure, `abort()`),
//! or not return. The parent re-executes the current binary with `VMON_CHILD` set; each child
//! announces a case before running it, so a signal death or a CPU-budget overrun is attributed to
//! exactly that case, and the shard is restarted after it.
//!
//! Non-termination is decided on CPU time of the child process (the case thread is the only busy
//! thread), never on wall clock; the parent's wall-clock watchdog is generous and its firing is
//! *inconclusive*.

use std::{
    io::{BufRead, BufReader, Write},
    process::{Command, Stdio},
    sync::{Arc, Mutex, atomic::{AtomicU64, Ordering}},
    time::{Duration, Instant},
};

use serde_json::Value;

use crate::guard::process_cpu_s;

#[derive(Clone, Debug)]
pub struct ChildSpec {
    pub shard: u64,
    pub of: u64,
    pub start: u64,
    pub total: u64,
    pub cpu_budget_s: f64,
}

/// Set by a case that left the process in a state no further case should run in (e.g. stuck
/// threads after a detected deadlock): the child exits right after reporting the case and the
/// parent restarts the shard in a fresh process.
pub static EXIT_AFTER_CASE: std::sync::atomic::AtomicBool = std::sync::atomic::AtomicBool::new(false);

pub fn child_spec() -> Option<ChildSpec> {
    let v = std::env::var("VMON_CHILD").ok()?;
    let p: Vec<&str> = v.split(':').collect();
    Some(ChildSpec {
        shard: p[0].parse().ok()?,
        of: p[1].parse().ok()?,
        start: p[2].parse().ok()?,
        total: p[3].parse().ok()?,
        cpu_budget_s: p[4].parse().ok()?,
    })
}

#[derive(Debug)]
pub enum Outcome {
    /// the case returned; payload is whatever the case function produced
    Done(u64, Value),
    /// the child died while running the case (signal or non-zero exit)
    Abort(u64, String),
    /// the case exceeded the CPU budget
    Hang(u64, f64),
    /// the parent's wall-clock watchdog fired (inconclusive)
    WallTimeout(u64),
    /// the child was ended by SIGKILL that the watchdog did not send (inconclusive): no panic, abort, stack
    /// overflow or fault of the code under test ends a process that way; it is the kernel's out-of-memory killer
    /// or an operator
    Killed(u64),
}

/// Child side: runs the cases of this shard from `spec.start` on. Never returns.
pub fn child_loop(spec: &ChildSpec, mut f: impl FnMut(u64) -> Value) -> ! {
    let current = Arc::new(AtomicU64::new(u64::MAX));
    let case_cpu_start = Arc::new(Mutex::new(0f64));
    {
        let current = current.clone();
        let case_cpu_start = case_cpu_start.clone();
        let budget = spec.cpu_budget_s;
        std::thread::spawn(move || {
            loop {
                std::thread::sleep(Duration::from_millis(200));
                let idx = current.load(Ordering::SeqCst);
                if idx == u64::MAX {
                    continue;
                }
                let used = process_cpu_s() - *case_cpu_start.lock().unwrap();
                if used > budget && current.load(Ordering::SeqCst) == idx {
                    let out = std::io::stdout();
                    let mut o = out.lock();
                    let _ = writeln!(o, "H {idx} {used:.1}");
                    let _ = o.flush();
                    unsafe { libc::_exit(3) }
                }
            }
        });
    }
    let mut idx = spec.start;
    // align to shard
    while idx % spec.of != spec.shard {
        idx += 1;
    }
    let out = std::io::stdout();
    while idx < spec.total {
        {
            let mut o = out.lock();
            let _ = writeln!(o, "B {idx}");
            let _ = o.flush();
        }
        *case_cpu_start.lock().unwrap() = process_cpu_s();
        current.store(idx, Ordering::SeqCst);
        let v = f(idx);
        current.store(u64::MAX, Ordering::SeqCst);
        {
            let mut o = out.lock();
            let _ = writeln!(o, "E {idx} {}", serde_json::to_string(&v).unwrap());
            let _ = o.flush();
        }
        if EXIT_AFTER_CASE.load(Ordering::SeqCst) {
            unsafe { libc::_exit(0) }
        }
        idx += spec.of;
    }
    std::process::exit(0)
}

/// Parent side: runs cases `0..total` in `shards` child processes and feeds every outcome to
/// `sink` (called from several threads, serialised by a mutex).
pub fn run_children(
    total: u64,
    shards: u64,
    cpu_budget_s: f64,
    wall_budget: Duration,
    errdir: &std::path::Path,
    sink: &(dyn Fn(Outcome) + Sync),
) {
    let exe = std::env::current_exe().expect("current_exe");
    let args: Vec<String> = std::env::args().skip(1).collect();
    let lock = Mutex::new(());
    std::thread::scope(|s| {
        for shard in 0..shards.min(total.max(1)) {
            let exe = exe.clone();
            let args = args.clone();
            let lock = &lock;
            s.spawn(move || {
                let mut start = shard;
                while start < total {
                    let errpath = errdir.join(format!("child-{shard}.stderr"));
                    let errfile = std::fs::File::create(&errpath).ok();
                    let mut child = Command::new(&exe)
                        .args(&args)
                        .env("VMON_CHILD", format!("{shard}:{shards}:{start}:{total}:{cpu_budget_s}"))
                        .env("RUST_BACKTRACE", "0")
                        .stdin(Stdio::null())
                        .stdout(Stdio::piped())
                        .stderr(errfile.map(Stdio::from).unwrap_or_else(Stdio::null))
                        .spawn()
                        .expect("spawn child");
                    let stdout = child.stdout.take().unwrap();
                    let last_activity = Arc::new(Mutex::new(Instant::now()));
                    let done = Arc::new(AtomicU64::new(0));
                    let pid = child.id();
                    // wall watchdog
                    let wd = {
                        let last_activity = last_activity.clone();
                        let done = done.clone();
                        std::thread::spawn(move || {
                            loop {
                                std::thread::sleep(Duration::from_millis(500));
                                if done.load(Ordering::SeqCst) != 0 {
                                    return false;
                                }
                                if last_activity.lock().unwrap().elapsed() > wall_budget {
                                    unsafe { libc::kill(pid as i32, libc::SIGKILL) };
                                    return true;
                                }
                            }
                        })
                    };
                    let mut open: Option<u64> = None;
                    let mut hung: Option<(u64, f64)> = None;
                    // next case of this shard after the last one that was closed (E), hung or aborted
                    let mut next_start = start;
                    while next_start % shards != shard {
                        next_start += 1;
                    }
                    let mut progressed = false;
                    for line in BufReader::new(stdout).lines() {
                        let Ok(line) = line else { break };
                        *last_activity.lock().unwrap() = Instant::now();
                        let mut it = line.splitn(3, ' ');
                        match (it.next(), it.next(), it.next()) {
                            (Some("B"), Some(i), _) => open = i.parse().ok(),
                            (Some("E"), Some(i), Some(js)) => {
                                let i: u64 = i.parse().unwrap_or(u64::MAX);
                                open = None;
                                next_start = i.saturating_add(shards);
                                progressed = true;
                                let v = serde_json::from_str(js).unwrap_or(Value::Null);
                                let _g = lock.lock().unwrap();
                                sink(Outcome::Done(i, v));
                            }
                            (Some("H"), Some(i), cpu) => {
                                let i: u64 = i.parse().unwrap_or(u64::MAX);
                                hung = Some((i, cpu.and_then(|c| c.parse().ok()).unwrap_or(0.0)));
                            }
                            _ => {}
                        }
                    }
                    let status = child.wait();
                    done.store(1, Ordering::SeqCst);
                    let wall_fired = wd.join().unwrap_or(false);
                    if let Some((i, cpu)) = hung {
                        let _g = lock.lock().unwrap();
                        sink(Outcome::Hang(i, cpu));
                        next_start = i + shards;
                        progressed = true;
                    } else if let Some(i) = open {
                        let _g = lock.lock().unwrap();
                        let sigkill = {
                            use std::os::unix::process::ExitStatusExt;
                            matches!(&status, Ok(s) if s.signal() == Some(libc::SIGKILL))
                        };
                        if wall_fired {
                            sink(Outcome::WallTimeout(i));
                        } else if sigkill {
                            sink(Outcome::Killed(i));
                        } else {
                            let st = match status {
                                Ok(s) => {
                                    use std::os::unix::process::ExitStatusExt;
                                    match s.signal() {
                                        Some(sig) => format!("signal {sig}"),
                                        None => format!("exit code {:?}", s.code()),
                                    }
                                }
                                Err(e) => format!("wait failed: {e}"),
                            };
                            let tail = std::fs::read_to_string(&errpath).unwrap_or_default();
                            let tail: String = tail.lines().rev().take(6).collect::<Vec<_>>().into_iter().rev().collect::<Vec<_>>().join(" / ");
                            sink(Outcome::Abort(i, format!("{st}; stderr tail: {tail}")));
                        }
                        next_start = i + shards;
                        progressed = true;
                    }
                    if !progressed {
                        // the child ended without touching a single case (normal end of an empty
                        // remainder, or it could not even start): never loop on that
                        break;
                    }
                    start = next_start;
                }
            });
        }
    });
}
