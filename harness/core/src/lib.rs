//! Shared building blocks of the noodles runtime-monitoring harness.
//!
//! Nothing in here depends on noodles: generators of raw payloads, I/O adversaries, independent
//! oracles (gzip/BGZF walker, CRC32), the panic monitor, the report format that every property
//! binary emits, and the child-process runner for cases that may abort or hang.

pub mod adv;
pub mod aadv;
pub mod bgzf;
pub mod cases;
pub mod child;
pub mod guard;
pub mod par;
pub mod payload;
pub mod report;
pub mod rng;

pub use cases::{CaseOut, run_cases};
pub use report::{Ctx, Report, Tier, Violation};
pub use rng::Rng;
