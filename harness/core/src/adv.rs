//! Synchronous I/O adversaries.
//!
//! * `ChunkedRead`: serves a byte slice through `Read`/`BufRead`/`Seek` with scripted return sizes
//!   and finite `Interrupted` injections (at most one per source offset, bounded in total, so no
//!   live-lock can be manufactured that an operating system could not produce).
//! * `FaultyWrite`: a sink that counts calls, fails a chosen call, accepts scripted partial
//!   writes, and records every accepted byte.

use std::{
    collections::BTreeSet,
    io::{self, BufRead, Read, Seek, SeekFrom, Write},
    sync::{Arc, Mutex},
};

use crate::Rng;

/// How many bytes each `read`/`fill_buf` call may deliver.
#[derive(Clone, Debug)]
pub enum Sizes {
    /// everything asked for (like a slice)
    Full,
    /// at most `k` bytes per call
    Fixed(usize),
    /// random `1..=k` bytes per call (seeded)
    Random(usize, u64),
    /// deliver up to the next cut offset (absolute source offsets, sorted); after the last cut
    /// everything
    Cuts(Vec<usize>),
    /// explicit script of sizes, cycled
    Script(Vec<usize>),
}

#[derive(Clone, Debug)]
pub struct ChunkedRead {
    data: Arc<Vec<u8>>,
    pos: usize,
    sizes: Sizes,
    rng: Rng,
    script_i: usize,
    /// source offsets at which one `Interrupted` is returned before data is delivered
    interrupt_at: BTreeSet<usize>,
    pub interrupts_delivered: usize,
    pub calls: usize,
    pub short_deliveries: usize,
    // BufRead window
    win_len: usize,
}

impl ChunkedRead {
    pub fn new(data: Arc<Vec<u8>>, sizes: Sizes) -> Self {
        let seed = match &sizes {
            Sizes::Random(_, s) => *s,
            _ => 0,
        };
        ChunkedRead {
            data,
            pos: 0,
            sizes,
            rng: Rng::new(seed, 0xC4, 0),
            script_i: 0,
            interrupt_at: BTreeSet::new(),
            interrupts_delivered: 0,
            calls: 0,
            short_deliveries: 0,
            win_len: 0,
        }
    }

    pub fn from_slice(data: &[u8], sizes: Sizes) -> Self {
        Self::new(Arc::new(data.to_vec()), sizes)
    }

    /// One `Interrupted` at each of the given source offsets (`data.len()` = at end of data).
    pub fn with_interrupts(mut self, at: impl IntoIterator<Item = usize>) -> Self {
        self.interrupt_at = at.into_iter().collect();
        self
    }

    pub fn position(&self) -> usize {
        self.pos
    }

    fn next_size(&mut self, want: usize) -> usize {
        let left = self.data.len() - self.pos;
        let n = match &self.sizes {
            Sizes::Full => want,
            Sizes::Fixed(k) => want.min(*k),
            Sizes::Random(k, _) => want.min(self.rng.urange(1, (*k).max(1))),
            Sizes::Cuts(cuts) => {
                let i = cuts.partition_point(|&c| c <= self.pos);
                match cuts.get(i) {
                    Some(&c) => want.min(c - self.pos),
                    None => want,
                }
            }
            Sizes::Script(s) => {
                let k = s[self.script_i % s.len()].max(1);
                self.script_i += 1;
                want.min(k)
            }
        };
        let n = n.min(left);
        if n < want.min(left) {
            self.short_deliveries += 1;
        }
        n
    }

    fn maybe_interrupt(&mut self) -> io::Result<()> {
        if self.interrupt_at.remove(&self.pos) {
            self.interrupts_delivered += 1;
            return Err(io::Error::new(io::ErrorKind::Interrupted, "verif: injected EINTR"));
        }
        Ok(())
    }
}

impl Read for ChunkedRead {
    fn read(&mut self, buf: &mut [u8]) -> io::Result<usize> {
        self.calls += 1;
        if buf.is_empty() {
            return Ok(0);
        }
        self.maybe_interrupt()?;
        let n = self.next_size(buf.len());
        buf[..n].copy_from_slice(&self.data[self.pos..self.pos + n]);
        self.pos += n;
        self.win_len = 0;
        Ok(n)
    }
}

impl BufRead for ChunkedRead {
    fn fill_buf(&mut self) -> io::Result<&[u8]> {
        self.calls += 1;
        if self.win_len == 0 {
            self.maybe_interrupt()?;
            // a window is stable until consumed completely, like a real buffer
            self.win_len = self.next_size(usize::MAX);
        }
        Ok(&self.data[self.pos..self.pos + self.win_len])
    }

    fn consume(&mut self, amt: usize) {
        let amt = amt.min(self.win_len);
        self.pos += amt;
        self.win_len -= amt;
    }
}

impl Seek for ChunkedRead {
    fn seek(&mut self, pos: SeekFrom) -> io::Result<u64> {
        let len = self.data.len() as i128;
        let p = match pos {
            SeekFrom::Start(p) => p as i128,
            SeekFrom::End(d) => len + d as i128,
            SeekFrom::Current(d) => self.pos as i128 + d as i128,
        };
        if p < 0 {
            return Err(io::Error::new(io::ErrorKind::InvalidInput, "seek before start"));
        }
        // like a file / Cursor, seeking past the end is allowed and reads return 0 there
        self.pos = (p.min(len)) as usize;
        self.win_len = 0;
        Ok(p as u64)
    }
}

// ---------------------------------------------------------------------------------------------

#[derive(Clone, Copy, Debug, PartialEq, Eq)]
pub enum FaultMode {
    /// never fail
    None,
    /// call `k` (0-based, counting write and flush calls) fails; later calls succeed
    Transient(usize),
    /// call `k` and every later call fail
    Sticky(usize),
}

#[derive(Clone, Debug)]
pub enum Accept {
    All,
    /// accept at most `k` bytes per write call
    AtMost(usize),
    /// accept half (at least 1)
    Half,
    /// random 1..=len (seeded)
    Random(u64),
}

#[derive(Debug, Default)]
pub struct SinkLog {
    pub bytes: Vec<u8>,
    pub calls: usize,
    pub write_calls: usize,
    pub flush_calls: usize,
    pub errors_returned: usize,
    pub interrupts_returned: usize,
    pub first_error_call: Option<usize>,
    pub short_writes: usize,
    pub dropped: bool,
    /// staging sinks only: bytes accepted by `write` that no successful `flush` has committed yet
    pub staged: Vec<u8>,
    pub flush_interrupts_returned: usize,
}

/// Marker payload of injected errors so that the harness can recognise its own error coming back.
#[derive(Debug)]
pub struct Injected(pub usize);

impl std::fmt::Display for Injected {
    fn fmt(&self, f: &mut std::fmt::Formatter<'_>) -> std::fmt::Result {
        write!(f, "verif: injected sink failure at call {}", self.0)
    }
}

impl std::error::Error for Injected {}

pub fn is_injected(e: &io::Error) -> bool {
    e.get_ref().map(|r| r.is::<Injected>()).unwrap_or(false)
}

/// A fault-injecting sink. Cloning shares the log (the clone handed to noodles may be moved to a
/// background thread or dropped; the harness keeps its own handle).
#[derive(Clone, Debug)]
pub struct FaultyWrite {
    pub log: Arc<Mutex<SinkLog>>,
    mode: FaultMode,
    kind: io::ErrorKind,
    accept: Accept,
    rng: Rng,
    /// write-call indices (0-based over write calls) before which one `Interrupted` is returned
    interrupt_before: BTreeSet<usize>,
    /// flush-call index (0-based over flush calls that are not interrupted) -> how many consecutive
    /// `Interrupted` results precede it
    interrupt_flush_before: std::collections::BTreeMap<usize, usize>,
    /// a transactional / BufWriter-like destination: written bytes are only staged, a successful
    /// flush commits them to `log.bytes`
    staging: bool,
}

impl FaultyWrite {
    pub fn new(mode: FaultMode, kind: io::ErrorKind, accept: Accept) -> Self {
        let seed = match accept {
            Accept::Random(s) => s,
            _ => 0,
        };
        FaultyWrite {
            log: Arc::new(Mutex::new(SinkLog::default())),
            mode,
            kind,
            accept,
            rng: Rng::new(seed, 0xFA, 0),
            interrupt_before: BTreeSet::new(),
            interrupt_flush_before: Default::default(),
            staging: false,
        }
    }

    /// `flush` call number `i` (counting completed flush calls) is preceded by `n` consecutive
    /// `Interrupted` results.
    pub fn with_flush_interrupts(mut self, at: impl IntoIterator<Item = (usize, usize)>) -> Self {
        self.interrupt_flush_before = at.into_iter().collect();
        self
    }

    /// Written bytes are staged and reach `bytes()` only through a successful `flush`.
    pub fn with_staging(mut self) -> Self {
        self.staging = true;
        self
    }

    /// staged-but-uncommitted byte count (staging sinks)
    pub fn staged_len(&self) -> usize {
        self.log.lock().unwrap().staged.len()
    }

    pub fn healthy() -> Self {
        Self::new(FaultMode::None, io::ErrorKind::Other, Accept::All)
    }

    pub fn with_interrupts(mut self, before_write_calls: impl IntoIterator<Item = usize>) -> Self {
        self.interrupt_before = before_write_calls.into_iter().collect();
        self
    }

    pub fn bytes(&self) -> Vec<u8> {
        self.log.lock().unwrap().bytes.clone()
    }

    fn fail_now(&self, call: usize) -> bool {
        match self.mode {
            FaultMode::None => false,
            FaultMode::Transient(k) => call == k,
            FaultMode::Sticky(k) => call >= k,
        }
    }
}

impl Write for FaultyWrite {
    fn write(&mut self, buf: &[u8]) -> io::Result<usize> {
        let mut log = self.log.lock().unwrap();
        let wc = log.write_calls;
        if self.interrupt_before.remove(&wc) {
            log.interrupts_returned += 1;
            return Err(io::Error::new(io::ErrorKind::Interrupted, "verif: injected EINTR"));
        }
        let call = log.calls;
        log.calls += 1;
        log.write_calls += 1;
        if self.fail_now(call) {
            log.errors_returned += 1;
            log.first_error_call.get_or_insert(call);
            return Err(io::Error::new(self.kind, Injected(call)));
        }
        if buf.is_empty() {
            return Ok(0);
        }
        let n = match self.accept {
            Accept::All => buf.len(),
            Accept::AtMost(k) => buf.len().min(k.max(1)),
            Accept::Half => (buf.len() / 2).max(1),
            Accept::Random(_) => self.rng.urange(1, buf.len()),
        };
        if n < buf.len() {
            log.short_writes += 1;
        }
        if self.staging {
            log.staged.extend_from_slice(&buf[..n]);
        } else {
            log.bytes.extend_from_slice(&buf[..n]);
        }
        Ok(n)
    }

    fn flush(&mut self) -> io::Result<()> {
        let mut log = self.log.lock().unwrap();
        let fc = log.flush_calls;
        if let Some(left) = self.interrupt_flush_before.get_mut(&fc) {
            if *left > 0 {
                *left -= 1;
                log.interrupts_returned += 1;
                log.flush_interrupts_returned += 1;
                return Err(io::Error::new(io::ErrorKind::Interrupted, "verif: injected EINTR (flush)"));
            }
        }
        let call = log.calls;
        log.calls += 1;
        log.flush_calls += 1;
        if self.fail_now(call) {
            log.errors_returned += 1;
            log.first_error_call.get_or_insert(call);
            return Err(io::Error::new(self.kind, Injected(call)));
        }
        if self.staging {
            let staged = std::mem::take(&mut log.staged);
            log.bytes.extend_from_slice(&staged);
        }
        Ok(())
    }
}

pub const ERROR_KINDS: &[io::ErrorKind] = &[
    io::ErrorKind::Other,
    io::ErrorKind::BrokenPipe,
    io::ErrorKind::WriteZero,
    io::ErrorKind::StorageFull,
    io::ErrorKind::PermissionDenied,
    io::ErrorKind::UnexpectedEof,
    io::ErrorKind::TimedOut,
    io::ErrorKind::InvalidInput,
    io::ErrorKind::InvalidData,
    io::ErrorKind::NotFound,
    io::ErrorKind::ConnectionReset,
    io::ErrorKind::ConnectionAborted,
    io::ErrorKind::NotConnected,
    io::ErrorKind::AlreadyExists,
    io::ErrorKind::WouldBlock,
    io::ErrorKind::Unsupported,
    io::ErrorKind::OutOfMemory,
];
