//! Payload classes shared by the BGZF / codec / chunking properties.

use crate::Rng;

pub const CLASSES: &[&str] = &[
    "zeros", "one_symbol", "two_symbols", "cycle256", "skewed", "text", "dna", "random",
    "random_with_repeats", "runs", "qualities",
];

/// Lengths at every boundary that matters for BGZF staging and the rANS interleaves.
pub fn boundary_lengths() -> Vec<usize> {
    let mut v = vec![0usize, 1, 2, 3, 4, 5, 7, 8, 15, 16, 17, 31, 32, 33, 63, 64, 65, 127, 128, 129, 255, 256, 257];
    for b in [65279usize, 65280, 65281, 65494, 65495, 65496, 65535, 65536, 65537] {
        v.push(b);
    }
    for k in 2..=3usize {
        for d in [-1i64, 0, 1] {
            v.push((k as i64 * 65495 + d) as usize);
            v.push((k as i64 * 65536 + d) as usize);
        }
    }
    v.sort_unstable();
    v.dedup();
    v
}

pub fn make(class: &str, len: usize, rng: &mut Rng) -> Vec<u8> {
    let mut v = Vec::with_capacity(len);
    match class {
        "zeros" => v.resize(len, 0),
        "one_symbol" => {
            let s = rng.next_u32() as u8;
            v.resize(len, s)
        }
        "two_symbols" => {
            let a = rng.next_u32() as u8;
            let b = rng.next_u32() as u8;
            for _ in 0..len {
                v.push(if rng.chance(1, 5) { b } else { a });
            }
        }
        "cycle256" => {
            for i in 0..len {
                v.push(i as u8);
            }
        }
        "skewed" => {
            // geometric-ish distribution over a random alphabet permutation
            let mut alpha: Vec<u8> = (0..=255).collect();
            rng.shuffle(&mut alpha);
            for _ in 0..len {
                let mut k = 0usize;
                while k < 255 && rng.chance(3, 5) {
                    k += 1;
                }
                v.push(alpha[k]);
            }
        }
        "text" => {
            const WORDS: &[&str] = &["noodles", "bgzf", "chr1", "\t", "\n", "ACGT", "0", "1", "255", "*", "=", "read", "/1", ":"];
            while v.len() < len {
                v.extend_from_slice(rng.pick(WORDS).as_bytes());
            }
            v.truncate(len);
        }
        "dna" => {
            for _ in 0..len {
                v.push(b"ACGTN"[if rng.chance(1, 50) { 4 } else { rng.usize_below(4) }]);
            }
        }
        "random" => v = rng.bytes(len),
        "random_with_repeats" => {
            // incompressible stretches with short back-references: "slightly expanding" data
            while v.len() < len {
                if !v.is_empty() && rng.chance(1, 4) {
                    let n = rng.urange(3, 12).min(v.len());
                    let start = rng.usize_below(v.len() - n + 1);
                    let rep: Vec<u8> = v[start..start + n].to_vec();
                    v.extend_from_slice(&rep);
                } else {
                    let n = rng.urange(1, 64);
                    v.extend(rng.bytes(n));
                }
            }
            v.truncate(len);
        }
        "runs" => {
            while v.len() < len {
                let s = rng.next_u32() as u8;
                let n = rng.skewed(600) as usize + 1;
                for _ in 0..n {
                    v.push(s);
                }
            }
            v.truncate(len);
        }
        "qualities" => {
            let mut q = 30i64;
            for _ in 0..len {
                q = (q + rng.range(-3, 3)).clamp(0, 41);
                v.push(q as u8);
            }
        }
        _ => panic!("unknown payload class {class}"),
    }
    debug_assert_eq!(v.len(), len);
    v
}

/// Splits `0..len` into consecutive pieces according to a named pattern.
pub fn split_pattern(pattern: &str, len: usize, rng: &mut Rng) -> Vec<usize> {
    let mut out = Vec::new();
    let mut left = len;
    let mut push = |n: usize, left: &mut usize| {
        let n = n.min(*left);
        out.push(n);
        *left -= n;
    };
    match pattern {
        "all" => push(len, &mut left),
        "ones" => {
            while left > 0 {
                push(1, &mut left)
            }
        }
        "small" => {
            while left > 0 {
                push(rng.urange(1, 17), &mut left)
            }
        }
        "mixed" => {
            while left > 0 {
                let n = match rng.below(8) {
                    0 => 0,
                    1 => 1,
                    2 => rng.urange(2, 100),
                    3 => rng.urange(100, 5000),
                    4 => 65494,
                    5 => 65495,
                    6 => 65496,
                    _ => rng.urange(60000, 140000),
                };
                push(n, &mut left)
            }
        }
        "blocks" => {
            while left > 0 {
                push(65495, &mut left)
            }
        }
        "halves" => {
            push(len / 2, &mut left);
            push(len, &mut left)
        }
        _ => panic!("unknown split pattern {pattern}"),
    }
    if out.is_empty() {
        out.push(0);
    }
    out
}

pub const SPLITS: &[&str] = &["all", "ones", "small", "mixed", "blocks", "halves"];
