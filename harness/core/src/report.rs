//! What every property binary emits: one JSON report per run (or per stage).
//!
//! The python driver (`/verif/check`) merges the reports of all stages of a check, matches
//! violations against `KNOWN_FINDINGS.txt`, writes `evidence/<ID>.json` and prints the verdict
//! lines. The binary never decides the exit code of the check on its own.

use std::{
    collections::{BTreeMap, BTreeSet},
    path::{Path, PathBuf},
};

use serde_json::{Map, Value, json};

#[derive(Clone, Copy, Debug, PartialEq, Eq)]
pub enum Tier {
    Quick,
    Thorough,
}

/// Command line of a property binary:
/// `cNN --tier quick|thorough --seed N --work DIR --report FILE [--stage NAME] [--jobs N] [--replay FILE] [k=v ...]`
#[derive(Clone, Debug)]
pub struct Ctx {
    pub tier: Tier,
    pub seed: u64,
    /// scratch directory (exists, private to this run, removed by the driver)
    pub work: PathBuf,
    /// where witness files of violations go (persist after the run)
    pub replays: PathBuf,
    pub report: PathBuf,
    pub stage: String,
    pub jobs: usize,
    pub replay: Option<PathBuf>,
    /// free `key=value` parameters
    pub params: BTreeMap<String, String>,
}

impl Ctx {
    pub fn from_args() -> Ctx {
        let mut tier = Tier::Quick;
        let mut seed = 0u64;
        let mut work = std::env::temp_dir();
        let mut replays = PathBuf::from("replays");
        let mut report = PathBuf::from("report.json");
        let mut stage = String::from("main");
        let mut jobs = std::thread::available_parallelism().map(|n| n.get()).unwrap_or(4);
        let mut replay = None;
        let mut params = BTreeMap::new();
        let args: Vec<String> = std::env::args().skip(1).collect();
        let mut i = 0;
        while i < args.len() {
            let a = &args[i];
            let mut val = || {
                i += 1;
                args.get(i).cloned().unwrap_or_else(|| {
                    eprintln!("missing value for {a}");
                    std::process::exit(2)
                })
            };
            match a.as_str() {
                "--tier" => {
                    tier = match val().as_str() {
                        "quick" => Tier::Quick,
                        "thorough" => Tier::Thorough,
                        t => {
                            eprintln!("bad tier {t}");
                            std::process::exit(2)
                        }
                    }
                }
                "--seed" => seed = val().parse().expect("seed"),
                "--work" => work = PathBuf::from(val()),
                "--replays" => replays = PathBuf::from(val()),
                "--report" => report = PathBuf::from(val()),
                "--stage" => stage = val(),
                "--jobs" => jobs = val().parse().expect("jobs"),
                "--replay" => replay = Some(PathBuf::from(val())),
                s if s.contains('=') && !s.starts_with('-') => {
                    let (k, v) = s.split_once('=').unwrap();
                    params.insert(k.to_string(), v.to_string());
                }
                s => {
                    eprintln!("unknown argument {s}");
                    std::process::exit(2)
                }
            }
            i += 1;
        }
        let _ = std::fs::create_dir_all(&work);
        let _ = std::fs::create_dir_all(&replays);
        Ctx { tier, seed, work, replays, report, stage, jobs, replay, params }
    }

    pub fn quick(&self) -> bool {
        self.tier == Tier::Quick
    }

    /// `q` in the quick tier, `t` in the thorough tier; a `key=value` parameter overrides both.
    pub fn budget(&self, key: &str, q: u64, t: u64) -> u64 {
        if let Some(v) = self.params.get(key) {
            return v.parse().unwrap_or_else(|_| panic!("bad value for {key}"));
        }
        if self.quick() { q } else { t }
    }

    pub fn param(&self, key: &str) -> Option<&str> {
        self.params.get(key).map(|s| s.as_str())
    }
}

#[derive(Clone, Debug)]
pub struct Violation {
    /// Narrow, stable signature: sub-check + diagnostic class + call site / witness shape.
    pub sig: String,
    /// Human-readable: what was observed, against what expectation, on which case.
    pub desc: String,
    /// Witness file (under `Ctx::replays`), self-contained enough to re-run the case.
    pub replay: Option<PathBuf>,
}

#[derive(Debug, Default)]
pub struct Report {
    /// cases generated / executions run
    pub evaluations: u64,
    /// fingerprints of the distinct non-trivial cases (by the rule stated in `rule`)
    pub distinct: BTreeSet<u64>,
    pub rule: String,
    pub samples: Vec<Value>,
    /// extra measured coverage counters
    pub counters: BTreeMap<String, u64>,
    /// extra measured coverage values that are not plain counters
    pub extra: Map<String, Value>,
    pub violations: Vec<Violation>,
    pub inconclusive: Vec<String>,
    /// Non-vacuity floors that were not met (a monitor that saw nothing must not pass).
    pub floors_unmet: Vec<String>,
    pub assumptions: Vec<String>,
    pub exhaustive: Option<bool>,
}

impl Report {
    pub fn new(rule: &str) -> Self {
        Report { rule: rule.to_string(), ..Default::default() }
    }

    pub fn count(&mut self, key: &str, n: u64) {
        *self.counters.entry(key.to_string()).or_insert(0) += n;
    }

    pub fn max(&mut self, key: &str, n: u64) {
        let e = self.counters.entry(key.to_string()).or_insert(0);
        *e = (*e).max(n);
    }

    pub fn sample(&mut self, v: Value) {
        if self.samples.len() < 6 {
            self.samples.push(v);
        }
    }

    pub fn violation(&mut self, sig: impl Into<String>, desc: impl Into<String>, replay: Option<PathBuf>) {
        // keep the report bounded: at most 40 violations per signature are kept verbatim
        let sig = sig.into();
        let same = self.violations.iter().filter(|v| v.sig == sig).count();
        self.count(&format!("violations_observed[{sig}]"), 1);
        if same < 5 {
            self.violations.push(Violation { sig, desc: desc.into(), replay });
        }
    }

    pub fn floor(&mut self, name: &str, got: u64, need: u64) {
        if got < need {
            self.floors_unmet.push(format!("{name}: observed {got}, floor {need}"));
        }
    }

    pub fn merge(&mut self, o: Report) {
        self.evaluations += o.evaluations;
        self.distinct.extend(o.distinct);
        for s in o.samples {
            self.sample(s);
        }
        for (k, v) in o.counters {
            if k.starts_with("max_") {
                self.max(&k, v);
            } else {
                self.count(&k, v);
            }
        }
        for (k, v) in o.extra {
            self.extra.insert(k, v);
        }
        for v in o.violations {
            let same = self.violations.iter().filter(|x| x.sig == v.sig).count();
            if same < 5 {
                self.violations.push(v);
            }
        }
        self.inconclusive.extend(o.inconclusive);
        self.floors_unmet.extend(o.floors_unmet);
        for a in o.assumptions {
            if !self.assumptions.contains(&a) {
                self.assumptions.push(a);
            }
        }
        if let Some(e) = o.exhaustive {
            self.exhaustive = Some(self.exhaustive.unwrap_or(true) && e);
        }
    }

    pub fn to_json(&self, ctx: &Ctx) -> Value {
        json!({
            "stage": ctx.stage,
            "evaluations": self.evaluations,
            "distinct_nontrivial": self.distinct.len(),
            "rule": self.rule,
            "samples": self.samples,
            "counters": self.counters,
            "extra": self.extra,
            "violations": self.violations.iter().map(|v| json!({
                "sig": v.sig, "desc": v.desc,
                "replay": v.replay.as_ref().map(|p| p.display().to_string()),
            })).collect::<Vec<_>>(),
            "inconclusive": self.inconclusive,
            "floors_unmet": self.floors_unmet,
            "assumptions": self.assumptions,
            "exhaustive": self.exhaustive,
        })
    }

    /// Writes the report file. The process exit code is 0 whenever the report could be written;
    /// verdicts are the driver's business.
    pub fn finish(self, ctx: &Ctx) -> ! {
        let v = self.to_json(ctx);
        let s = serde_json::to_string_pretty(&v).unwrap();
        if let Err(e) = std::fs::write(&ctx.report, s) {
            eprintln!("cannot write report {}: {e}", ctx.report.display());
            std::process::exit(2);
        }
        // Skip destructors of global pools etc.
        std::process::exit(0)
    }
}

/// Writes a witness file and returns its path. `name` should be unique per case.
pub fn write_replay(ctx: &Ctx, name: &str, content: &Value) -> Option<PathBuf> {
    let p = ctx.replays.join(format!("{name}.json"));
    match std::fs::write(&p, serde_json::to_string_pretty(content).unwrap()) {
        Ok(()) => Some(p),
        Err(_) => None,
    }
}

pub fn write_replay_bytes(ctx: &Ctx, name: &str, content: &[u8]) -> Option<PathBuf> {
    let p = ctx.replays.join(name);
    match std::fs::write(&p, content) {
        Ok(()) => Some(p),
        Err(_) => None,
    }
}

pub fn read_json(p: &Path) -> Value {
    let s = std::fs::read_to_string(p).unwrap_or_else(|e| panic!("{}: {e}", p.display()));
    serde_json::from_str(&s).unwrap_or_else(|e| panic!("{}: {e}", p.display()))
}

pub fn hex(b: &[u8]) -> String {
    let mut s = String::with_capacity(b.len() * 2);
    for x in b {
        s.push_str(&format!("{x:02x}"));
    }
    s
}

pub fn unhex(s: &str) -> Vec<u8> {
    (0..s.len() / 2).map(|i| u8::from_str_radix(&s[2 * i..2 * i + 2], 16).unwrap()).collect()
}
