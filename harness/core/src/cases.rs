//! Standard skeleton of a property binary: a deterministic list of cases, each executed in one of
//! several child processes (see `child`), so that an abort, stack overflow, double panic or
//! non-terminating case is attributed to exactly that case instead of taking the monitor down.

use std::{path::PathBuf, sync::Mutex, time::Duration};

use serde_json::{Value, json};

use crate::{
    Ctx, Report, Tier,
    child::{self, Outcome},
    report::{read_json, write_replay},
};

/// What one case reports back.
#[derive(Debug, Default)]
pub struct CaseOut {
    /// fingerprint of the case class for the distinct count; 0 = trivial (not counted)
    pub fp: u64,
    /// further fingerprints (a case may cover several distinct sub-cases)
    pub fps: Vec<u64>,
    /// how many evaluations this case stands for (default 1)
    pub evaluations: u64,
    pub counters: Vec<(String, u64)>,
    /// `max_*` style counters
    pub maxima: Vec<(String, u64)>,
    pub sample: Option<Value>,
    /// (signature, description, extra witness data)
    pub violations: Vec<(String, String, Value)>,
    pub inconclusive: Vec<String>,
}

impl CaseOut {
    pub fn new() -> Self {
        CaseOut { evaluations: 1, ..Default::default() }
    }

    pub fn count(&mut self, k: &str, n: u64) {
        if let Some(e) = self.counters.iter_mut().find(|e| e.0 == k) {
            e.1 += n;
        } else {
            self.counters.push((k.to_string(), n));
        }
    }

    pub fn max(&mut self, k: &str, n: u64) {
        if let Some(e) = self.maxima.iter_mut().find(|e| e.0 == k) {
            e.1 = e.1.max(n);
        } else {
            self.maxima.push((k.to_string(), n));
        }
    }

    pub fn violation(&mut self, sig: impl Into<String>, desc: impl Into<String>) {
        self.violations.push((sig.into(), desc.into(), Value::Null));
    }

    pub fn violation_with(&mut self, sig: impl Into<String>, desc: impl Into<String>, witness: Value) {
        self.violations.push((sig.into(), desc.into(), witness));
    }

    fn to_json(&self) -> Value {
        json!({
            "fp": self.fp.to_string(),
            "fps": self.fps.iter().map(|f| f.to_string()).collect::<Vec<_>>(),
            "ev": self.evaluations,
            "c": self.counters,
            "m": self.maxima,
            "s": self.sample,
            "v": self.violations.iter().map(|(a, b, c)| json!([a, b, c])).collect::<Vec<_>>(),
            "i": self.inconclusive,
        })
    }
}

fn fold(ctx: &Ctx, rep: &mut Report, idx: u64, v: &Value, case_desc: &dyn Fn(u64) -> Value) {
    rep.evaluations += v["ev"].as_u64().unwrap_or(1);
    let fp: u64 = v["fp"].as_str().and_then(|s| s.parse().ok()).unwrap_or(0);
    if fp != 0 {
        rep.distinct.insert(fp);
    }
    for f in v["fps"].as_array().into_iter().flatten() {
        if let Some(f) = f.as_str().and_then(|s| s.parse::<u64>().ok()) {
            if f != 0 {
                rep.distinct.insert(f);
            }
        }
    }
    for e in v["c"].as_array().into_iter().flatten() {
        rep.count(e[0].as_str().unwrap_or("?"), e[1].as_u64().unwrap_or(0));
    }
    for e in v["m"].as_array().into_iter().flatten() {
        rep.max(e[0].as_str().unwrap_or("?"), e[1].as_u64().unwrap_or(0));
    }
    if !v["s"].is_null() {
        rep.sample(v["s"].clone());
    }
    for (n, e) in v["v"].as_array().into_iter().flatten().enumerate() {
        let sig = e[0].as_str().unwrap_or("?").to_string();
        let desc = e[1].as_str().unwrap_or("").to_string();
        let already = rep.violations.iter().filter(|x| x.sig == sig).count();
        let replay = if already < 5 {
            write_replay(
                ctx,
                &format!("{}-{}-s{}-i{}-{}", exe_name(), ctx.stage, ctx.seed, idx, n),
                &json!({"stage": ctx.stage, "seed": ctx.seed, "tier": tier_name(ctx.tier), "idx": idx,
                        "params": ctx.params, "sig": sig, "desc": desc, "case": case_desc(idx), "witness": e[2]}),
            )
        } else {
            None
        };
        rep.violation(sig, format!("{desc} [case #{idx}: {}]", short(&case_desc(idx))), replay);
    }
    for e in v["i"].as_array().into_iter().flatten() {
        if rep.inconclusive.len() < 50 {
            rep.inconclusive.push(format!("case #{idx}: {}", e.as_str().unwrap_or("?")));
        }
        rep.count("inconclusive_cases", 1);
    }
}

fn short(v: &Value) -> String {
    let s = v.to_string();
    if s.len() > 400 { format!("{}…", &s[..400]) } else { s }
}

fn exe_name() -> String {
    std::env::current_exe()
        .ok()
        .and_then(|p| p.file_name().map(|s| s.to_string_lossy().to_uppercase()))
        .unwrap_or_else(|| "VMON".into())
}

pub fn tier_name(t: Tier) -> &'static str {
    match t {
        Tier::Quick => "quick",
        Tier::Thorough => "thorough",
    }
}

/// If `--replay FILE` was given, returns `(idx, ctx adjusted to the stored seed/tier/params)`.
pub fn replay_request(ctx: &Ctx) -> Option<(u64, Ctx)> {
    let p: &PathBuf = ctx.replay.as_ref()?;
    let v = read_json(p);
    let mut c = ctx.clone();
    c.seed = v["seed"].as_u64().unwrap_or(ctx.seed);
    c.tier = if v["tier"].as_str() == Some("thorough") { Tier::Thorough } else { Tier::Quick };
    if let Some(m) = v["params"].as_object() {
        for (k, val) in m {
            if let Some(s) = val.as_str() {
                c.params.insert(k.clone(), s.to_string());
            }
        }
    }
    Some((v["idx"].as_u64().expect("idx in replay file"), c))
}

/// Runs cases `0..total`. `f(idx)` executes one case; `case_desc(idx)` renders it for witnesses.
///
/// * child mode (`VMON_CHILD` set): runs this shard's cases and exits;
/// * replay mode: runs the single stored case in-process and folds it;
/// * parent mode: spawns `ctx.jobs` children, folds their outcomes in index order.
pub fn run_cases(
    ctx: &Ctx,
    rep: &mut Report,
    total: u64,
    cpu_budget_s: f64,
    f: &(dyn Fn(u64) -> CaseOut + Sync),
    case_desc: &(dyn Fn(u64) -> Value + Sync),
) {
    if let Some(spec) = child::child_spec() {
        child::child_loop(&spec, |i| f(i).to_json());
    }
    if let Some((idx, _)) = replay_request(ctx) {
        let out = f(idx);
        fold(ctx, rep, idx, &out.to_json(), case_desc);
        return;
    }
    if ctx.param("inproc").is_some() {
        // sanitizer / Miri stages: no child processes, cases run sequentially in this process
        for idx in 0..total {
            let out = f(idx);
            fold(ctx, rep, idx, &out.to_json(), case_desc);
        }
        return;
    }
    let outcomes: Mutex<Vec<(u64, Outcome)>> = Mutex::new(Vec::new());
    child::run_children(total, ctx.jobs as u64, cpu_budget_s, Duration::from_secs(600), &ctx.work, &|o| {
        let idx = match &o {
            Outcome::Done(i, _) | Outcome::Abort(i, _) | Outcome::Hang(i, _) | Outcome::WallTimeout(i) | Outcome::Killed(i) => *i,
        };
        outcomes.lock().unwrap().push((idx, o));
    });
    let mut outcomes = outcomes.into_inner().unwrap();
    outcomes.sort_by_key(|e| e.0);
    let mut done = 0u64;
    for (idx, o) in outcomes {
        match o {
            Outcome::Done(_, v) => {
                done += 1;
                fold(ctx, rep, idx, &v, case_desc)
            }
            Outcome::Abort(_, status) => {
                let replay = write_replay(
                    ctx,
                    &format!("{}-{}-s{}-i{}-abort", exe_name(), ctx.stage, ctx.seed, idx),
                    &json!({"stage": ctx.stage, "seed": ctx.seed, "tier": tier_name(ctx.tier), "idx": idx,
                            "params": ctx.params, "sig": "process-abort", "desc": status, "case": case_desc(idx)}),
                );
                rep.evaluations += 1;
                rep.violation(
                    "process-abort",
                    format!("the process died ({status}) while running case #{idx}: {} — abort, stack overflow or a panic while panicking", short(&case_desc(idx))),
                    replay,
                );
            }
            Outcome::Hang(_, cpu) => {
                let replay = write_replay(
                    ctx,
                    &format!("{}-{}-s{}-i{}-hang", exe_name(), ctx.stage, ctx.seed, idx),
                    &json!({"stage": ctx.stage, "seed": ctx.seed, "tier": tier_name(ctx.tier), "idx": idx,
                            "params": ctx.params, "sig": "cpu-budget-exceeded", "case": case_desc(idx)}),
                );
                rep.evaluations += 1;
                rep.violation(
                    "cpu-budget-exceeded",
                    format!("case #{idx} burned {cpu:.0}s CPU (budget {cpu_budget_s}s) without returning: {}", short(&case_desc(idx))),
                    replay,
                );
            }
            Outcome::WallTimeout(_) => {
                rep.inconclusive.push(format!("case #{idx}: wall-clock watchdog fired (no verdict)"));
            }
            Outcome::Killed(_) => {
                rep.inconclusive.push(format!("case #{idx}: the case process was ended by SIGKILL from outside (out-of-memory killer or operator; no verdict)"));
            }
        }
    }
    if done == 0 && total > 0 {
        rep.floors_unmet.push("no case returned a result".into());
    }
}
