//! Panic monitor: catches unwinding panics of the code under observation and derives a
//! signature that is stable under line shifts and specific to the call site.
//!
//! signature = `<path relative to /repo or crate>|<trimmed text of the source line>|<message with
//! digits normalised>`. For panics whose location is outside /repo (a dependency or std), the first
//! /repo frame of a captured backtrace is used for the path/line part.

use std::{
    cell::RefCell,
    collections::HashMap,
    panic::{self, AssertUnwindSafe},
    sync::{Mutex, Once, OnceLock},
};

#[derive(Clone, Debug)]
pub struct PanicInfo {
    pub file: String,
    pub line: u32,
    pub message: String,
    pub sig: String,
}

thread_local! {
    static LAST: RefCell<Option<PanicInfo>> = const { RefCell::new(None) };
    static ARMED: RefCell<bool> = const { RefCell::new(false) };
}

static INSTALL: Once = Once::new();

fn source_line(file: &str, line: u32) -> String {
    static CACHE: OnceLock<Mutex<HashMap<String, Vec<String>>>> = OnceLock::new();
    let cache = CACHE.get_or_init(|| Mutex::new(HashMap::new()));
    let mut c = cache.lock().unwrap();
    let lines = c.entry(file.to_string()).or_insert_with(|| {
        std::fs::read_to_string(file)
            .map(|s| s.lines().map(|l| l.trim().to_string()).collect())
            .unwrap_or_default()
    });
    lines.get(line.saturating_sub(1) as usize).cloned().unwrap_or_default()
}

pub fn normalise_message(m: &str) -> String {
    // digits -> '#', collapse runs, cut long messages
    let mut out = String::new();
    let mut prev_hash = false;
    for ch in m.chars() {
        if ch.is_ascii_digit() {
            if !prev_hash {
                out.push('#');
            }
            prev_hash = true;
        } else {
            prev_hash = false;
            out.push(if ch == '\n' { ' ' } else { ch });
        }
        if out.len() > 160 {
            break;
        }
    }
    out
}

fn rel(path: &str) -> String {
    if let Some(i) = path.find("/repo/") {
        return path[i + 6..].to_string();
    }
    if let Some(i) = path.find("/registry/src/") {
        // index.crates.io-xxxx/<crate>-<ver>/...
        let rest = &path[i + 14..];
        if let Some(j) = rest.find('/') {
            return format!("dep:{}", &rest[j + 1..]);
        }
    }
    if let Some(i) = path.find("/library/") {
        return format!("std:{}", &path[i + 9..]);
    }
    path.to_string()
}

/// First `/repo/` frame of the current backtrace as `(file, line)`.
fn first_repo_frame() -> Option<(String, u32)> {
    let bt = std::backtrace::Backtrace::force_capture().to_string();
    for l in bt.lines() {
        let l = l.trim();
        if let Some(rest) = l.strip_prefix("at ") {
            if rest.contains("/repo/noodles") {
                let mut it = rest.rsplitn(3, ':');
                let _col = it.next();
                let line = it.next().and_then(|s| s.parse().ok());
                let file = it.next();
                if let (Some(f), Some(n)) = (file, line) {
                    return Some((f.to_string(), n));
                }
            }
        }
    }
    None
}

pub fn install() {
    INSTALL.call_once(|| {
        let default = panic::take_hook();
        panic::set_hook(Box::new(move |info| {
            let armed = ARMED.with(|a| *a.borrow());
            if !armed {
                default(info);
                return;
            }
            let (mut file, mut line) = info
                .location()
                .map(|l| (l.file().to_string(), l.line()))
                .unwrap_or_default();
            let message = if let Some(s) = info.payload().downcast_ref::<&str>() {
                s.to_string()
            } else if let Some(s) = info.payload().downcast_ref::<String>() {
                s.clone()
            } else {
                String::from("<non-string panic payload>")
            };
            let mut via = String::new();
            if !file.contains("/repo/noodles") {
                if let Some((f, n)) = first_repo_frame() {
                    via = format!(" via {}", rel(&file));
                    file = f;
                    line = n;
                }
            }
            let src = source_line(&file, line);
            let sig = format!("{}|{}|{}{}", rel(&file), src, normalise_message(&message), via);
            LAST.with(|l| *l.borrow_mut() = Some(PanicInfo { file, line, message, sig }));
        }));
    });
}

/// Runs `f`, converting an unwinding panic into `Err(PanicInfo)`. Panics raised while not inside
/// `catch` keep the default behaviour (message + abort of the harness thread).
pub fn catch<T>(f: impl FnOnce() -> T) -> Result<T, PanicInfo> {
    install();
    let was = ARMED.with(|a| a.replace(true));
    LAST.with(|l| *l.borrow_mut() = None);
    let r = panic::catch_unwind(AssertUnwindSafe(f));
    ARMED.with(|a| *a.borrow_mut() = was);
    match r {
        Ok(v) => Ok(v),
        Err(_) => Err(LAST.with(|l| l.borrow_mut().take()).unwrap_or(PanicInfo {
            file: String::new(),
            line: 0,
            message: String::from("<panic on another thread or without hook data>"),
            sig: String::from("?|?|<no hook data>"),
        })),
    }
}

/// CPU time consumed by the calling thread, in seconds.
pub fn thread_cpu_s() -> f64 {
    let mut ts = libc::timespec { tv_sec: 0, tv_nsec: 0 };
    unsafe {
        libc::clock_gettime(libc::CLOCK_THREAD_CPUTIME_ID, &mut ts);
    }
    ts.tv_sec as f64 + ts.tv_nsec as f64 * 1e-9
}

/// CPU time consumed by the whole process (user + system), in seconds.
pub fn process_cpu_s() -> f64 {
    let mut ts = libc::timespec { tv_sec: 0, tv_nsec: 0 };
    unsafe {
        libc::clock_gettime(libc::CLOCK_PROCESS_CPUTIME_ID, &mut ts);
    }
    ts.tv_sec as f64 + ts.tv_nsec as f64 * 1e-9
}
