//! Histories that reach the same noodles writers through their OTHER public entry points (the corpus histories use
//! the inherent `try_finish` of each BGZF-backed writer and flush the raw sink themselves):
//!
//! * `trait`   — only the calls of `sam::alignment::io::Write`: `write_alignment_header`, `write_alignment_record`…,
//!               `finish(&header)` ("shuts down an alignment writer"), then the writer is dropped (Bam, BamRaw, Sam,
//!               SamGz, Cram);
//! * `util`    — `noodles_util::alignment::io::Writer` (`write_header`, `write_record`…, `finish(&header)`, drop) for
//!               Sam / SamGz / Bam / BamRaw / Cram and `noodles_util::variant::io::Writer` (`write_header`,
//!               `write_record`…, drop — it has no finishing call) for Vcf / VcfGz / Bcf / BcfRaw;
//! * `builder` — `sam` / `vcf` / `bcf` `io::writer::Builder::build_from_writer` (a `Box<dyn Write>` around a
//!               `BufWriter` or a BGZF writer made inside noodles) and the BED builder (`BufWriter` inside): header,
//!               records, (`finish(&header)` for SAM), `get_mut().flush()`, drop.
//!
//! The phase of every sink call is tracked exactly here (`set_phase` before each writer call; `Probe` records it).

use std::{
    io::{self, Write},
    sync::atomic::{AtomicU8, Ordering},
};

use corpus::{Kind, Model, Prepared};
use noodles_bam as bam;
use noodles_bcf as bcf;
use noodles_bed as bed;
use noodles_bgzf as bgzf;
use noodles_sam as sam;
use noodles_util::{alignment, variant};
use noodles_vcf as vcf;

pub const P_UNKNOWN: u8 = 0;
pub const P_HEADER: u8 = 1;
pub const P_RECORD: u8 = 2;
pub const P_FINISH: u8 = 3;
pub const P_DROP: u8 = 4;

/// One case runs at a time in a process and these histories are single-threaded.
static PHASE: AtomicU8 = AtomicU8::new(P_UNKNOWN);

pub fn set_phase(p: u8) {
    PHASE.store(p, Ordering::SeqCst);
}

pub fn phase() -> u8 {
    PHASE.load(Ordering::SeqCst)
}

fn unsupported() -> io::Error {
    io::Error::new(io::ErrorKind::Unsupported, "c14: history not defined for this kind")
}

pub fn has_trait_history(kind: Kind) -> bool {
    matches!(kind, Kind::Bam | Kind::BamRaw | Kind::Sam | Kind::SamGz | Kind::Cram)
}

pub fn has_util_history(kind: Kind) -> bool {
    matches!(kind, Kind::Sam | Kind::SamGz | Kind::Bam | Kind::BamRaw | Kind::Cram | Kind::Vcf | Kind::VcfGz | Kind::Bcf | Kind::BcfRaw)
}

pub fn has_builder_history(kind: Kind) -> bool {
    matches!(kind, Kind::Sam | Kind::SamGz | Kind::Vcf | Kind::VcfGz | Kind::Bcf | Kind::BcfRaw | Kind::Bed)
}

fn run_alignment_trait<T: sam::alignment::io::Write>(mut w: T, header: &sam::Header, records: &[sam::alignment::RecordBuf]) -> io::Result<()> {
    set_phase(P_HEADER);
    w.write_alignment_header(header)?;
    set_phase(P_RECORD);
    for r in records {
        w.write_alignment_record(header, r)?;
    }
    set_phase(P_FINISH);
    w.finish(header)?;
    set_phase(P_DROP);
    drop(w);
    Ok(())
}

pub fn trait_history<W: Write>(p: &Prepared, sink: W) -> io::Result<()> {
    let Model::Alignment { header, records } = &p.model else { return Err(unsupported()) };
    match p.kind {
        Kind::Bam => run_alignment_trait(bam::io::Writer::new(sink), header, records),
        Kind::BamRaw => run_alignment_trait(bam::io::Writer::from(sink), header, records),
        Kind::Sam => run_alignment_trait(sam::io::Writer::new(sink), header, records),
        Kind::SamGz => run_alignment_trait(sam::io::Writer::new(bgzf::io::Writer::new(sink)), header, records),
        Kind::Cram => {
            let mut b = noodles_cram::io::writer::Builder::default().set_reference_sequence_repository(p.repository.clone());
            if let Some((rps, spc)) = p.cram_layout {
                b = b.verif_set_layout(rps, spc);
            }
            run_alignment_trait(b.build_from_writer(sink), header, records)
        }
        _ => Err(unsupported()),
    }
}

pub fn util_history<W: Write>(p: &Prepared, sink: W) -> io::Result<()> {
    match &p.model {
        Model::Alignment { header, records } => {
            use alignment::io::{CompressionMethod, Format};
            let (format, cm) = match p.kind {
                Kind::Sam => (Format::Sam, None),
                Kind::SamGz => (Format::Sam, Some(CompressionMethod::Bgzf)),
                Kind::Bam => (Format::Bam, Some(CompressionMethod::Bgzf)),
                Kind::BamRaw => (Format::Bam, None),
                Kind::Cram => (Format::Cram, None),
                _ => return Err(unsupported()),
            };
            let mut w = alignment::io::writer::Builder::default()
                .set_format(format)
                .set_compression_method(cm)
                .set_reference_sequence_repository(p.repository.clone())
                .build_from_writer(sink)?;
            set_phase(P_HEADER);
            w.write_header(header)?;
            set_phase(P_RECORD);
            for r in records {
                w.write_record(header, r)?;
            }
            set_phase(P_FINISH);
            w.finish(header)?;
            set_phase(P_DROP);
            drop(w);
            Ok(())
        }
        Model::Variant { header, records } => {
            use variant::io::{CompressionMethod, Format};
            let (format, cm) = match p.kind {
                Kind::Vcf => (Format::Vcf, None),
                Kind::VcfGz => (Format::Vcf, Some(CompressionMethod::Bgzf)),
                Kind::Bcf => (Format::Bcf, Some(CompressionMethod::Bgzf)),
                Kind::BcfRaw => (Format::Bcf, None),
                _ => return Err(unsupported()),
            };
            let mut w = variant::io::writer::Builder::default().set_format(format).set_compression_method(cm).build_from_writer(sink);
            set_phase(P_HEADER);
            w.write_header(header)?;
            set_phase(P_RECORD);
            for r in records {
                w.write_record(header, r)?;
            }
            // no finishing call exists
            set_phase(P_DROP);
            drop(w);
            Ok(())
        }
        _ => Err(unsupported()),
    }
}

macro_rules! bed_builder {
    ($n:literal, $records:expr, $sink:expr) => {{
        let mut w = bed::io::writer::Builder::<$n>::default().build_from_writer($sink);
        set_phase(P_RECORD);
        for r in $records {
            w.write_record(r)?;
        }
        set_phase(P_FINISH);
        w.get_mut().flush()?;
        set_phase(P_DROP);
        drop(w);
        Ok(())
    }};
}

pub fn builder_history<W: Write>(p: &Prepared, sink: W) -> io::Result<()> {
    use sam::alignment::io::Write as _;
    use vcf::variant::io::Write as _;
    match (&p.model, p.kind) {
        (Model::Alignment { header, records }, Kind::Sam | Kind::SamGz) => {
            let cm = if p.kind == Kind::Sam { sam::io::CompressionMethod::None } else { sam::io::CompressionMethod::Bgzf };
            let mut w = sam::io::writer::Builder::default().set_compression_method(cm).build_from_writer(sink);
            set_phase(P_HEADER);
            w.write_header(header)?;
            set_phase(P_RECORD);
            for r in records {
                w.write_alignment_record(header, r)?;
            }
            set_phase(P_FINISH);
            w.finish(header)?;
            w.get_mut().flush()?;
            set_phase(P_DROP);
            drop(w);
            Ok(())
        }
        (Model::Variant { header, records }, Kind::Vcf | Kind::VcfGz) => {
            let cm = if p.kind == Kind::Vcf { vcf::io::CompressionMethod::None } else { vcf::io::CompressionMethod::Bgzf };
            let mut w = vcf::io::writer::Builder::default().set_compression_method(cm).build_from_writer(sink);
            set_phase(P_HEADER);
            w.write_header(header)?;
            set_phase(P_RECORD);
            for r in records {
                w.write_variant_record(header, r)?;
            }
            set_phase(P_FINISH);
            w.get_mut().flush()?;
            set_phase(P_DROP);
            drop(w);
            Ok(())
        }
        (Model::Variant { header, records }, Kind::Bcf | Kind::BcfRaw) => {
            let cm = if p.kind == Kind::BcfRaw { bcf::io::CompressionMethod::None } else { bcf::io::CompressionMethod::Bgzf };
            let mut w = bcf::io::writer::Builder::default().set_compression_method(cm).build_from_writer(sink);
            set_phase(P_HEADER);
            w.write_header(header)?;
            set_phase(P_RECORD);
            for r in records {
                w.write_variant_record(header, r)?;
            }
            set_phase(P_FINISH);
            w.get_mut().flush()?;
            set_phase(P_DROP);
            drop(w);
            Ok(())
        }
        (Model::Bed3(records), _) => bed_builder!(3, records, sink),
        (Model::Bed4(records), _) => bed_builder!(4, records, sink),
        (Model::Bed5(records), _) => bed_builder!(5, records, sink),
        (Model::Bed6(records), _) => bed_builder!(6, records, sink),
        _ => Err(unsupported()),
    }
}

// ---------------------------------------------------------------------------------------------------------------
// path-based convenience writers: `bai / csi / tabix / gzi / fai / crai ::fs::write(dst, &index)`

pub fn has_fs_write(kind: Kind) -> bool {
    matches!(kind, Kind::Bai | Kind::Csi | Kind::Tbi | Kind::Gzi | Kind::Fai | Kind::Crai)
}

/// One call of the `fs::write` function of the index kind.
pub fn fs_write(p: &Prepared, dst: &std::path::Path) -> io::Result<()> {
    match &p.model {
        Model::Bai(index) => bam::bai::fs::write(dst, index),
        Model::Csi(index) => noodles_csi::fs::write(dst, index),
        Model::Tbi(index) => noodles_tabix::fs::write(dst, index),
        Model::Gzi(index) => bgzf::gzi::fs::write(dst, index),
        Model::Fai(index) => noodles_fasta::fai::fs::write(dst, index),
        Model::Crai(index) => noodles_cram::crai::fs::write(dst, index),
        _ => Err(unsupported()),
    }
}

/// Runs `f` with the soft RLIMIT_FSIZE of the process lowered to `limit` bytes: a write to a regular file that
/// would grow it beyond the limit is cut short, the next one fails with EFBIG — what a full disk does (ENOSPC), at
/// a byte offset of our choosing. SIGXFSZ is ignored for the rest of the process (its default action kills it).
pub fn with_file_size_limit<T>(limit: u64, f: impl FnOnce() -> T) -> io::Result<T> {
    unsafe {
        libc::signal(libc::SIGXFSZ, libc::SIG_IGN);
        let mut old = libc::rlimit { rlim_cur: 0, rlim_max: 0 };
        if libc::getrlimit(libc::RLIMIT_FSIZE, &mut old) != 0 {
            return Err(io::Error::last_os_error());
        }
        let new = libc::rlimit { rlim_cur: (limit as libc::rlim_t).min(old.rlim_max), rlim_max: old.rlim_max };
        if libc::setrlimit(libc::RLIMIT_FSIZE, &new) != 0 {
            return Err(io::Error::last_os_error());
        }
        let r = f();
        if libc::setrlimit(libc::RLIMIT_FSIZE, &old) != 0 {
            // never continue with a crippled process
            eprintln!("c14: cannot restore RLIMIT_FSIZE: {}", io::Error::last_os_error());
            libc::_exit(4);
        }
        Ok(r)
    }
}
