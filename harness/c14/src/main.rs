//! C14 — stub (to be implemented).

fn main() {
    eprintln!("c14: not implemented");
    std::process::exit(2);
}
