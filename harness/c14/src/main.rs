//! C14 — writers never hide a sink failure and tolerate short writes.
//!
//! Monitor: every canonical write history of the corpus crate (one per writable item of every writer kind; the
//! BGZF items additionally through `MultithreadedWriter` and through a writer that is dropped without `finish`)
//! is replayed on `vcore::adv::FaultyWrite` sinks:
//!
//! (a) healthy sink: every call Ok, sink bytes == `item.bytes` (CRAM: equal transcripts, equal length);
//!     N = number of sink calls (write + flush);
//! (b) for EVERY k in 0..N the history is replayed on a sink whose call k fails, once sticky and once transient,
//!     error kinds rotating over `ERROR_KINDS`: REFUTED iff the sink returned an error to noodles but every
//!     writer call of the history (finishing call included) returned Ok; whenever all calls returned Ok the sink
//!     content must decode to the transcript of `item.bytes`. For histories of moderate length the same enumeration
//!     is repeated on a sink that accepts half of every buffer (every k of THAT healthy run, sticky), so that the
//!     continuation writes of `write_all` loops fail as well;
//! (c) short-write sinks (1 byte, 7 bytes, half, random) and sinks that return `Interrupted` before write calls
//!     (first, every 3rd, random quarter, every; every 2nd combined with 3-byte writes): all calls Ok, output
//!     byte-identical to the healthy output (CRAM: equal length and transcripts);
//! (d) a BGZF writer dropped without `finish` on a healthy sink leaves a walkable file with the complete payload and
//!     the EOF marker; on a failing sink (every k) the drop does not panic, and a failure that happened during the
//!     explicit write/flush calls is reported by one of them.
//!
//! (e) every error kind meets every phase: the three (thorough: four) longest histories of each writer below a size
//!     cap get EVERY `ERROR_KINDS` entry, sticky and transient, at every k (floors per kind x phase and per kind x
//!     part of a BGZF block frame: frame header, CDATA, trailer, EOF marker);
//! (f) staging destination (`FaultyWrite::with_staging`: written bytes are committed by a successful flush only):
//!     every flush call of the healthy run is preceded by 1/2/3/4/7 consecutive `Interrupted` results, or fails with
//!     every error kind (sticky, transient). Retrying and returning the error are both fine; whenever ALL calls return
//!     Ok the committed (and the staged) bytes must be those of a healthy staging run. Histories that never flush the
//!     destination are counted and not judged. On the unchanged tree every judged writer returns Err(Interrupted).
//!
//! (g) end sequences (module `end`): single- and multithreaded BGZF writers and every writer whose Drop finishes a
//!     BGZF stream (bam, bcf, sam.gz, vcf.gz, csi, tabix) are driven through try_finish / flush in the middle, twice,
//!     on an empty writer, followed by small or block-filling writes (exactly limit / limit+1 bytes), then DROPPED, on
//!     healthy and short-write sinks: the destination must inflate to everything written and end with the EOF marker;
//! (h) block-boundary sweep (module `sweep`): a write into a BGZF writer can only fail when it makes the staging
//!     buffer reach the block limit (measured, `end::bgzf_limit`), so synthetic CSI / tabix indexes (boundary on every
//!     byte of the final 64 bytes) and BAM / BCF / SAM.gz / VCF.gz files (boundary on 64 offsets around the end of the
//!     header and the first record) are padded so that every small field write triggers the block write once; every
//!     sink call of these histories is failed as in (b).
//!
//! The same checks run on histories that reach the writers through their other public entry points (module
//! `alt`): the `sam::alignment::io::Write` trait alone (`finish(&header)` as the finishing call), the
//! `noodles_util` alignment / variant writers, and the `io::writer::Builder`s that put a `BufWriter` or a boxed BGZF
//! writer between the format writer and the sink.
//!
//! A panic anywhere is a violation (`guard::catch`; a panic while unwinding aborts the child process and is
//! attributed to the case by the runner as `process-abort`).
//!
//! Violation signatures: `<writer>:<class>:<phase>` with writer = corpus kind name (`bgzf-mt` / `bgzf-drop` for the
//! two extra BGZF drivers, `<kind>@trait|util|builder` for the other entry points), class ∈ {swallowed-sink-error,
//! not-ok-on-healthy-sink, output-differs-on-healthy-sink, output-differs-under-short-writes,
//! error-under-short-writes, output-differs-under-interrupts, error-under-interrupts, output-undecodable-after-ok,
//! drop-loses-data, panic}, phase ∈ {header, record, finish, eof-marker} = what the failing sink call was emitting in
//! the healthy run (corpus histories: derived from the byte offset of the call in the healthy output, see
//! `phase_map`; `alt` histories: the writer call in progress, announced by the history itself; a sink call made
//! inside `Drop` is `eof-marker` if it emits the end marker and `finish` otherwise), or the phase of the first
//! differing byte.

mod alt;
mod end;
mod sweep;

use std::{
    collections::{BTreeMap, BTreeSet},
    io::{self, Write},
    sync::{Arc, Mutex},
};

use corpus::{Item, Kind, Model, Prepared};
use noodles_bgzf as bgzf;
use serde_json::{Value, json};
use vcore::{
    CaseOut, Ctx, Report, Rng,
    adv::{Accept, ERROR_KINDS, FaultMode, FaultyWrite, Injected, is_injected},
    bgzf as obgzf, guard,
    rng::fnv1a,
    run_cases,
};

// ---------------------------------------------------------------------------------------------------------------
// histories

#[derive(Clone, Copy, Debug, PartialEq, Eq, PartialOrd, Ord)]
enum Drive {
    /// `corpus::write_prepared` (the canonical history of the kind)
    Std,
    /// `corpus::write_history_bgzf_mt` (Kind::Bgzf through `MultithreadedWriter`)
    BgzfMt,
    /// Kind::Bgzf, writer dropped without finish
    BgzfDrop,
    /// Kind::Bgzf, `MultithreadedWriter` dropped without finish
    BgzfMtDrop,
    /// only the calls of `sam::alignment::io::Write` (finish(&header) is the finishing call), then drop
    Trait,
    /// `noodles_util::{alignment, variant}::io::Writer`
    Util,
    /// the format crate's `io::writer::Builder::build_from_writer` (buffering layer created inside noodles)
    Builder,
    /// index kinds: one call of `<crate>::fs::write(path, &index)` on a real file whose growth the OS refuses at a
    /// chosen byte offset (RLIMIT_FSIZE) or from the start (/dev/full)
    Fs,
}

impl Drive {
    fn name(self) -> &'static str {
        match self {
            Drive::Std => "std",
            Drive::BgzfMt => "mt",
            Drive::BgzfDrop => "drop",
            Drive::BgzfMtDrop => "mt-drop",
            Drive::Trait => "trait",
            Drive::Util => "util",
            Drive::Builder => "builder",
            Drive::Fs => "fs",
        }
    }
}

struct Hist {
    item: usize,
    drive: Drive,
    /// sink calls of the healthy run made while generating the cases (0 if the healthy run failed)
    n: usize,
    /// sink calls of the healthy run on a sink that accepts half of every buffer (0 = not enumerated)
    n_half: usize,
    /// every k is failed with EVERY error kind (sticky and transient) instead of two rotating kinds
    all_kinds: bool,
    /// block-boundary sweep item
    sweep: Option<Sweep>,
}

#[derive(Clone, Copy, Debug)]
enum Sweep {
    /// index writers: the BGZF block boundary lies this many bytes before the end of the serialized index
    Tail(usize),
    /// record writers: the boundary lies at inflated offset header_end - sweep::BEFORE + j
    HeaderEnd(usize),
}

impl Hist {
    fn writer_name(&self, items: &[Item]) -> String {
        writer_name(items[self.item].kind, self.drive)
    }
}

fn writer_name(kind: Kind, drive: Drive) -> String {
    match drive {
        Drive::Std => kind.name().to_string(),
        Drive::BgzfMt => "bgzf-mt".to_string(),
        Drive::BgzfDrop => "bgzf-drop".to_string(),
        Drive::BgzfMtDrop => "bgzf-mt-drop".to_string(),
        Drive::Trait => format!("{}@trait", kind.name()),
        Drive::Util => format!("{}@util", kind.name()),
        Drive::Builder => format!("{}@builder", kind.name()),
        Drive::Fs => format!("{}@fs", kind.name()),
    }
}

fn drives_of(kind: Kind) -> Vec<Drive> {
    let mut v = vec![Drive::Std];
    if kind == Kind::Bgzf {
        v.push(Drive::BgzfMt);
        v.push(Drive::BgzfDrop);
        v.push(Drive::BgzfMtDrop);
    }
    if alt::has_trait_history(kind) {
        v.push(Drive::Trait);
    }
    if alt::has_util_history(kind) {
        v.push(Drive::Util);
    }
    if alt::has_builder_history(kind) {
        v.push(Drive::Builder);
    }
    if alt::has_fs_write(kind) {
        v.push(Drive::Fs);
    }
    v
}

#[derive(Clone, Debug)]
enum Part {
    /// healthy run, short-write patterns, Interrupted patterns (and the healthy drop check)
    Base,
    /// failing sink call k for every k in lo..hi (sticky and transient)
    Faults { lo: usize, hi: usize },
    /// the same on a sink that accepts half of every buffer (so that continuation writes of a `write_all` loop
    /// fail as well): sticky failure of call k for every k in lo..hi of the healthy half-accepting run
    FaultsHalf { lo: usize, hi: usize },
    /// a destination that STAGES written bytes until a successful flush: every flush call of the healthy run is
    /// preceded by n consecutive `Interrupted` results (n = 1, 2, 3, 4, 7) or fails (every error kind, sticky and
    /// transient); whenever all calls return Ok the committed bytes must be what a healthy staging run commits
    Staging,
    /// call sequences around the end of a BGZF-backed writer that is then dropped (module `end`)
    EndSeq,
}

struct Case {
    hist: usize,
    part: Part,
}

/// A sink that records, for every call, whether it was a flush and how many bytes had been accepted before it.
#[derive(Clone, Default)]
struct Probe {
    log: Arc<Mutex<ProbeLog>>,
    /// accept half of every buffer (like `Accept::Half`)
    half: bool,
}

#[derive(Clone, Copy, Debug)]
struct Call {
    flush: bool,
    /// bytes accepted before the call
    off: usize,
    /// phase announced by the history (alt drives; 0 = not tracked)
    tracked: u8,
}

#[derive(Default)]
struct ProbeLog {
    bytes: Vec<u8>,
    calls: Vec<Call>,
}

impl Write for Probe {
    fn write(&mut self, buf: &[u8]) -> io::Result<usize> {
        let mut l = self.log.lock().unwrap();
        let off = l.bytes.len();
        l.calls.push(Call { flush: false, off, tracked: alt::phase() });
        let n = if self.half && !buf.is_empty() { (buf.len() / 2).max(1) } else { buf.len() };
        l.bytes.extend_from_slice(&buf[..n]);
        Ok(n)
    }

    fn flush(&mut self) -> io::Result<()> {
        let mut l = self.log.lock().unwrap();
        let off = l.bytes.len();
        l.calls.push(Call { flush: true, off, tracked: alt::phase() });
        Ok(())
    }
}

fn bgzf_ops<W: Write>(w: &mut W, payload: &[u8], ops: &[corpus::BgzfOp]) -> io::Result<()> {
    let mut off = 0usize;
    for op in ops {
        match *op {
            corpus::BgzfOp::Write(n) => {
                let end = (off + n).min(payload.len());
                w.write_all(&payload[off..end])?;
                off = end;
            }
            corpus::BgzfOp::Flush => w.flush()?,
        }
    }
    if off < payload.len() {
        w.write_all(&payload[off..])?;
    }
    Ok(())
}

/// The same calls as `corpus::write_history_bgzf_drop`, with a hook between the last explicit call and the drop
/// (so that the monitor knows how many sink calls were made by explicit calls and how many by `Drop`).
fn bgzf_drop_history<W: Write>(p: &Prepared, sink: W, before_drop: impl FnOnce()) -> io::Result<()> {
    let Model::Bgzf { payload, ops } = &p.model else {
        return Err(io::Error::new(io::ErrorKind::Unsupported, "c14: not a bgzf model"));
    };
    let mut w = bgzf::io::Writer::new(sink);
    let r = bgzf_ops(&mut w, payload, ops);
    before_drop();
    drop(w);
    r
}

/// The same with `MultithreadedWriter` (the corpus has no driver for it).
fn bgzf_mt_drop_history<W: Write + Send + 'static>(p: &Prepared, sink: W, before_drop: impl FnOnce()) -> io::Result<()> {
    let Model::Bgzf { payload, ops } = &p.model else {
        return Err(io::Error::new(io::ErrorKind::Unsupported, "c14: not a bgzf model"));
    };
    let mut w = bgzf::io::MultithreadedWriter::new(sink);
    let r = bgzf_ops(&mut w, payload, ops);
    before_drop();
    drop(w);
    r
}

/// Replays the history on `sink`. Never catches panics (callers wrap it in `guard::catch`).
fn drive<W: Write + Send + 'static>(item: &Item, p: &Prepared, d: Drive, sink: W, before_drop: impl FnOnce()) -> io::Result<()> {
    alt::set_phase(alt::P_UNKNOWN);
    match d {
        Drive::Std => corpus::write_prepared(p, sink),
        Drive::BgzfMt => corpus::write_history_bgzf_mt(item, sink),
        Drive::BgzfDrop => bgzf_drop_history(p, sink, before_drop),
        Drive::BgzfMtDrop => bgzf_mt_drop_history(p, sink, before_drop),
        Drive::Trait => alt::trait_history(p, sink),
        Drive::Util => alt::util_history(p, sink),
        Drive::Builder => alt::builder_history(p, sink),
        Drive::Fs => Err(io::Error::new(io::ErrorKind::Unsupported, "c14: fs::write takes a path, not a sink")),
    }
}

struct Healthy {
    bytes: Vec<u8>,
    calls: Vec<Call>,
}

fn probe_run(item: &Item, p: &Prepared, d: Drive, half: bool) -> Result<Healthy, String> {
    let probe = Probe { half, ..Probe::default() };
    let r = guard::catch(|| drive(item, p, d, probe.clone(), || {}));
    match r {
        Err(pi) => Err(format!("panic: {} ({})", pi.message, pi.sig)),
        Ok(Err(e)) => Err(format!("error: {:?}: {e}", e.kind())),
        Ok(Ok(())) => {
            let mut l = probe.log.lock().unwrap();
            Ok(Healthy { bytes: std::mem::take(&mut l.bytes), calls: std::mem::take(&mut l.calls) })
        }
    }
}

// ---------------------------------------------------------------------------------------------------------------
// phases

const PH_HEADER: &str = "header";
const PH_RECORD: &str = "record";
const PH_FINISH: &str = "finish";
const PH_EOF: &str = "eof-marker";

/// Byte ranges of the healthy output: `[0, header_end)` header, `[header_end, finish_start)` records,
/// `[finish_start, eof_start)` what the finishing call emits besides the end marker, `[eof_start, len)` end marker.
struct PhaseMap {
    header_end: usize,
    finish_start: usize,
    eof_start: usize,
    len: usize,
    /// BGZF-wrapped kinds: (offset, size, is EOF marker) of every member of the healthy output
    members: Vec<(usize, usize, bool)>,
}

impl PhaseMap {
    fn at(&self, off: usize) -> &'static str {
        if off >= self.eof_start && self.eof_start < self.len {
            PH_EOF
        } else if off >= self.finish_start {
            PH_FINISH
        } else if off < self.header_end {
            PH_HEADER
        } else {
            PH_RECORD
        }
    }

    /// BGZF-wrapped kinds: which part of a block frame the byte at `off` belongs to.
    fn frame_part(&self, off: usize) -> Option<&'static str> {
        let &(start, size, eof) = self.members.iter().find(|m| off >= m.0 && off < m.0 + m.1)?;
        Some(if eof {
            "eof-marker"
        } else if off - start < 18 {
            "frame-header"
        } else if off - start < size - 8 {
            "frame-cdata"
        } else {
            "frame-trailer"
        })
    }

    fn of_call(&self, calls: &[Call], k: usize) -> &'static str {
        match calls.get(k) {
            None => PH_FINISH,
            // the history announced what it was calling (alt drives)
            Some(c) if c.tracked == alt::P_HEADER => PH_HEADER,
            Some(c) if c.tracked == alt::P_RECORD => PH_RECORD,
            Some(c) if c.tracked == alt::P_FINISH => PH_FINISH,
            // inside Drop: the end marker, or whatever else was still buffered
            Some(c) if c.tracked == alt::P_DROP => {
                if c.off >= self.eof_start && self.eof_start < self.len { PH_EOF } else { PH_FINISH }
            }
            // the trailing flush of the sink is part of finishing
            Some(c) if c.flush && k + 1 == calls.len() => PH_FINISH,
            Some(c) => self.at(c.off),
        }
    }
}

fn text_header_end(bytes: &[u8], lead: u8) -> usize {
    let mut p = 0usize;
    while p < bytes.len() && bytes[p] == lead {
        match bytes[p..].iter().position(|&b| b == b'\n') {
            Some(i) => p += i + 1,
            None => return bytes.len(),
        }
    }
    p
}

/// Derived from the healthy output of THIS run (CRAM bytes differ from run to run, the container sizes do not).
fn phase_map(item: &Item, _d: Drive, out: &[u8]) -> PhaseMap {
    let len = out.len();
    let kind = item.kind;
    if kind.is_bgzf_wrapped() {
        let Ok(w) = obgzf::walk(out) else {
            return PhaseMap { header_end: 0, finish_start: len, eof_start: len, len, members: Vec::new() };
        };
        let data: Vec<&obgzf::Member> = w.members.iter().filter(|m| !m.is_eof_marker).collect();
        let eof_start = match w.members.last() {
            Some(m) if m.is_eof_marker => m.offset as usize,
            _ => len,
        };
        // the last data member is what the finishing call (or Drop) flushes in the canonical histories
        let finish_start = data.last().map(|m| m.offset as usize).unwrap_or(eof_start);
        // members that hold header bytes of the inflated stream
        let payload = w.concat();
        let inflated_header_end = match kind {
            Kind::Bam => corpus::bounds::bam_record_offsets(&payload).and_then(|v| v.first().copied()).unwrap_or(0),
            Kind::Bcf => corpus::bounds::bcf_record_offsets(&payload).and_then(|v| v.first().copied()).unwrap_or(0),
            Kind::SamGz => text_header_end(&payload, b'@'),
            Kind::VcfGz => text_header_end(&payload, b'#'),
            _ => 0,
        };
        let mut header_end = 0usize;
        let mut u = 0usize;
        for m in &data {
            if u < inflated_header_end {
                header_end = (m.offset + m.size) as usize;
            }
            u += m.data.len();
        }
        let members = w.members.iter().map(|m| (m.offset as usize, m.size as usize, m.is_eof_marker)).collect();
        return PhaseMap { header_end, finish_start, eof_start, len, members };
    }
    match kind {
        Kind::Cram => {
            let l = corpus::cram_layout(out);
            let c = &l.containers;
            let eof_start = if c.len() >= 2 { *c.last().unwrap() } else { len };
            let header_end = if c.len() >= 2 { c[1] } else { len };
            let finish_start = if c.len() >= 3 { c[c.len() - 2] } else { eof_start };
            PhaseMap { header_end, finish_start: finish_start.max(header_end), eof_start, len, members: Vec::new() }
        }
        // one gzip member; the deflate stream and the trailer (for an index without records: the gzip header too)
        // come out of finish(): every sink call is labelled finish
        Kind::Crai => PhaseMap { header_end: 0, finish_start: 0, eof_start: len, len, members: Vec::new() },
        Kind::Sam => PhaseMap { header_end: text_header_end(out, b'@'), finish_start: len, eof_start: len, len, members: Vec::new() },
        Kind::Vcf => PhaseMap { header_end: text_header_end(out, b'#'), finish_start: len, eof_start: len, len, members: Vec::new() },
        Kind::BamRaw => PhaseMap {
            header_end: corpus::bounds::bam_record_offsets(out).and_then(|v| v.first().copied()).unwrap_or(0),
            finish_start: len,
            eof_start: len,
            len,
            members: Vec::new(),
        },
        Kind::BcfRaw => PhaseMap {
            header_end: corpus::bounds::bcf_record_offsets(out).and_then(|v| v.first().copied()).unwrap_or(0),
            finish_start: len,
            eof_start: len,
            len,
            members: Vec::new(),
        },
        _ => PhaseMap { header_end: 0, finish_start: len, eof_start: len, len, members: Vec::new() },
    }
}

// ---------------------------------------------------------------------------------------------------------------
// judging

fn first_diff(a: &[u8], b: &[u8]) -> usize {
    a.iter().zip(b).position(|(x, y)| x != y).unwrap_or(a.len().min(b.len()))
}

/// Transcript without the BGZF virtual positions (they depend on the block layout, not on the content).
fn content_transcript(item: &Item, bytes: &[u8]) -> Result<Vec<String>, String> {
    let t = guard::catch(|| corpus::transcript_read(item.kind, bytes, &item.side, false));
    match t {
        Err(p) => Err(format!("reader panicked: {}", p.message)),
        // C: = CRAM container headers (layout, not content)
        Ok(t) => Ok(t.into_iter().filter(|e| !e.starts_with("V:") && !e.starts_with("C:")).collect()),
    }
}

/// `Ok(())` if `got` holds a complete file that decodes to what `want` (the healthy output) decodes to.
fn decodes_equal(item: &Item, want: &[u8], got: &[u8]) -> Result<(), String> {
    if got == want {
        return Ok(());
    }
    let a = content_transcript(item, want)?;
    let b = content_transcript(item, got)?;
    if b.last().map(|s| s.as_str()) != Some("END") {
        return Err(format!("the sink content does not read to a clean end: last element {:?} ({:?})", b.last(), corpus::last_error_message()));
    }
    if a != b {
        let at = a.iter().zip(&b).position(|(x, y)| x != y).unwrap_or(a.len().min(b.len()));
        return Err(format!(
            "transcripts differ at element {at} of {}/{}: expected {:?}, sink content gives {:?}",
            a.len(),
            b.len(),
            a.get(at).map(|s| s.chars().take(120).collect::<String>()),
            b.get(at).map(|s| s.chars().take(120).collect::<String>())
        ));
    }
    if item.kind.is_bgzf_wrapped() && !obgzf::walk(got).map(|w| w.ends_with_eof_marker()).unwrap_or(false) {
        return Err("the sink content is not a walkable BGZF file ending with the EOF marker".into());
    }
    Ok(())
}

/// Is the injected error somewhere in the source chain of `e`?
fn wraps_injected(e: &io::Error) -> bool {
    let mut cur: Option<&(dyn std::error::Error + 'static)> = e.get_ref().map(|r| r as &(dyn std::error::Error + 'static));
    let mut depth = 0;
    while let Some(c) = cur {
        if c.is::<Injected>() {
            return true;
        }
        if let Some(ioe) = c.downcast_ref::<io::Error>() {
            if is_injected(ioe) {
                return true;
            }
        }
        depth += 1;
        if depth > 16 {
            break;
        }
        cur = c.source();
    }
    false
}

struct Viol {
    per_sig: BTreeMap<String, usize>,
}

impl Viol {
    fn new() -> Self {
        Viol { per_sig: BTreeMap::new() }
    }

    /// Keeps at most two witnesses per signature and case; the rest is counted.
    fn add(&mut self, o: &mut CaseOut, sig: String, desc: String, witness: Value) {
        let n = self.per_sig.entry(sig.clone()).or_insert(0);
        *n += 1;
        if *n <= 2 {
            o.violation_with(sig, desc, witness);
        } else {
            o.count("violations_beyond_two_per_signature_and_case", 1);
        }
    }
}

fn mode_name(m: FaultMode) -> &'static str {
    match m {
        FaultMode::None => "none",
        FaultMode::Transient(_) => "transient",
        FaultMode::Sticky(_) => "sticky",
    }
}

struct HCtx<'a> {
    item: &'a Item,
    prepared: &'a Prepared,
    drive: Drive,
    writer: String,
    healthy: &'a Healthy,
    phases: &'a PhaseMap,
}

/// One replay on a scripted sink: result of the history, the sink, sink calls made before the drop (BgzfDrop).
fn replay(h: &HCtx, sink: &FaultyWrite) -> (Result<io::Result<()>, guard::PanicInfo>, Option<(usize, usize)>) {
    let mark: Arc<Mutex<Option<(usize, usize)>>> = Arc::new(Mutex::new(None));
    let m2 = mark.clone();
    let log = sink.log.clone();
    let r = guard::catch(|| {
        drive(h.item, h.prepared, h.drive, sink.clone(), move || {
            let l = log.lock().unwrap();
            *m2.lock().unwrap() = Some((l.calls, l.errors_returned));
        })
    });
    let m = *mark.lock().unwrap();
    (r, m)
}

/// `half`: the sink accepts half of every buffer (`h.healthy` is then the healthy run on such a sink).
fn run_fault(h: &HCtx, k: usize, mode: FaultMode, ekind: io::ErrorKind, half: bool, o: &mut CaseOut, v: &mut Viol) {
    let n = h.healthy.calls.len();
    let phase = h.phases.of_call(&h.healthy.calls, k);
    let sink = FaultyWrite::new(mode, ekind, if half { Accept::Half } else { Accept::All });
    let (res, mark) = replay(h, &sink);
    let (errors_returned, first_error_call, calls_made) = {
        let l = sink.log.lock().unwrap();
        (l.errors_returned, l.first_error_call, l.calls)
    };
    let w = &h.writer;
    o.count(if half { "fault_runs_on_half_accepting_sink" } else { "fault_runs" }, 1);
    o.count(&format!("fault_runs_by_error_kind[{ekind:?}]"), 1);
    o.count(&format!("fault_runs_by_phase[{phase}]"), 1);
    o.count(&format!("fault_runs_by_error_kind_and_phase[{ekind:?}|{phase}]"), 1);
    if let Some(part) = h.healthy.calls.get(k).filter(|c| !c.flush).and_then(|c| h.phases.frame_part(c.off)) {
        o.count(&format!("fault_runs_by_error_kind_and_bgzf_frame_part[{ekind:?}|{part}]"), 1);
    }
    let witness = || {
        json!({"writer": w, "item": h.item.name, "k": k, "n": n, "mode": mode_name(mode), "error_kind": format!("{ekind:?}"), "sink_accepts_half_of_every_buffer": half,
               "phase": phase, "offset_of_call_in_healthy_output": h.healthy.calls.get(k).map(|c| c.off),
               "call_is_flush": h.healthy.calls.get(k).map(|c| c.flush), "errors_returned_by_sink": errors_returned,
               "sink_calls_made": calls_made})
    };
    let outcome;
    match res {
        Err(p) => {
            outcome = "panic";
            v.add(
                o,
                format!("{w}:panic:{phase}:{}", p.sig),
                format!(
                    "{w} history of {}: sink call {k} of {n} ({phase}, {} {ekind:?}) failed and noodles panicked: {} at {}:{}",
                    h.item.name,
                    mode_name(mode),
                    p.message,
                    p.file,
                    p.line
                ),
                witness(),
            );
        }
        Ok(Ok(())) => {
            // BgzfDrop: only failures that happened during explicit calls can be reported by a call
            let reportable_errors = match (h.drive, mark) {
                (Drive::BgzfDrop, Some((_, errs_before_drop))) => errs_before_drop,
                // the sink lives on the background thread: its failure reaches the caller asynchronously, at the
                // latest through finish() — which a dropped writer calls itself, discarding the result
                (Drive::BgzfMtDrop, _) => 0,
                _ => errors_returned,
            };
            if reportable_errors > 0 {
                outcome = "swallowed";
                v.add(
                    o,
                    format!("{w}:swallowed-sink-error:{phase}"),
                    format!(
                        "{w} history of {}{}: sink call {k} of {n} ({}, byte offset {:?} of the healthy output, phase {phase}) failed with {} {ekind:?}; \
                         the sink returned {errors_returned} error(s) to noodles (first at call {first_error_call:?}) but every writer call of the \
                         history, the finishing call included, returned Ok; the sink holds {} of {} bytes",
                        h.item.name,
                        if half { " on a sink that accepts half of every buffer" } else { "" },
                        if h.healthy.calls.get(k).map(|c| c.flush).unwrap_or(false) { "a flush" } else { "a write" },
                        h.healthy.calls.get(k).map(|c| c.off),
                        mode_name(mode),
                        sink.log.lock().unwrap().bytes.len(),
                        h.healthy.bytes.len()
                    ),
                    witness(),
                );
            } else if errors_returned > 0 {
                // failure inside Drop of a BGZF writer: no call is left to report it
                outcome = "failed-in-drop";
                o.count("bgzf_drop_failures_inside_drop_not_reportable", 1);
            } else {
                outcome = "not-reached";
                o.count("fault_positions_not_reached", 1);
                // all calls Ok: the destination must hold the complete file
                let got = sink.bytes();
                let complete = decodes_equal(h.item, &h.healthy.bytes, &got);
                if let Err(why) = complete {
                    let at = first_diff(&got, &h.healthy.bytes);
                    v.add(
                        o,
                        format!("{w}:output-undecodable-after-ok:{}", h.phases.at(at)),
                        format!(
                            "{w} history of {}: with sink call {k} scripted to fail (never reached, {calls_made} calls made) all calls returned Ok \
                             but the sink content is not the complete file: {why}",
                            h.item.name
                        ),
                        witness(),
                    );
                }
            }
        }
        Ok(Err(e)) => {
            if errors_returned == 0 {
                outcome = "error-without-sink-failure";
                o.count("histories_failing_without_sink_failure", 1);
                o.inconclusive.push(format!(
                    "{w} history of {} returned {:?} ({e}) although the sink never failed (fault scripted at call {k}, {calls_made} calls made)",
                    h.item.name,
                    e.kind()
                ));
            } else if is_injected(&e) {
                outcome = "surfaced";
                o.count("faults_surfaced_as_the_injected_error", 1);
            } else if wraps_injected(&e) {
                outcome = "surfaced-wrapped";
                o.count("faults_surfaced_wrapped_in_another_error", 1);
                o.count(&format!("faults_surfaced_wrapped_in_another_error[{w}->{:?}]", e.kind()), 1);
            } else {
                outcome = "surfaced-other";
                o.count("faults_surfaced_as_other_error", 1);
                o.count(&format!("faults_surfaced_as_other_error[{w}:{:?}->{:?}]", ekind, e.kind()), 1);
            }
            if e.kind() != ekind && errors_returned > 0 {
                o.count("faults_surfaced_with_a_different_error_kind", 1);
            }
        }
    }
    o.fps.push(fnv1a(format!("F|{w}|{phase}|{}|{ekind:?}|{outcome}|{half}", mode_name(mode)).as_bytes()));
}

/// Committed bytes of a staging run equal the reference (CRAM: same length, and the same content once complete).
fn same_commit(h: &HCtx, ref_commit: &[u8], ref_staged: usize, got: &[u8]) -> Result<(), String> {
    if h.item.write_bytes_deterministic() {
        if got == ref_commit {
            Ok(())
        } else {
            Err(format!("{} committed bytes instead of {}, first difference at byte {}", got.len(), ref_commit.len(), first_diff(got, ref_commit)))
        }
    } else if got.len() != ref_commit.len() {
        Err(format!("{} committed bytes instead of {}", got.len(), ref_commit.len()))
    } else if ref_staged == 0 {
        decodes_equal(h.item, &h.healthy.bytes, got)
    } else {
        Ok(())
    }
}

/// Part "interrupted / staging": the destination stages written bytes until a successful flush (a BufWriter, a
/// transactional sink). Only writers whose healthy history flushes the destination are judged; what is required is
/// the statement itself: an `Interrupted` / failing flush is either retried, or some call returns an Err; whenever
/// ALL calls return Ok the destination has committed exactly what a healthy run commits.
fn run_staging(h: &HCtx, o: &mut CaseOut, v: &mut Viol) {
    let w = h.writer.clone();
    let flush_calls: Vec<usize> = h.healthy.calls.iter().enumerate().filter(|(_, c)| c.flush).map(|(k, _)| k).collect();
    o.fp = fnv1a(format!("ST|{w}|{}", h.item.name).as_bytes());
    if flush_calls.is_empty() {
        // nothing is ever committed by this history: out of this sub-check
        o.count("staging_histories_that_never_flush_the_destination", 1);
        o.count(&format!("staging_histories_that_never_flush_the_destination[{w}]"), 1);
        return;
    }
    // reference: healthy staging run
    let (ref_commit, ref_staged) = {
        let sink = FaultyWrite::healthy().with_staging();
        let (res, _) = replay(h, &sink);
        o.evaluations += 1;
        match res {
            Ok(Ok(())) => (sink.bytes(), sink.staged_len()),
            Ok(Err(e)) => {
                v.add(o, format!("{w}:not-ok-on-healthy-sink:{PH_FINISH}"), format!("{w} history of {} on a healthy staging sink returned {:?}: {e}", h.item.name, e.kind()), Value::Null);
                return;
            }
            Err(p) => {
                v.add(o, format!("{w}:panic:{PH_FINISH}:{}", p.sig), format!("{w} history of {} on a healthy staging sink panicked: {}", h.item.name, p.message), Value::Null);
                return;
            }
        }
    };
    o.count("staging_histories_judged", 1);
    o.count(&format!("staging_histories_judged[{w}]"), 1);
    if h.healthy.calls.last().map(|c| c.flush).unwrap_or(false) {
        // the history ends with a flush of the destination: everything must be committed
        o.count("staging_histories_ending_with_a_flush", 1);
        if ref_staged != 0 || ref_commit.len() != h.healthy.bytes.len() {
            v.add(
                o,
                format!("{w}:uncommitted-after-final-flush:{PH_FINISH}"),
                format!("{w} history of {} on a healthy staging sink ends with a flush but {} bytes are committed and {ref_staged} staged (healthy output: {} bytes)", h.item.name, ref_commit.len(), h.healthy.bytes.len()),
                Value::Null,
            );
        }
    }
    // every flush call for short lists, the first and last 16 otherwise
    let chosen: Vec<usize> = if flush_calls.len() <= 32 { (0..flush_calls.len()).collect() } else { (0..16).chain(flush_calls.len() - 16..flush_calls.len()).collect() };
    if chosen.len() < flush_calls.len() {
        o.count("staging_flush_calls_not_enumerated", (flush_calls.len() - chosen.len()) as u64);
    }
    for &i in &chosen {
        let k = flush_calls[i];
        let phase = h.phases.of_call(&h.healthy.calls, k);
        // (1) n consecutive Interrupted results before flush call i
        for n in [1usize, 2, 3, 4, 7] {
            let sink = FaultyWrite::healthy().with_staging().with_flush_interrupts([(i, n)]);
            let (res, _) = replay(h, &sink);
            o.evaluations += 1;
            o.count("staging_flush_interrupt_runs", 1);
            o.count(&format!("staging_flush_interrupt_runs[n={n}]"), 1);
            let delivered = sink.log.lock().unwrap().flush_interrupts_returned;
            o.count("flush_interrupts_delivered", delivered as u64);
            let witness = json!({"writer": w, "item": h.item.name, "flush_call": i, "sink_call": k, "consecutive_interrupted_results": n, "delivered": delivered});
            let outcome;
            match res {
                Err(p) => {
                    outcome = "panic";
                    v.add(o, format!("{w}:panic:{phase}:{}", p.sig), format!("{w} history of {}: flush call {i} of the destination interrupted {n} time(s): noodles panicked: {}", h.item.name, p.message), witness);
                }
                Ok(Err(e)) if e.kind() == io::ErrorKind::Interrupted => {
                    outcome = "surfaced";
                    o.count("flush_interrupted:surfaced", 1);
                    o.count(&format!("flush_interrupted:surfaced[{w}]"), 1);
                }
                Ok(Err(e)) => {
                    outcome = "surfaced-other";
                    o.count("flush_interrupted:surfaced_as_other_error", 1);
                    o.count(&format!("flush_interrupted:surfaced_as_other_error[{w}->{:?}]", e.kind()), 1);
                }
                Ok(Ok(())) => {
                    let got = sink.bytes();
                    let staged = sink.staged_len();
                    let same = same_commit(h, &ref_commit, ref_staged, &got).and_then(|()| if staged == ref_staged { Ok(()) } else { Err(format!("{staged} bytes still staged instead of {ref_staged}")) });
                    match same {
                        Ok(()) if delivered > 0 => {
                            outcome = "retried";
                            o.count("flush_interrupted:retried", 1);
                            o.count(&format!("flush_interrupted:retried[{w}]"), 1);
                        }
                        Ok(()) => {
                            outcome = "not-reached";
                            o.count("flush_interrupted:not_reached", 1);
                        }
                        Err(why) => {
                            outcome = "uncommitted";
                            v.add(
                                o,
                                format!("{w}:uncommitted-after-interrupted-flush:{phase}"),
                                format!(
                                    "{w} history of {} on a destination that stages bytes until flush: flush call {i} (sink call {k}, phase {phase}) returned Interrupted {delivered} time(s) in a row; every writer call, the finishing call included, returned Ok, but the destination did not commit what a healthy run commits: {why} (healthy: {} committed, {ref_staged} staged)",
                                    h.item.name,
                                    ref_commit.len()
                                ),
                                witness,
                            );
                        }
                    }
                }
            }
            o.fps.push(fnv1a(format!("SI|{w}|{phase}|{n}|{outcome}").as_bytes()));
        }
        // (2) flush call i fails with every error kind, sticky and transient
        for &ek in ERROR_KINDS {
            for mode in [FaultMode::Sticky(k), FaultMode::Transient(k)] {
                let sink = FaultyWrite::new(mode, ek, Accept::All).with_staging();
                let (res, _) = replay(h, &sink);
                o.evaluations += 1;
                o.count("staging_flush_fault_runs", 1);
                o.count(&format!("staging_flush_fault_runs_by_error_kind[{ek:?}]"), 1);
                let errors_returned = sink.log.lock().unwrap().errors_returned;
                let witness = json!({"writer": w, "item": h.item.name, "flush_call": i, "sink_call": k, "mode": mode_name(mode), "error_kind": format!("{ek:?}"), "staging": true});
                let outcome;
                match res {
                    Err(p) => {
                        outcome = "panic";
                        v.add(o, format!("{w}:panic:{phase}:{}", p.sig), format!("{w} history of {}: flush call {i} of a staging destination failed ({} {ek:?}): noodles panicked: {}", h.item.name, mode_name(mode), p.message), witness);
                    }
                    Ok(Err(_)) => {
                        outcome = "surfaced";
                        o.count("staging_flush_faults_surfaced", 1);
                    }
                    Ok(Ok(())) if errors_returned > 0 => {
                        outcome = "swallowed";
                        v.add(
                            o,
                            format!("{w}:swallowed-sink-error:{phase}"),
                            format!(
                                "{w} history of {} on a destination that stages bytes until flush: flush call {i} (sink call {k}, phase {phase}) failed with {} {ek:?} ({errors_returned} error(s) returned to noodles) but every writer call, the finishing call included, returned Ok; {} of {} bytes committed, {} staged",
                                h.item.name,
                                mode_name(mode),
                                sink.bytes().len(),
                                h.healthy.bytes.len(),
                                sink.staged_len()
                            ),
                            witness,
                        );
                    }
                    Ok(Ok(())) => {
                        outcome = "not-reached";
                        o.count("fault_positions_not_reached", 1);
                        if let Err(why) = same_commit(h, &ref_commit, ref_staged, &sink.bytes()) {
                            v.add(o, format!("{w}:uncommitted-after-ok:{phase}"), format!("{w} history of {} on a staging destination: all calls Ok, no failure reached, but {why}", h.item.name), witness);
                        }
                    }
                }
                o.fps.push(fnv1a(format!("SF|{w}|{phase}|{}|{ek:?}|{outcome}", mode_name(mode)).as_bytes()));
            }
        }
    }
}

/// Module `end`: call sequences around the end of a BGZF-backed writer, then drop; healthy and short-write sinks.
fn run_end_sequences(h: &HCtx, limit: usize, o: &mut CaseOut, v: &mut Viol) {
    let kind = h.item.kind;
    let mt = h.drive == Drive::BgzfMt;
    let w = match kind {
        Kind::Bgzf if mt => "bgzf-mt-drop".to_string(),
        Kind::Bgzf => "bgzf-drop".to_string(),
        k => format!("{}-drop", k.name()),
    };
    o.fp = fnv1a(format!("E|{w}|{}", h.item.name).as_bytes());
    let full_content = obgzf::walk(&h.item.bytes).ok().map(|wk| wk.concat()).unwrap_or_default();
    let payload: &[u8] = match &h.prepared.model {
        Model::Bgzf { payload, .. } => payload,
        _ => &[],
    };
    for &seq in end::sequences(kind, mt) {
        for (pname, accept) in [("all", Accept::All), ("at-most-7", Accept::AtMost(7)), ("half", Accept::Half)] {
            let sink = FaultyWrite::new(FaultMode::None, io::ErrorKind::Other, accept);
            let s2 = sink.clone();
            let res = guard::catch(|| {
                if kind == Kind::Bgzf {
                    end::bgzf_sequence(payload, limit, mt, seq, s2)
                } else {
                    end::format_sequence(h.prepared, seq, s2).map(|()| full_content.clone())
                }
            });
            o.evaluations += 1;
            o.count("end_sequence_runs", 1);
            o.count(&format!("end_sequences[{w}|{seq}]"), 1);
            let got = sink.bytes();
            let what = format!("{w}: sequence {seq} on {} (sink accepts {pname})", h.item.name);
            let witness = json!({"writer": w, "item": h.item.name, "sequence": seq, "sink": pname});
            match res {
                Err(p) => v.add(o, format!("{w}:panic:{PH_FINISH}:{}", p.sig), format!("{what}: panicked: {}", p.message), witness),
                Ok(Err(e)) => v.add(o, format!("{w}:not-ok-on-healthy-sink:{PH_FINISH}"), format!("{what}: a call returned {:?}: {e}", e.kind()), witness),
                Ok(Ok(expected)) => match obgzf::walk(&got) {
                    Err(e) => v.add(o, format!("{w}:drop-loses-data:{PH_FINISH}"), format!("{what}: after the drop the destination is not a walkable BGZF file: {e}"), witness),
                    Ok(wk) => {
                        let data = wk.concat();
                        if data != expected {
                            v.add(
                                o,
                                format!("{w}:drop-loses-data:{PH_FINISH}"),
                                format!("{what}: after the drop the destination inflates to {} bytes, {} were written (first difference at {})", data.len(), expected.len(), first_diff(&data, &expected)),
                                witness,
                            );
                        } else if !wk.ends_with_eof_marker() {
                            v.add(o, format!("{w}:drop-loses-data:{PH_EOF}"), format!("{what}: after the drop the destination does not end with the EOF marker"), witness);
                        } else {
                            o.count("end_sequence_outputs_complete", 1);
                        }
                    }
                },
            }
            o.fps.push(fnv1a(format!("E|{w}|{seq}|{pname}").as_bytes()));
        }
    }
}

fn judge_same_output(h: &HCtx, what: &str, class: &str, pattern: &str, sink: &FaultyWrite, res: Result<io::Result<()>, guard::PanicInfo>, o: &mut CaseOut, v: &mut Viol) {
    let w = &h.writer;
    let got = sink.bytes();
    let witness = json!({"writer": w, "item": h.item.name, "pattern": pattern});
    match res {
        Err(p) => v.add(
            o,
            format!("{w}:panic:{}:{}", h.phases.at(got.len()), p.sig),
            format!("{w} history of {} on a sink with {what} {pattern}: noodles panicked: {} at {}:{}", h.item.name, p.message, p.file, p.line),
            witness,
        ),
        Ok(Err(e)) => v.add(
            o,
            format!("{w}:error-under-{class}:{}", h.phases.at(got.len())),
            format!(
                "{w} history of {} on a sink with {what} {pattern} (no failure injected): a writer call returned {:?} ({e}) after {} of {} bytes",
                h.item.name,
                e.kind(),
                got.len(),
                h.healthy.bytes.len()
            ),
            witness,
        ),
        Ok(Ok(())) => {
            let same = if h.item.write_bytes_deterministic() {
                if got == h.healthy.bytes { Ok(()) } else { Err(format!("{} bytes instead of {}, first difference at byte {}", got.len(), h.healthy.bytes.len(), first_diff(&got, &h.healthy.bytes))) }
            } else if got.len() != h.healthy.bytes.len() {
                Err(format!("{} bytes instead of {}", got.len(), h.healthy.bytes.len()))
            } else {
                decodes_equal(h.item, &h.healthy.bytes, &got)
            };
            if let Err(why) = same {
                let at = first_diff(&got, &h.healthy.bytes);
                v.add(
                    o,
                    format!("{w}:output-differs-under-{class}:{}", h.phases.at(at)),
                    format!("{w} history of {} on a sink with {what} {pattern}: all calls returned Ok but the output differs from the healthy output: {why}", h.item.name),
                    witness,
                );
            }
        }
    }
}

fn run_base(ctx: &Ctx, h: &HCtx, o: &mut CaseOut, v: &mut Viol) {
    let w = h.writer.clone();
    let item = h.item;
    // (a) healthy FaultyWrite
    {
        let sink = FaultyWrite::healthy();
        let (res, _) = replay(h, &sink);
        o.evaluations += 1;
        let got = sink.bytes();
        match res {
            Err(p) => v.add(o, format!("{w}:panic:{}:{}", h.phases.at(got.len()), p.sig), format!("{w} history of {} on a healthy sink panicked: {}", item.name, p.message), Value::Null),
            Ok(Err(e)) => v.add(
                o,
                format!("{w}:not-ok-on-healthy-sink:{}", h.phases.at(got.len())),
                format!("{w} history of {} on a healthy sink returned {:?}: {e}", item.name, e.kind()),
                Value::Null,
            ),
            Ok(Ok(())) => {
                let calls = sink.log.lock().unwrap().calls;
                if calls != h.healthy.calls.len() {
                    o.inconclusive.push(format!("{w} history of {}: {calls} sink calls in one healthy run, {} in another", item.name, h.healthy.calls.len()));
                }
                // item.bytes is what the corpus wrote on a Vec<u8>
                let same = match h.drive {
                    Drive::BgzfDrop | Drive::BgzfMtDrop => Ok(()), // judged below with the walker
                    // other entry points: no intermediate flushes, default CRAM layout — same content, other layout
                    Drive::Trait | Drive::Util | Drive::Builder => decodes_equal(item, &item.bytes, &got),
                    _ if item.write_bytes_deterministic() => {
                        if got == item.bytes { Ok(()) } else { Err(format!("{} bytes, corpus item has {}, first difference at {}", got.len(), item.bytes.len(), first_diff(&got, &item.bytes))) }
                    }
                    _ => decodes_equal(item, &item.bytes, &got),
                };
                if let Err(why) = same {
                    v.add(o, format!("{w}:output-differs-on-healthy-sink:{}", h.phases.at(first_diff(&got, &item.bytes))), format!("{w} history of {}: {why}", item.name), Value::Null);
                }
                // the healthy output must itself decode (complete file)
                if !matches!(h.drive, Drive::BgzfDrop | Drive::BgzfMtDrop) {
                    match content_transcript(item, &got) {
                        Ok(t) if t.last().map(|s| s.as_str()) == Some("END") => o.count("healthy_outputs_decoded", 1),
                        Ok(t) => v.add(o, format!("{w}:output-undecodable-after-ok:{PH_FINISH}"), format!("{w} history of {}: healthy output does not read to END: {:?}", item.name, t.last()), Value::Null),
                        Err(e) => v.add(o, format!("{w}:output-undecodable-after-ok:{PH_FINISH}"), format!("{w} history of {}: {e}", item.name), Value::Null),
                    }
                }
            }
        }
    }
    // (d) drop without finish on a healthy sink (single-threaded writer: through the corpus driver)
    if matches!(h.drive, Drive::BgzfDrop | Drive::BgzfMtDrop) {
        let sink = FaultyWrite::healthy();
        let s2 = sink.clone();
        let res = guard::catch(|| if h.drive == Drive::BgzfDrop { corpus::write_history_bgzf_drop(item, s2) } else { bgzf_mt_drop_history(h.prepared, s2, || {}) });
        o.evaluations += 1;
        let got = sink.bytes();
        let payload = item.side.model.clone().unwrap_or_default();
        match res {
            Err(p) => v.add(o, format!("{w}:panic:{PH_FINISH}:{}", p.sig), format!("dropping the BGZF writer of {} panicked: {}", item.name, p.message), Value::Null),
            Ok(Err(e)) => v.add(o, format!("{w}:not-ok-on-healthy-sink:{PH_RECORD}"), format!("{w} history of {}: {e}", item.name), Value::Null),
            Ok(Ok(())) => match obgzf::walk(&got) {
                Err(e) => v.add(o, format!("{w}:drop-loses-data:{PH_FINISH}"), format!("BGZF writer of {} dropped without finish: the sink content is not walkable: {e}", item.name), Value::Null),
                Ok(wk) => {
                    let data = wk.concat();
                    if data != payload {
                        v.add(
                            o,
                            format!("{w}:drop-loses-data:{PH_FINISH}"),
                            format!("BGZF writer of {} dropped without finish: the sink holds {} payload bytes of {} (first difference at {})", item.name, data.len(), payload.len(), first_diff(&data, &payload)),
                            Value::Null,
                        );
                    } else if !wk.ends_with_eof_marker() {
                        v.add(o, format!("{w}:drop-loses-data:{PH_EOF}"), format!("BGZF writer of {} dropped without finish: no EOF marker at the end of the sink content", item.name), Value::Null);
                    } else {
                        o.count("bgzf_drop_outputs_complete", 1);
                    }
                    if got != h.healthy.bytes {
                        o.inconclusive.push(format!("bgzf-drop history of {}: corpus driver and the monitor's copy of it give different bytes", item.name));
                    }
                }
            },
        }
    }
    // (c) short writes
    let seed = ctx.seed ^ fnv1a(item.name.as_bytes());
    for (pname, accept) in [
        ("at-most-1", Accept::AtMost(1)),
        ("at-most-7", Accept::AtMost(7)),
        ("half", Accept::Half),
        ("random", Accept::Random(seed)),
    ] {
        let sink = FaultyWrite::new(FaultMode::None, io::ErrorKind::Other, accept);
        let (res, _) = replay(h, &sink);
        o.evaluations += 1;
        o.count(&format!("short_write_runs[{pname}]"), 1);
        o.count("short_writes_delivered", sink.log.lock().unwrap().short_writes as u64);
        judge_same_output(h, "short writes", "short-writes", pname, &sink, res, o, v);
        o.fps.push(fnv1a(format!("S|{w}|{pname}|{}", (sink.log.lock().unwrap().short_writes > 0)).as_bytes()));
    }
    // (c) Interrupted before write calls (finite: at most one per write-call index)
    let wc = h.healthy.calls.iter().filter(|c| !c.flush).count();
    let mut rng = Rng::new(seed, 0xC14, 1);
    let patterns: Vec<(&str, Vec<usize>)> = vec![
        ("first", vec![0]),
        ("every-3rd", (0..wc).step_by(3).collect()),
        ("random-quarter", (0..wc).filter(|_| rng.chance(1, 4)).collect()),
        ("every", (0..wc).collect()),
    ];
    for (pname, at) in patterns {
        let sink = FaultyWrite::healthy().with_interrupts(at.iter().copied());
        let (res, _) = replay(h, &sink);
        o.evaluations += 1;
        o.count(&format!("interrupt_runs[{pname}]"), 1);
        let delivered = sink.log.lock().unwrap().interrupts_returned;
        o.count("interrupts_delivered", delivered as u64);
        judge_same_output(h, "Interrupted before write calls", "interrupts", pname, &sink, res, o, v);
        o.fps.push(fnv1a(format!("I|{w}|{pname}|{}", delivered > 0).as_bytes()));
    }
    // short writes and interrupts together
    {
        let sink = FaultyWrite::new(FaultMode::None, io::ErrorKind::Other, Accept::AtMost(3)).with_interrupts((0..wc * 4).step_by(2));
        let (res, _) = replay(h, &sink);
        o.evaluations += 1;
        o.count("interrupt_runs[at-most-3+every-2nd]", 1);
        o.count("interrupts_delivered", sink.log.lock().unwrap().interrupts_returned as u64);
        o.count("short_writes_delivered", sink.log.lock().unwrap().short_writes as u64);
        judge_same_output(h, "short writes (at most 3 bytes) and Interrupted before", "interrupts", "every-2nd", &sink, res, o, v);
    }
}

/// `<index crate>::fs::write(path, &index)`: the whole history is one call; the "sink" is a real file.
fn run_fs(ctx: &Ctx, c: &Case, item: &Item, prepared: &Prepared, w: &str, o: &mut CaseOut, v: &mut Viol) {
    let tag = match c.part {
        Part::Base => "base".to_string(),
        Part::Faults { lo, .. } | Part::FaultsHalf { lo, .. } => lo.to_string(),
        Part::Staging => "staging".to_string(),
        Part::EndSeq => "endseq".to_string(),
    };
    let path = ctx.work.join(format!("c14-fs-{}-{tag}.out", c.hist));
    let _ = std::fs::remove_file(&path);
    let healthy_res = guard::catch(|| alt::fs_write(prepared, &path));
    let healthy = std::fs::read(&path).unwrap_or_default();
    let phases = phase_map(item, Drive::Fs, &healthy);
    match c.part {
        Part::Base => {
            o.evaluations += 1;
            o.count(&format!("histories[{w}]"), 1);
            o.count("histories", 1);
            o.fp = fnv1a(format!("B|{w}|{}", item.name).as_bytes());
            match healthy_res {
                Err(p) => v.add(o, format!("{w}:panic:{PH_FINISH}:{}", p.sig), format!("fs::write of {} panicked: {}", item.name, p.message), Value::Null),
                Ok(Err(e)) => v.add(o, format!("{w}:not-ok-on-healthy-sink:{PH_FINISH}"), format!("fs::write of {} to a regular file returned {:?}: {e}", item.name, e.kind()), Value::Null),
                Ok(Ok(())) => {
                    if let Err(why) = decodes_equal(item, &item.bytes, &healthy) {
                        v.add(o, format!("{w}:output-differs-on-healthy-sink:{PH_FINISH}"), format!("fs::write of {}: {why}", item.name), Value::Null);
                    }
                    if healthy.len() != item.bytes.len() {
                        o.inconclusive.push(format!("{w}: fs::write of {} gives {} bytes, the corpus item has {}", item.name, healthy.len(), item.bytes.len()));
                    }
                    o.count(&format!("fault_positions_total[{w}]"), healthy.len() as u64 + 1);
                    o.count("fault_positions_total", healthy.len() as u64 + 1);
                    o.max(&format!("max_sink_calls[{w}]"), healthy.len() as u64 + 1);
                }
            }
        }
        Part::FaultsHalf { .. } | Part::Staging | Part::EndSeq => {}
        Part::Faults { lo, hi } => {
            if !matches!(healthy_res, Ok(Ok(()))) {
                return; // reported by the base case
            }
            let len = healthy.len();
            for k in lo..hi.min(len + 1) {
                let dev_full = k == len;
                let (res, got, how) = if dev_full {
                    if !std::path::Path::new("/dev/full").exists() {
                        o.count("fault_positions_enumerated", 1);
                        o.count(&format!("fault_positions_enumerated[{w}]"), 1);
                        o.inconclusive.push("/dev/full does not exist".into());
                        continue;
                    }
                    (guard::catch(|| alt::fs_write(prepared, std::path::Path::new("/dev/full"))), Vec::new(), "every write fails with ENOSPC (/dev/full)".to_string())
                } else {
                    let _ = std::fs::remove_file(&path);
                    let r = match alt::with_file_size_limit(k as u64, || guard::catch(|| alt::fs_write(prepared, &path))) {
                        Ok(r) => r,
                        Err(e) => {
                            o.inconclusive.push(format!("cannot set RLIMIT_FSIZE: {e}"));
                            return;
                        }
                    };
                    (r, std::fs::read(&path).unwrap_or_default(), format!("the file cannot grow beyond {k} bytes (RLIMIT_FSIZE; write cut short, then EFBIG)"))
                };
                o.evaluations += 1;
                o.count("fault_positions_enumerated", 1);
                o.count(&format!("fault_positions_enumerated[{w}]"), 1);
                o.count("fs_write_fault_runs", 1);
                let phase = if dev_full { PH_FINISH } else if phases.at(k) == PH_EOF { PH_EOF } else { PH_FINISH };
                let outcome;
                match res {
                    Err(p) => {
                        outcome = "panic";
                        v.add(o, format!("{w}:panic:{phase}:{}", p.sig), format!("fs::write of {} where {how}: panicked: {}", item.name, p.message), json!({"k": k}));
                    }
                    Ok(Ok(())) => {
                        // (an empty index writes nothing: nothing can fail)
                        if (dev_full && len > 0) || (!dev_full && got != healthy) {
                            outcome = "swallowed";
                            v.add(
                                o,
                                format!("{w}:swallowed-sink-error:{phase}"),
                                format!(
                                    "fs::write of {} where {how} returned Ok(()); the destination holds {} of {len} bytes",
                                    item.name,
                                    if dev_full { 0 } else { got.len() }
                                ),
                                json!({"writer": w, "item": item.name, "limit": k, "len": len, "dev_full": dev_full}),
                            );
                        } else {
                            outcome = "not-reached";
                            o.count("fault_positions_not_reached", 1);
                        }
                    }
                    Ok(Err(e)) => {
                        outcome = "surfaced";
                        match e.raw_os_error() {
                            Some(code) if code == libc::EFBIG || code == libc::ENOSPC => o.count("faults_surfaced_as_the_injected_error", 1),
                            _ => {
                                o.count("faults_surfaced_as_other_error", 1);
                                o.count(&format!("faults_surfaced_as_other_error[{w}:os->{:?}]", e.kind()), 1);
                            }
                        }
                    }
                }
                o.fps.push(fnv1a(format!("FS|{w}|{phase}|{dev_full}|{outcome}").as_bytes()));
            }
        }
    }
    let _ = std::fs::remove_file(&path);
}

// ---------------------------------------------------------------------------------------------------------------
// case generation

struct World {
    items: Vec<Item>,
    hists: Vec<Hist>,
    cases: Vec<Case>,
    skipped_large: Vec<String>,
    unwritable: usize,
    /// uncompressed offset at which the BGZF writer emits a block by itself (measured)
    bgzf_limit: usize,
}

fn gen_world(ctx: &Ctx) -> World {
    // quick: the tiny and the small corpus of the seed; thorough: several corpus seeds, all scales
    let mut items: Vec<Item> = Vec::new();
    let mut seen: BTreeSet<(String, u64)> = BTreeSet::new();
    let corpus_seeds = ctx.budget("corpus_seeds", 1, 6);
    let scales: &[u8] = if ctx.quick() { &[0, 1] } else { &[0, 1, 2] };
    for s in 0..corpus_seeds {
        for &scale in scales {
            for it in corpus::items(ctx.seed.wrapping_add(s.wrapping_mul(1_000_003)), scale) {
                // fixtures (CRAM) and seed-independent items repeat: keep one copy
                if seen.insert((it.name.clone(), fnv1a(&it.bytes))) {
                    items.push(it);
                }
            }
        }
    }
    let unwritable = items.iter().filter(|i| !i.writable()).count();
    items.retain(|i| i.writable());
    // block-boundary sweep items (synthetic CSI / tabix indexes), always included, Std drive only
    let bgzf_limit = end::bgzf_limit();
    let first_sweep_item = items.len();
    let mut sweep_d: Vec<Sweep> = Vec::new();
    for (it, d) in sweep::items(bgzf_limit) {
        items.push(it);
        sweep_d.push(Sweep::Tail(d));
    }
    for (it, j) in sweep::record_items(bgzf_limit) {
        items.push(it);
        sweep_d.push(Sweep::HeaderEnd(j));
    }

    let max_n = ctx.budget("max_calls", 4000, 80000) as usize;
    let per_kind = ctx.budget("per_kind", 4, 30) as usize;
    let half_max = ctx.budget("half_max_calls", 1500, 6000) as usize;
    let only = ctx.param("only");

    // candidate histories with their healthy call counts
    let mut cand: Vec<Hist> = Vec::new();
    let mut sweep_hists: Vec<Hist> = Vec::new();
    for (i, it) in items.iter().enumerate() {
        if i >= first_sweep_item {
            if only.map(|o| o == it.kind.name()).unwrap_or(true) {
                if let Ok(p) = corpus::prepare_write(it) {
                    let n = probe_run(it, &p, Drive::Std, false).map(|h| h.calls.len()).unwrap_or(0);
                    sweep_hists.push(Hist { item: i, drive: Drive::Std, n, n_half: 0, all_kinds: false, sweep: Some(sweep_d[i - first_sweep_item]) });
                }
            }
            continue;
        }
        let drives = drives_of(it.kind);
        let Ok(p) = corpus::prepare_write(it) else {
            cand.push(Hist { item: i, drive: Drive::Std, n: 0, n_half: 0, all_kinds: false, sweep: None });
            continue;
        };
        for &d in &drives {
            if let Some(o) = only {
                if writer_name(it.kind, d) != o {
                    continue;
                }
            }
            if d == Drive::Fs {
                // positions = byte offsets 0..len at which the file may not grow any further, plus /dev/full
                cand.push(Hist { item: i, drive: d, n: it.bytes.len() + 1, n_half: 0, all_kinds: false, sweep: None });
                continue;
            }
            let n = probe_run(it, &p, d, false).map(|h| h.calls.len()).unwrap_or(0);
            // the background thread of the multithreaded writer emits frames exactly like the single-threaded one
            let n_half = if n > 0 && n <= half_max && !matches!(d, Drive::BgzfMt | Drive::BgzfMtDrop) { probe_run(it, &p, d, true).map(|h| h.calls.len()).unwrap_or(0) } else { 0 };
            cand.push(Hist { item: i, drive: d, n, n_half, all_kinds: false, sweep: None });
        }
    }
    // per writer: at most `per_kind` histories with N <= max_n, in corpus order (tiny, header-only, small, ...);
    // prefer distinct N so that two copies of the same shape do not use up the budget
    let mut hists: Vec<Hist> = Vec::new();
    let mut skipped_large = Vec::new();
    let mut taken: BTreeMap<String, Vec<usize>> = BTreeMap::new();
    let mut deferred: Vec<Hist> = Vec::new();
    for h in cand {
        let w = h.writer_name(&items);
        if h.n > max_n {
            skipped_large.push(format!("{}:{}(N={})", w, items[h.item].name, h.n));
            continue;
        }
        let t = taken.entry(w).or_default();
        if t.len() >= per_kind {
            continue;
        }
        if t.contains(&h.n) {
            deferred.push(h);
            continue;
        }
        t.push(h.n);
        hists.push(h);
    }
    for h in deferred {
        let t = taken.entry(h.writer_name(&items)).or_default();
        if t.len() < per_kind {
            t.push(h.n);
            hists.push(h);
        }
    }
    hists.extend(sweep_hists);
    hists.sort_by_key(|h| (h.item, h.drive));
    // per writer: the (up to) three longest histories below a size cap get every error kind at every position
    let all_kinds_max = ctx.budget("all_kinds_max_calls", 700, 1500) as usize;
    let all_kinds_per_writer = ctx.budget("all_kinds_per_writer", 3, 4) as usize;
    {
        let mut by_writer: BTreeMap<String, Vec<usize>> = BTreeMap::new();
        for (i, h) in hists.iter().enumerate() {
            if h.drive != Drive::Fs && h.sweep.is_none() && h.n > 0 && h.n <= all_kinds_max {
                by_writer.entry(h.writer_name(&items)).or_default().push(i);
            }
        }
        for (_, mut v) in by_writer {
            v.sort_by_key(|&i| std::cmp::Reverse(hists[i].n));
            for &i in v.iter().take(all_kinds_per_writer) {
                hists[i].all_kinds = true;
            }
        }
    }

    // cases: one Base per history, fault positions in chunks of bounded cost (a run that fails at call k costs ~k)
    let chunk_cost = ctx.budget("chunk_cost", 400_000, 1_500_000) as usize;
    let mut cases = Vec::new();
    for (hi, h) in hists.iter().enumerate() {
        cases.push(Case { hist: hi, part: Part::Base });
        if h.drive != Drive::Fs && h.n > 0 && h.sweep.is_none() {
            cases.push(Case { hist: hi, part: Part::Staging });
        }
        if h.sweep.is_none() && matches!(h.drive, Drive::Std | Drive::BgzfMt) && !end::sequences(items[h.item].kind, h.drive == Drive::BgzfMt).is_empty() {
            cases.push(Case { hist: hi, part: Part::EndSeq });
        }
        let per_run_overhead = match h.drive {
            Drive::BgzfMt | Drive::BgzfMtDrop => 4000,
            Drive::Fs => 1500,
            _ => 60,
        };
        let mut lo = 0usize;
        let mut cost = 0usize;
        for k in 0..h.n {
            cost += 2 * (k + per_run_overhead) * if h.all_kinds { ERROR_KINDS.len() } else { 1 };
            if cost >= chunk_cost || k + 1 == h.n {
                cases.push(Case { hist: hi, part: Part::Faults { lo, hi: k + 1 } });
                lo = k + 1;
                cost = 0;
            }
        }
        let mut lo = 0usize;
        let mut cost = 0usize;
        for k in 0..(if h.sweep.is_some() { 0 } else { h.n_half }) {
            cost += k + per_run_overhead;
            if cost >= chunk_cost || k + 1 == h.n_half {
                cases.push(Case { hist: hi, part: Part::FaultsHalf { lo, hi: k + 1 } });
                lo = k + 1;
                cost = 0;
            }
        }
    }
    World { items, hists, cases, skipped_large, unwritable, bgzf_limit }
}

fn case_json(w: &World, c: &Case) -> Value {
    let h = &w.hists[c.hist];
    let it = &w.items[h.item];
    let (part, lo, hi) = match c.part {
        Part::Base => ("base", 0, 0),
        Part::Faults { lo, hi } => ("faults", lo, hi),
        Part::FaultsHalf { lo, hi } => ("faults-on-half-accepting-sink", lo, hi),
        Part::Staging => ("staging-destination", 0, 0),
        Part::EndSeq => ("end-sequences-then-drop", 0, 0),
    };
    json!({"writer": h.writer_name(&w.items), "item": it.name, "item_len": it.bytes.len(), "drive": h.drive.name(), "part": part, "lo": lo, "hi": hi, "n": h.n, "all_error_kinds": h.all_kinds, "block_boundary_sweep": h.sweep.map(|s| format!("{s:?}"))})
}

fn run_case(ctx: &Ctx, w: &World, c: &Case) -> CaseOut {
    let mut o = CaseOut::new();
    o.evaluations = 0;
    let h = &w.hists[c.hist];
    let item = &w.items[h.item];
    let writer = h.writer_name(&w.items);
    let mut v = Viol::new();
    let prepared = match guard::catch(|| corpus::prepare_write(item)) {
        Ok(Ok(p)) => p,
        Ok(Err(e)) => {
            o.inconclusive.push(format!("corpus item {} cannot be prepared for writing: {e}", item.name));
            return o;
        }
        Err(p) => {
            o.inconclusive.push(format!("corpus item {}: prepare_write panicked: {}", item.name, p.message));
            return o;
        }
    };
    if h.drive == Drive::Fs {
        run_fs(ctx, c, item, &prepared, &writer, &mut o, &mut v);
        return o;
    }
    let half = matches!(c.part, Part::FaultsHalf { .. });
    let healthy = match probe_run(item, &prepared, h.drive, half) {
        Ok(hh) => hh,
        Err(e) => {
            if matches!(c.part, Part::Base) {
                o.evaluations += 1;
                let class = if e.starts_with("panic") { "panic" } else { "not-ok-on-healthy-sink" };
                v.add(&mut o, format!("{writer}:{class}:{PH_RECORD}"), format!("{writer} history of {} on a healthy sink: {e}", item.name), Value::Null);
            }
            return o;
        }
    };
    let phases = phase_map(item, h.drive, &healthy.bytes);
    let hc = HCtx { item, prepared: &prepared, drive: h.drive, writer: writer.clone(), healthy: &healthy, phases: &phases };
    let expected_calls = if half { h.n_half } else { h.n };
    if healthy.calls.len() != expected_calls {
        o.inconclusive.push(format!("{writer} history of {}: {} sink calls now, {expected_calls} when the cases were generated", item.name, healthy.calls.len()));
    }
    match c.part {
        Part::Base => {
            o.count(&format!("histories[{writer}]"), 1);
            o.count("histories", 1);
            o.count(&format!("fault_positions_total[{writer}]"), healthy.calls.len() as u64);
            o.count("fault_positions_total", healthy.calls.len() as u64);
            o.max("max_sink_calls_of_a_history", healthy.calls.len() as u64);
            o.max(&format!("max_sink_calls[{writer}]"), healthy.calls.len() as u64);
            if h.n_half > 0 {
                o.count("fault_positions_on_half_accepting_sink_total", h.n_half as u64);
            }
            o.count("flush_calls_in_healthy_histories", healthy.calls.iter().filter(|c| c.flush).count() as u64);
            if let Some(sw) = h.sweep {
                // the layout the sweep relies on: first block = the measured limit, boundary where it was aimed
                let (ok, label) = match obgzf::walk(&healthy.bytes) {
                    Err(_) => (false, String::new()),
                    Ok(wk) => {
                        let data: Vec<usize> = wk.members.iter().filter(|m| !m.is_eof_marker).map(|m| m.data.len()).collect();
                        let first_is_limit = data.first() == Some(&w.bgzf_limit);
                        match sw {
                            Sweep::Tail(d) => (first_is_limit && data.iter().sum::<usize>() == w.bgzf_limit + d, format!("{d:02}-bytes-before-end")),
                            Sweep::HeaderEnd(j) => {
                                let he = sweep::inflated_header_end(item.kind, &wk.concat());
                                (first_is_limit && he + j == w.bgzf_limit + sweep::BEFORE, format!("header-end{:+03}", j as isize - sweep::BEFORE as isize))
                            }
                        }
                    }
                };
                if ok {
                    o.count(&format!("block_boundary_sweep[{writer}|{label}]"), 1);
                    o.count("block_boundary_sweep_histories", 1);
                } else {
                    o.inconclusive.push(format!("{writer} sweep item {}: the block boundary is not where it was aimed ({sw:?})", item.name));
                }
            }
            run_base(ctx, &hc, &mut o, &mut v);
            o.fp = fnv1a(format!("B|{writer}|{}", item.name).as_bytes());
            o.sample = Some(json!({"writer": writer, "item": item.name, "sink_calls": healthy.calls.len(), "bytes": healthy.bytes.len()}));
        }
        Part::Faults { lo, hi } => {
            let rot = (fnv1a(item.name.as_bytes()) % ERROR_KINDS.len() as u64) as usize;
            for k in lo..hi.min(healthy.calls.len()) {
                if h.all_kinds {
                    for &ek in ERROR_KINDS {
                        run_fault(&hc, k, FaultMode::Sticky(k), ek, false, &mut o, &mut v);
                        run_fault(&hc, k, FaultMode::Transient(k), ek, false, &mut o, &mut v);
                        o.evaluations += 2;
                    }
                    o.count("fault_positions_enumerated_with_every_error_kind", 1);
                } else {
                    let k1 = ERROR_KINDS[(k + rot) % ERROR_KINDS.len()];
                    let k2 = ERROR_KINDS[(k + rot + 3) % ERROR_KINDS.len()];
                    run_fault(&hc, k, FaultMode::Sticky(k), k1, false, &mut o, &mut v);
                    run_fault(&hc, k, FaultMode::Transient(k), k2, false, &mut o, &mut v);
                    o.evaluations += 2;
                }
                o.count("fault_positions_enumerated", 1);
                o.count(&format!("fault_positions_enumerated[{writer}]"), 1);
                if h.sweep.is_some() && healthy.calls.get(k).map(|c| !c.flush && c.off < phases.members.first().map(|m| m.1).unwrap_or(0)).unwrap_or(false) {
                    // the destination fails during the block write that the boundary field triggers
                    o.count(&format!("block_boundary_sweep_faults_in_the_triggered_block_write[{writer}]"), 2);
                }
            }
        }
        Part::Staging => run_staging(&hc, &mut o, &mut v),
        Part::EndSeq => run_end_sequences(&hc, w.bgzf_limit, &mut o, &mut v),
        Part::FaultsHalf { lo, hi } => {
            let rot = (fnv1a(item.name.as_bytes()) % ERROR_KINDS.len() as u64) as usize;
            for k in lo..hi.min(healthy.calls.len()) {
                let k1 = ERROR_KINDS[(k + rot + 5) % ERROR_KINDS.len()];
                run_fault(&hc, k, FaultMode::Sticky(k), k1, true, &mut o, &mut v);
                o.evaluations += 1;
                o.count("fault_positions_on_half_accepting_sink_enumerated", 1);
            }
        }
    }
    o
}

fn main() {
    // the multithreaded writer compresses on the global rayon pool; children run concurrently, keep the pools small
    let _ = rayon::ThreadPoolBuilder::new().num_threads(4).build_global();
    let ctx = Ctx::from_args();
    let ctx = vcore::cases::replay_request(&ctx).map(|r| r.1).unwrap_or(ctx);
    let mut rep = Report::new(
        "history = canonical write history (corpus crate) of one writable corpus item through the noodles writer of its kind (BGZF items also \
         through MultithreadedWriter and through a writer dropped without finish); evaluation = one replay of a history on a scripted sink \
         (healthy, call k failing sticky / transient for EVERY k of the healthy run — with two rotating error kinds, and with EVERY error kind for the \
         three longest small histories of each writer —, 4 short-write patterns, 5 Interrupted patterns, and on a destination that stages bytes until \
         flush: 1/2/3/4/7 consecutive Interrupted results or a failure of every kind at every flush call); distinct = \
         distinct (writer, phase of the failing call, sticky/transient, error kind, outcome class) for fault runs, (writer, pattern, pattern took \
         effect) for short-write / Interrupted runs, (writer, item) for base cases; non-trivial = all",
    );
    rep.assumptions.push("the corpus write histories (corpus::write_prepared) call the documented finishing call of each writer and flush the sink last; they contain no buffering layer of their own".into());
    rep.assumptions.push("after the first Err of any call the history stops and drops the writer; nothing is required of later calls".into());
    rep.assumptions.push("a failure reported later than call k (at flush / finish) or wrapped in another error counts as reported".into());
    rep.assumptions.push("staging destinations: only histories that flush the destination in a healthy run are judged (the others are counted); Interrupted from flush may be retried or returned as Err, but all-Ok requires the committed bytes of a healthy staging run".into());
    rep.assumptions.push("phase labels are derived from the byte offset of the failing sink call in the healthy output (last BGZF data member / last CRAM data container = finish)".into());

    let world = gen_world(&ctx);
    if ctx.param("list").is_some() {
        for h in &world.hists {
            let it = &world.items[h.item];
            eprintln!("{:10} {:55} bytes={:7} N={}", h.writer_name(&world.items), it.name, it.bytes.len(), h.n);
        }
        eprintln!("{} histories, {} cases, {} skipped as too large: {:?}", world.hists.len(), world.cases.len(), world.skipped_large.len(), world.skipped_large);
        std::process::exit(0);
    }
    let f = |i: u64| -> CaseOut { run_case(&ctx, &world, &world.cases[i as usize]) };
    run_cases(&ctx, &mut rep, world.cases.len() as u64, 300.0, &f, &|i| case_json(&world, &world.cases[i as usize]));

    if ctx.replay.is_none() {
        let get = |rep: &Report, k: &str| rep.counters.get(k).copied().unwrap_or(0);
        // every fault position of every history enumerated?
        let total = get(&rep, "fault_positions_total");
        let done = get(&rep, "fault_positions_enumerated");
        rep.extra.insert("fraction_of_fault_positions_enumerated".into(), json!(if total == 0 { 0.0 } else { done as f64 / total as f64 }));
        if done != total {
            rep.floors_unmet.push(format!("fault positions enumerated {done} != sink calls of the healthy histories {total}"));
        }
        let (htotal, hdone) = (get(&rep, "fault_positions_on_half_accepting_sink_total"), get(&rep, "fault_positions_on_half_accepting_sink_enumerated"));
        if hdone != htotal {
            rep.floors_unmet.push(format!("fault positions on half-accepting sinks enumerated {hdone} != sink calls of those healthy histories {htotal}"));
        }
        rep.exhaustive = Some(done == total && total > 0 && hdone == htotal);
        let mut writers = Vec::new();
        let mut missing = Vec::new();
        let expected: Vec<String> = Kind::ALL.iter().flat_map(|&k| drives_of(k).into_iter().map(move |d| writer_name(k, d))).collect();
        for wn in expected {
            let n = get(&rep, &format!("histories[{wn}]"));
            let t = get(&rep, &format!("fault_positions_total[{wn}]"));
            let e = get(&rep, &format!("fault_positions_enumerated[{wn}]"));
            if n == 0 {
                missing.push(wn.clone());
            }
            writers.push(json!({"writer": wn, "histories": n, "sink_calls": t, "fault_positions_enumerated": e}));
        }
        rep.extra.insert("writers".into(), json!(writers));
        rep.extra.insert("histories_skipped_as_too_large_for_the_tier".into(), json!(world.skipped_large));
        rep.extra.insert("corpus_items_without_write_history".into(), json!(world.unwritable));
        if ctx.param("only").is_none() {
            if !missing.is_empty() {
                rep.floors_unmet.push(format!("writers without any history: {missing:?}"));
            }
            rep.floor("fault_positions_enumerated", done, 2000);
            rep.floor("short_writes_delivered", get(&rep, "short_writes_delivered"), 1000);
            rep.floor("interrupts_delivered", get(&rep, "interrupts_delivered"), 1000);
            let surfaced = get(&rep, "faults_surfaced_as_the_injected_error") + get(&rep, "faults_surfaced_wrapped_in_another_error") + get(&rep, "faults_surfaced_as_other_error");
            rep.floor("faults_surfaced", surfaced, 2000);
            // every error kind met every phase and every part of a BGZF block frame
            let mut kinds_table = Vec::new();
            for ek in ERROR_KINDS {
                let mut row = serde_json::Map::new();
                row.insert("error_kind".into(), json!(format!("{ek:?}")));
                row.insert("fault_runs".into(), json!(get(&rep, &format!("fault_runs_by_error_kind[{ek:?}]"))));
                for ph in [PH_HEADER, PH_RECORD, PH_FINISH, PH_EOF] {
                    let n = get(&rep, &format!("fault_runs_by_error_kind_and_phase[{ek:?}|{ph}]"));
                    row.insert(ph.to_string(), json!(n));
                    rep.floor(&format!("fault runs with {ek:?} in phase {ph}"), n, 4);
                }
                for part in ["frame-header", "frame-cdata", "frame-trailer", "eof-marker"] {
                    let n = get(&rep, &format!("fault_runs_by_error_kind_and_bgzf_frame_part[{ek:?}|{part}]"));
                    row.insert(format!("bgzf:{part}"), json!(n));
                    rep.floor(&format!("fault runs with {ek:?} on a BGZF {part} write"), n, 4);
                }
                let n = get(&rep, &format!("staging_flush_fault_runs_by_error_kind[{ek:?}]"));
                row.insert("staging_flush_fault_runs".into(), json!(n));
                rep.floor(&format!("flush failures with {ek:?} on a staging destination"), n, 20);
                kinds_table.push(Value::Object(row));
            }
            rep.extra.insert("error_kinds".into(), json!(kinds_table));
            rep.floor("fault_positions_enumerated_with_every_error_kind", get(&rep, "fault_positions_enumerated_with_every_error_kind"), 2000);
            for wn in ["csi", "tbi"] {
                for d in 0..=sweep::TAIL {
                    rep.floor(&format!("block_boundary_sweep[{wn}|{d:02}-bytes-before-end]"), get(&rep, &format!("block_boundary_sweep[{wn}|{d:02}-bytes-before-end]")), 1);
                }
                rep.floor(&format!("block_boundary_sweep_faults_in_the_triggered_block_write[{wn}]"), get(&rep, &format!("block_boundary_sweep_faults_in_the_triggered_block_write[{wn}]")), 1000);
            }
            for wn in ["bam", "bcf", "samgz", "vcfgz"] {
                for j in 0..sweep::SPAN {
                    let key = format!("block_boundary_sweep[{wn}|header-end{:+03}]", j as isize - sweep::BEFORE as isize);
                    rep.floor(&key, get(&rep, &key), 1);
                }
                rep.floor(&format!("block_boundary_sweep_faults_in_the_triggered_block_write[{wn}]"), get(&rep, &format!("block_boundary_sweep_faults_in_the_triggered_block_write[{wn}]")), 1000);
            }
            for (wn, seqs) in [("bgzf-drop", end::BGZF_ST), ("bgzf-mt-drop", end::BGZF_MT), ("bam-drop", end::RECORDS), ("bcf-drop", end::RECORDS), ("samgz-drop", end::RECORDS), ("vcfgz-drop", end::RECORDS), ("csi-drop", end::INDEX), ("tbi-drop", end::INDEX)] {
                for seq in seqs {
                    rep.floor(&format!("end_sequences[{wn}|{seq}]"), get(&rep, &format!("end_sequences[{wn}|{seq}]")), 3);
                }
            }
            rep.extra.insert("bgzf_block_limit_measured".into(), json!(world.bgzf_limit));
            rep.floor("staging_histories_judged", get(&rep, "staging_histories_judged"), 40);
            rep.floor("flush_interrupts_delivered", get(&rep, "flush_interrupts_delivered"), 500);
            for n in [1, 2, 3, 4, 7] {
                rep.floor(&format!("staging_flush_interrupt_runs[n={n}]"), get(&rep, &format!("staging_flush_interrupt_runs[n={n}]")), 40);
            }
        }
    }
    rep.finish(&ctx);
}
