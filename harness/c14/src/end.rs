//! Call sequences around the END of a BGZF-backed writer that is then DROPPED (C14: "dropping a BGZF writer without
//! finishing still emits the buffered data and the EOF block"): try_finish / flush in the middle, on an empty
//! writer, twice, followed by more (small or block-filling) writes, then drop. After the drop the destination must
//! hold a walkable BGZF file whose inflated content is everything that was written, ending with the EOF marker.

use std::io::{self, Write};

use corpus::{Kind, Model, Prepared};
use noodles_bam as bam;
use noodles_bcf as bcf;
use noodles_bgzf as bgzf;
use noodles_sam as sam;
use noodles_vcf as vcf;

/// The uncompressed offset at which the single-threaded BGZF writer emits a block by itself (measured, not assumed).
pub fn bgzf_limit() -> usize {
    let mut w = bgzf::io::Writer::new(Vec::new());
    let data: Vec<u8> = (0..70_000usize).map(|i| (i * 31 % 251) as u8).collect();
    let _ = w.write_all(&data);
    let out = w.finish().unwrap_or_default();
    vcore::bgzf::walk(&out).ok().and_then(|wk| wk.members.first().map(|m| m.data.len())).unwrap_or(0)
}

pub fn pattern(n: usize) -> Vec<u8> {
    (0..n).map(|i| b"ACGTNacgtn\n"[i * 7 % 11]).collect()
}

pub const BGZF_ST: &[&str] = &[
    "w-tf-w-drop", "w-fl-w-drop", "w-tf-drop", "tf-tf-w-drop", "fl-drop", "fl-w-drop", "tf-drop", "w-limit-drop", "w-limit+1-drop", "w-tf-wlimit-drop",
    "w-tf-w-tf-w-drop", "w-fl-tf-w-drop", "w1-tf-w1-drop",
];
pub const BGZF_MT: &[&str] = &["w-fl-w-drop", "fl-drop", "fl-w-drop", "w-limit-drop", "w-limit+1-drop", "w-fl-fl-w-drop"];
pub const RECORDS: &[&str] = &["h-r-tf-r-drop", "h-r-fl-r-drop", "h-r-tf-drop", "tf-tf-h-r-drop", "h-tf-r-drop", "h-r-fl-tf-r-drop", "h-r-tf-r-tf-r-drop", "fl-h-r-drop"];
pub const INDEX: &[&str] = &["i-tf-drop", "i-fl-drop", "tf-i-drop", "tf-tf-i-drop", "fl-i-drop", "i-fl-tf-drop"];

pub fn sequences(kind: Kind, mt: bool) -> &'static [&'static str] {
    match kind {
        Kind::Bgzf if mt => BGZF_MT,
        Kind::Bgzf => BGZF_ST,
        Kind::Bam | Kind::Bcf | Kind::SamGz | Kind::VcfGz => RECORDS,
        Kind::Csi | Kind::Tbi => INDEX,
        _ => &[],
    }
}

fn bad() -> io::Error {
    io::Error::new(io::ErrorKind::Unsupported, "c14: unknown end sequence")
}

/// Raw BGZF writer. Returns the payload that was written.
pub fn bgzf_sequence<W: Write + Send + 'static>(payload: &[u8], limit: usize, mt: bool, seq: &str, sink: W) -> io::Result<Vec<u8>> {
    let p: Vec<u8> = if payload.is_empty() { pattern(300) } else { payload.to_vec() };
    // B is a small write (never fills a block by itself)
    let cut = if p.len() - p.len() / 2 >= limit { p.len() - 1000 } else { p.len() / 2 };
    let (a, b) = p.split_at(cut);
    let mut written = Vec::new();
    macro_rules! w {
        ($w:expr, $d:expr) => {{
            $w.write_all($d)?;
            written.extend_from_slice($d);
        }};
    }
    if mt {
        let mut w = bgzf::io::MultithreadedWriter::new(sink);
        match seq {
            "w-fl-w-drop" => {
                w!(w, a);
                w.flush()?;
                w!(w, b);
            }
            "w-fl-fl-w-drop" => {
                w!(w, a);
                w.flush()?;
                w.flush()?;
                w!(w, b);
            }
            "fl-drop" => w.flush()?,
            "fl-w-drop" => {
                w.flush()?;
                w!(w, &p);
            }
            "w-limit-drop" => w!(w, &pattern(limit)),
            "w-limit+1-drop" => w!(w, &pattern(limit + 1)),
            _ => return Err(bad()),
        }
        drop(w);
        return Ok(written);
    }
    let mut w = bgzf::io::Writer::new(sink);
    match seq {
        "w-tf-w-drop" => {
            w!(w, a);
            w.try_finish()?;
            w!(w, b);
        }
        "w-fl-w-drop" => {
            w!(w, a);
            w.flush()?;
            w!(w, b);
        }
        "w-tf-drop" => {
            w!(w, &p);
            w.try_finish()?;
        }
        "tf-tf-w-drop" => {
            w.try_finish()?;
            w.try_finish()?;
            w!(w, &p);
        }
        "fl-drop" => w.flush()?,
        "tf-drop" => w.try_finish()?,
        "fl-w-drop" => {
            w.flush()?;
            w!(w, &p);
        }
        "w-limit-drop" => w!(w, &pattern(limit)),
        "w-limit+1-drop" => w!(w, &pattern(limit + 1)),
        "w-tf-wlimit-drop" => {
            w!(w, a);
            w.try_finish()?;
            w!(w, &pattern(limit));
        }
        "w-tf-w-tf-w-drop" => {
            w!(w, a);
            w.try_finish()?;
            w!(w, b);
            w.try_finish()?;
            w!(w, &pattern(10));
        }
        "w-fl-tf-w-drop" => {
            w!(w, a);
            w.flush()?;
            w.try_finish()?;
            w!(w, b);
        }
        "w1-tf-w1-drop" => {
            w!(w, b"x");
            w.try_finish()?;
            w!(w, b"y");
        }
        _ => return Err(bad()),
    }
    drop(w);
    Ok(written)
}

/// Record writers on a BGZF writer (Bam, Bcf, SamGz, VcfGz) and the BGZF index writers (Csi, Tbi): the whole content
/// of the item is written, with the end-of-stream calls of `seq` in between, then the writer is dropped.
pub fn format_sequence<W: Write>(p: &Prepared, seq: &str, sink: W) -> io::Result<()> {
    use sam::alignment::io::Write as _;
    use vcf::variant::io::Write as _;

    // `$tf` / `$fl`: try_finish / flush of the BGZF layer through the public accessors of the writer
    macro_rules! records {
        ($w:ident, $header:ident, $records:ident, $write_header:expr, $write_record:expr, $tf:expr, $fl:expr) => {{
            let h = $records.len() / 2;
            let (ra, rb) = $records.split_at(h);
            let third = rb.len() / 2;
            match seq {
                "h-r-tf-r-drop" => {
                    $write_header(&mut $w)?;
                    for r in ra { $write_record(&mut $w, r)?; }
                    $tf(&mut $w)?;
                    for r in rb { $write_record(&mut $w, r)?; }
                }
                "h-r-fl-r-drop" => {
                    $write_header(&mut $w)?;
                    for r in ra { $write_record(&mut $w, r)?; }
                    $fl(&mut $w)?;
                    for r in rb { $write_record(&mut $w, r)?; }
                }
                "h-r-tf-drop" => {
                    $write_header(&mut $w)?;
                    for r in $records.iter() { $write_record(&mut $w, r)?; }
                    $tf(&mut $w)?;
                }
                "tf-tf-h-r-drop" => {
                    $tf(&mut $w)?;
                    $tf(&mut $w)?;
                    $write_header(&mut $w)?;
                    for r in $records.iter() { $write_record(&mut $w, r)?; }
                }
                "h-tf-r-drop" => {
                    $write_header(&mut $w)?;
                    $tf(&mut $w)?;
                    for r in $records.iter() { $write_record(&mut $w, r)?; }
                }
                "h-r-fl-tf-r-drop" => {
                    $write_header(&mut $w)?;
                    for r in ra { $write_record(&mut $w, r)?; }
                    $fl(&mut $w)?;
                    $tf(&mut $w)?;
                    for r in rb { $write_record(&mut $w, r)?; }
                }
                "h-r-tf-r-tf-r-drop" => {
                    $write_header(&mut $w)?;
                    for r in ra { $write_record(&mut $w, r)?; }
                    $tf(&mut $w)?;
                    for r in &rb[..third] { $write_record(&mut $w, r)?; }
                    $tf(&mut $w)?;
                    for r in &rb[third..] { $write_record(&mut $w, r)?; }
                }
                "fl-h-r-drop" => {
                    $fl(&mut $w)?;
                    $write_header(&mut $w)?;
                    for r in $records.iter() { $write_record(&mut $w, r)?; }
                }
                _ => return Err(bad()),
            }
            drop($w);
            Ok(())
        }};
    }
    macro_rules! index {
        ($w:ident, $write_index:expr, $tf:expr, $fl:expr) => {{
            match seq {
                "i-tf-drop" => {
                    $write_index(&mut $w)?;
                    $tf(&mut $w)?;
                }
                "i-fl-drop" => {
                    $write_index(&mut $w)?;
                    $fl(&mut $w)?;
                }
                "tf-i-drop" => {
                    $tf(&mut $w)?;
                    $write_index(&mut $w)?;
                }
                "tf-tf-i-drop" => {
                    $tf(&mut $w)?;
                    $tf(&mut $w)?;
                    $write_index(&mut $w)?;
                }
                "fl-i-drop" => {
                    $fl(&mut $w)?;
                    $write_index(&mut $w)?;
                }
                "i-fl-tf-drop" => {
                    $write_index(&mut $w)?;
                    $fl(&mut $w)?;
                    $tf(&mut $w)?;
                }
                _ => return Err(bad()),
            }
            drop($w);
            Ok(())
        }};
    }
    match (&p.model, p.kind) {
        (Model::Alignment { header, records }, Kind::Bam) => {
            let mut w = bam::io::Writer::new(sink);
            records!(
                w, header, records,
                |w: &mut bam::io::Writer<bgzf::io::Writer<W>>| w.write_header(header),
                |w: &mut bam::io::Writer<bgzf::io::Writer<W>>, r: &sam::alignment::RecordBuf| w.write_alignment_record(header, r),
                |w: &mut bam::io::Writer<bgzf::io::Writer<W>>| w.try_finish(),
                |w: &mut bam::io::Writer<bgzf::io::Writer<W>>| w.get_mut().flush()
            )
        }
        (Model::Alignment { header, records }, Kind::SamGz) => {
            let mut w = sam::io::Writer::new(bgzf::io::Writer::new(sink));
            records!(
                w, header, records,
                |w: &mut sam::io::Writer<bgzf::io::Writer<W>>| w.write_header(header),
                |w: &mut sam::io::Writer<bgzf::io::Writer<W>>, r: &sam::alignment::RecordBuf| w.write_alignment_record(header, r),
                |w: &mut sam::io::Writer<bgzf::io::Writer<W>>| w.get_mut().try_finish(),
                |w: &mut sam::io::Writer<bgzf::io::Writer<W>>| w.get_mut().flush()
            )
        }
        (Model::Variant { header, records }, Kind::Bcf) => {
            let mut w = bcf::io::Writer::new(sink);
            records!(
                w, header, records,
                |w: &mut bcf::io::Writer<bgzf::io::Writer<W>>| w.write_header(header),
                |w: &mut bcf::io::Writer<bgzf::io::Writer<W>>, r: &vcf::variant::RecordBuf| w.write_variant_record(header, r),
                |w: &mut bcf::io::Writer<bgzf::io::Writer<W>>| w.try_finish(),
                |w: &mut bcf::io::Writer<bgzf::io::Writer<W>>| w.get_mut().flush()
            )
        }
        (Model::Variant { header, records }, Kind::VcfGz) => {
            let mut w = vcf::io::Writer::new(bgzf::io::Writer::new(sink));
            records!(
                w, header, records,
                |w: &mut vcf::io::Writer<bgzf::io::Writer<W>>| w.write_header(header),
                |w: &mut vcf::io::Writer<bgzf::io::Writer<W>>, r: &vcf::variant::RecordBuf| w.write_variant_record(header, r),
                |w: &mut vcf::io::Writer<bgzf::io::Writer<W>>| w.get_mut().try_finish(),
                |w: &mut vcf::io::Writer<bgzf::io::Writer<W>>| w.get_mut().flush()
            )
        }
        (Model::Csi(index), _) => {
            let mut w = noodles_csi::io::Writer::new(sink);
            index!(
                w,
                |w: &mut noodles_csi::io::Writer<W>| w.write_index(index),
                |w: &mut noodles_csi::io::Writer<W>| w.get_mut().try_finish(),
                |w: &mut noodles_csi::io::Writer<W>| w.get_mut().flush()
            )
        }
        (Model::Tbi(index), _) => {
            let mut w = noodles_tabix::io::Writer::new(sink);
            index!(
                w,
                |w: &mut noodles_tabix::io::Writer<W>| w.write_index(index),
                |w: &mut noodles_tabix::io::Writer<W>| w.try_finish(),
                |w: &mut noodles_tabix::io::Writer<W>| w.get_mut().flush()
            )
        }
        _ => Err(bad()),
    }
}
