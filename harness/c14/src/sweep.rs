//! Block-boundary sweep: synthetic CSI and tabix indexes whose serialized (uncompressed) size is padded — through the
//! length of a reference sequence name in the tabix-style header — so that the offset at which the BGZF writer
//! emits a block by itself (`end::bgzf_limit()`, measured) falls on every byte offset of the final 64 bytes of the
//! index (last chunk, metadata pseudo-bin / linear index, n_no_coor): one item per offset. A write into a BGZF writer
//! can only fail when it makes the staging buffer reach that limit, so a discarded result of one particular small
//! write is observable only in the item whose boundary falls inside that field.

use bstr::BString;
use corpus::{Item, Kind, Side};
use indexmap::IndexMap;
use noodles_bgzf as bgzf;
use noodles_csi::{
    self as csi,
    binning_index::index::{
        Header, ReferenceSequence,
        reference_sequence::{Bin, Metadata, bin::Chunk},
    },
};
use noodles_tabix as tabix;

pub const TAIL: usize = 64;

fn vp(n: u64) -> bgzf::VirtualPosition {
    bgzf::VirtualPosition::from(n << 16)
}

fn chunks(n: u64, base: u64) -> Vec<Chunk> {
    (0..n).map(|i| Chunk::new(vp(base + i), vp(base + i + 1))).collect()
}

fn header(pad: usize) -> Header {
    let names: indexmap::IndexSet<BString> = [BString::from("sq0"), BString::from(vec![b'n'; pad.max(1)]), BString::from("sq2")].into_iter().collect();
    csi::binning_index::index::header::Builder::vcf().set_reference_sequence_names(names).build()
}

fn csi_index(chunk_count: u64, pad: usize) -> csi::Index {
    let big: IndexMap<usize, Bin> = [(4681, Bin::new(chunks(chunk_count, 1)))].into_iter().collect();
    let big_index: IndexMap<usize, bgzf::VirtualPosition> = [(4681, vp(1))].into_iter().collect();
    let last: IndexMap<usize, Bin> = [(4682, Bin::new(chunks(2, 90_000)))].into_iter().collect();
    let last_index: IndexMap<usize, bgzf::VirtualPosition> = [(4682, vp(90_000))].into_iter().collect();
    let refs = vec![
        ReferenceSequence::new(big, big_index, None),
        ReferenceSequence::new(Default::default(), Default::default(), None),
        ReferenceSequence::new(last, last_index, Some(Metadata::new(vp(90_000), vp(90_002), 7, 3))),
    ];
    csi::Index::builder().set_header(header(pad)).set_reference_sequences(refs).set_unplaced_unmapped_record_count(0x0d15_2237_5990_e979).build()
}

fn tbi_index(chunk_count: u64, pad: usize) -> tabix::Index {
    let big: IndexMap<usize, Bin> = [(4681, Bin::new(chunks(chunk_count, 1)))].into_iter().collect();
    let last: IndexMap<usize, Bin> = [(4682, Bin::new(chunks(2, 90_000)))].into_iter().collect();
    let refs = vec![
        ReferenceSequence::new(big, vec![vp(1)], None),
        ReferenceSequence::new(Default::default(), Vec::new(), None),
        ReferenceSequence::new(last, (0..7).map(|i| vp(90_000 + i / 4)).collect(), Some(Metadata::new(vp(90_000), vp(90_002), 7, 3))),
    ];
    tabix::Index::builder().set_header(header(pad)).set_reference_sequences(refs).set_unplaced_unmapped_record_count(0x0d15_2237_5990_e979).build()
}

fn write_csi(index: &csi::Index) -> Option<Vec<u8>> {
    let mut w = csi::io::Writer::new(Vec::new());
    w.write_index(index).ok()?;
    w.into_inner().finish().ok()
}

fn write_tbi(index: &tabix::Index) -> Option<Vec<u8>> {
    let mut w = tabix::io::Writer::new(Vec::new());
    w.write_index(index).ok()?;
    w.into_inner().finish().ok()
}

fn inflated_len(bytes: &[u8]) -> Option<usize> {
    vcore::bgzf::walk(bytes).ok().map(|w| w.members.iter().map(|m| m.data.len()).sum())
}

/// `(item, d)`: the block boundary lies `d` bytes before the end of the serialized index (d = 0: the last write fills
/// the block exactly). Items whose layout could not be produced are left out (the floors of the monitor notice).
pub fn items(limit: usize) -> Vec<(Item, usize)> {
    let mut out = Vec::new();
    if limit < 4096 {
        return out;
    }
    let chunk_count = ((limit - 3000) / 16) as u64;
    for kind in [Kind::Csi, Kind::Tbi] {
        let write = |pad: usize| -> Option<Vec<u8>> {
            match kind {
                Kind::Csi => write_csi(&csi_index(chunk_count, pad)),
                _ => write_tbi(&tbi_index(chunk_count, pad)),
            }
        };
        let Some(t1) = write(1).as_deref().and_then(inflated_len) else { continue };
        for d in 0..=TAIL {
            // total = limit + d
            let Some(pad) = (limit + d + 1).checked_sub(t1) else { continue };
            let Some(bytes) = write(pad) else { continue };
            if inflated_len(&bytes) != Some(limit + d) {
                continue;
            }
            let item = Item { kind, name: format!("{}/block-boundary-sweep-d{d:02}", kind.name()), bytes, side: Side { writable: true, ..Side::default() } };
            out.push((item, d));
        }
    }
    out
}

// ---------------------------------------------------------------------------------------------------------------
// record writers on a BGZF writer: the boundary sweeps over the end of the header and the start of the first record

/// Offsets swept: `header_end - BEFORE + j` for `j in 0..SPAN` (header_end = start of the first record in the inflated
/// stream): the tail of the header text, BAM n_ref / l_name / name / l_ref, the first record's size fields and fixed
/// part; for the text kinds the last header line and the first record line.
pub const BEFORE: usize = 24;
pub const SPAN: usize = 64;

pub fn inflated_header_end(kind: Kind, payload: &[u8]) -> usize {
    fn text_header_end(bytes: &[u8], lead: u8) -> usize {
        let mut p = 0usize;
        while p < bytes.len() && bytes[p] == lead {
            match bytes[p..].iter().position(|&b| b == b'\n') {
                Some(i) => p += i + 1,
                None => return bytes.len(),
            }
        }
        p
    }
    match kind {
        Kind::Bam => corpus::bounds::bam_record_offsets(payload).and_then(|v| v.first().copied()).unwrap_or(0),
        Kind::Bcf => corpus::bounds::bcf_record_offsets(payload).and_then(|v| v.first().copied()).unwrap_or(0),
        Kind::SamGz => text_header_end(payload, b'@'),
        Kind::VcfGz => text_header_end(payload, b'#'),
        _ => 0,
    }
}

fn sam_model(pad: usize) -> Vec<u8> {
    let mut t = Vec::new();
    t.extend_from_slice(b"@HD\tVN:1.6\tSO:coordinate\n@SQ\tSN:sq0\tLN:100000\n@SQ\tSN:sq1\tLN:5000\n@CO\t");
    t.extend(std::iter::repeat(b'c').take(pad.max(1)));
    t.extend_from_slice(b"\n");
    for i in 0..4 {
        t.extend_from_slice(format!("read{i}\t0\tsq0\t{}\t60\t8M\t*\t0\t0\tACGTACGT\tIIIIIIII\tNM:i:{i}\tXS:Z:boundary\n", 10 + i * 7).as_bytes());
    }
    t
}

fn vcf_model(pad: usize) -> Vec<u8> {
    let mut t = Vec::new();
    t.extend_from_slice(b"##fileformat=VCFv4.3\n##contig=<ID=sq0,length=100000>\n##INFO=<ID=DP,Number=1,Type=Integer,Description=\"Depth\">\n##FORMAT=<ID=GT,Number=1,Type=String,Description=\"Genotype\">\n##pad=");
    t.extend(std::iter::repeat(b'c').take(pad.max(1)));
    t.extend_from_slice(b"\n#CHROM\tPOS\tID\tREF\tALT\tQUAL\tFILTER\tINFO\tFORMAT\ts0\n");
    for i in 0..4 {
        t.extend_from_slice(format!("sq0\t{}\trs{i}\tA\tC\t30\tPASS\tDP={}\tGT\t0/1\n", 100 + i * 13, 5 + i).as_bytes());
    }
    t
}

/// `(item, j)`: the block boundary lies at inflated offset `header_end - BEFORE + j`.
pub fn record_items(limit: usize) -> Vec<(Item, usize)> {
    let mut out = Vec::new();
    if limit < 4096 {
        return out;
    }
    for kind in [Kind::Bam, Kind::Bcf, Kind::SamGz, Kind::VcfGz] {
        let build = |pad: usize| -> Option<(Item, usize)> {
            let model = if matches!(kind, Kind::Bam | Kind::SamGz) { sam_model(pad) } else { vcf_model(pad) };
            let mut item = Item { kind, name: String::new(), bytes: Vec::new(), side: Side { writable: true, model: Some(model), ..Side::default() } };
            let mut bytes = Vec::new();
            corpus::write_history(&item, &mut bytes).ok()?;
            let payload = vcore::bgzf::walk(&bytes).ok()?.concat();
            let he = inflated_header_end(kind, &payload);
            item.bytes = bytes;
            Some((item, he))
        };
        let p1 = limit - 3000;
        let Some((_, he1)) = build(p1) else { continue };
        for j in 0..SPAN {
            // want: limit == header_end - BEFORE + j
            let Some(pad) = (p1 + limit + BEFORE).checked_sub(he1 + j) else { continue };
            let Some((mut item, he)) = build(pad) else { continue };
            if he + j != limit + BEFORE {
                continue;
            }
            item.name = format!("{}/block-boundary-sweep-header-end{:+03}", kind.name(), j as isize - BEFORE as isize);
            out.push((item, j));
        }
    }
    out
}
