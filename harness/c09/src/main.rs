//! C09 — stub (to be implemented).

fn main() {
    eprintln!("c09: not implemented");
    std::process::exit(2);
}
