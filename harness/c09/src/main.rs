//! C09 — VCF records and headers round-trip through text; lazy and eager views agree.
//!
//! For every generated header / record (descriptions from `genvcf`, turned into noodles values through
//! the public builders):
//!  (i)   `vcf::io::Writer` -> text -> `vcf::io::Reader` must give back the description
//!        (`read_header`, `read_record_buf`);
//!  (ii)  the emitted text is split by an independent splitter (TAB / `;` / `,` / `:` + percent
//!        decoding, typed by the header *description*) and compared column by column with the
//!        description, and the line written by an independent writer (`genvcf::to_vcf_line`) is fed to
//!        noodles' parsers — so a writer and a parser that are wrong in the same way are still caught;
//!  (iii) every accessor of the lazy `vcf::Record` read from the same line is compared with the
//!        eager `RecordBuf`, and `variant_start/variant_end/variant_span` of both are compared with
//!        each other and with the independent `genvcf::span`.

use std::collections::BTreeSet;

use genvcf::{
    FieldDef, FilterDef, GtAllele, HeaderDesc, HeaderOpts, IdxMode, Model, Num, RecDesc, RecOpts, Tol, Ty, Val, canon_first_phasing, diff_headers, diff_records, features, gen_header, gen_record, gen_rich_record, minimal_record,
    header_desc_of, header_from_text, io_err_class, rec_desc_of_buf, rec_desc_of_record, rec_from_line, series_of_record, span, to_noodles_header, to_record_buf, to_vcf_header, to_vcf_line,
};
use noodles_vcf as vcf;
use serde_json::json;
use vcf::variant::io::Write as _;
use vcore::{CaseOut, Ctx, Report, Rng, guard, rng::fnv1a, run_cases};

#[derive(Clone, Debug)]
struct Case {
    /// "corpus" | "records" | "headers"
    kind: &'static str,
    seed: u64,
    n: usize,
    fileformat: Option<(u32, u32)>,
    idx: IdxMode,
    model: Model,
}

fn case_json(c: &Case) -> serde_json::Value {
    json!({"kind": c.kind, "seed": c.seed, "n": c.n, "fileformat": c.fileformat.map(|f| format!("{}.{}", f.0, f.1)), "idx": format!("{:?}", c.idx), "model": format!("{:?}", c.model)})
}

fn lossy(b: &[u8]) -> String {
    let s = String::from_utf8_lossy(b);
    let s = s.trim_end_matches('\n');
    if s.len() > 600 { format!("{}…", &s[..s.char_indices().take_while(|(i, _)| *i < 600).last().map(|(i, c)| i + c.len_utf8()).unwrap_or(0)]) } else { s.to_string() }
}

/// Classes of header aspects: all IDX -> "IDX", else the first aspect.
fn aspect_class(d: &[(String, String)]) -> String {
    if d.iter().all(|(a, _)| a.ends_with(".IDX")) { "IDX".into() } else { d.iter().find(|(a, _)| !a.ends_with(".IDX")).map(|(a, _)| a.clone()).unwrap_or_default() }
}

fn check_header(hd: &HeaderDesc, out: &mut CaseOut) -> Option<(vcf::Header, String, bool)> {
    out.count("headers", 1);
    let header = match to_noodles_header(hd) {
        Ok(h) => h,
        Err(e) => {
            out.inconclusive.push(format!("generator produced a header the builders refuse: {e}"));
            return None;
        }
    };
    let written = guard::catch(|| {
        let mut w = vcf::io::Writer::new(Vec::new());
        w.write_header(&header).map(|_| w.into_inner())
    });
    let text = match written {
        Err(p) => {
            out.violation(format!("panic:{}", p.sig), format!("write_header panicked: {} [{}]", p.message, to_vcf_header(hd)));
            return None;
        }
        Ok(Err(e)) => {
            out.count(&format!("header_rejected[{}]", io_err_class(&e)), 1);
            return None;
        }
        Ok(Ok(b)) => match String::from_utf8(b) {
            Ok(s) => s,
            Err(_) => {
                out.violation("header-emitted-text:not-utf8", "the emitted header is not UTF-8");
                return None;
            }
        },
    };
    out.count("headers_accepted", 1);
    out.count(&format!("headers_fileformat[{}.{}]", hd.fileformat.0, hd.fileformat.1), 1);
    if hd.has_explicit_idx() {
        out.count("headers_with_explicit_idx", 1);
    }
    {
        use genvcf::OtherLine;
        let mut keys: Vec<&str> = Vec::new();
        for l in &hd.others {
            if !keys.contains(&l.key()) {
                keys.push(l.key());
            }
        }
        for k in keys {
            let pos: Vec<usize> = hd.others.iter().enumerate().filter(|(_, l)| l.key() == k).map(|(i, _)| i).collect();
            let lines: Vec<&OtherLine> = pos.iter().map(|i| &hd.others[*i]).collect();
            if lines.len() < 2 {
                continue;
            }
            if let OtherLine::Unstructured { .. } = lines[0] {
                let mut best = 0;
                let mut adjacent = false;
                let mut separated = false;
                for (a, la) in lines.iter().enumerate() {
                    let same: Vec<usize> = (0..lines.len()).filter(|b| lines[*b] == *la).collect();
                    best = best.max(same.len());
                    for b in &same {
                        if *b > a {
                            if pos[*b] == pos[a] + 1 { adjacent = true } else { separated = true }
                        }
                    }
                }
                if best >= 2 {
                    out.count(&format!("headers_other_unstructured_equal_copies[{}]", if best >= 3 { "3+" } else { "2" }), 1);
                    if adjacent {
                        out.count("headers_other_unstructured_equal_copies[adjacent]", 1);
                    }
                    if separated {
                        out.count("headers_other_unstructured_equal_copies[separated]", 1);
                    }
                }
                if lines.iter().any(|l| *l != lines[0]) {
                    out.count("headers_other_unstructured_same_key_distinct_values", 1);
                }
            } else {
                let f = |l: &OtherLine| if let OtherLine::Structured { fields, .. } = l { fields.clone() } else { vec![] };
                if lines.iter().skip(1).any(|l| f(l) == f(lines[0])) {
                    out.count("headers_other_structured_equal_fields", 1);
                }
            }
        }
    }
    // (ii) the emitted text, read by the independent splitter
    let mut reported: BTreeSet<String> = BTreeSet::new();
    match header_from_text(&text) {
        Err(e) => out.violation("header-emitted-text:unreadable-by-independent-splitter", format!("{e}\n{text}")),
        Ok(got) => {
            let d = diff_headers(hd, &got);
            if !d.is_empty() {
                out.violation(format!("header-emitted-text-ne-desc:{}", aspect_class(&d)), format!("the header text written by vcf::io::Writer does not carry the description: {:?}\n{}", &d[..d.len().min(4)], text));
                reported.extend(d.into_iter().map(|x| x.0));
            }
        }
    }
    // (i) parse(write(h)) == h
    let read = guard::catch(|| vcf::io::Reader::new(text.as_bytes()).read_header());
    let mut read_err: Option<String> = None;
    match read {
        Err(p) => out.violation(format!("panic:{}", p.sig), format!("read_header panicked on the writer's output: {}\n{text}", p.message)),
        Ok(Err(e)) => {
            out.violation(format!("header-reader-rejects-writer-output:{}", io_err_class(&e)), format!("{e:?}\n{text}"));
            read_err = Some(io_err_class(&e));
        }
        Ok(Ok(h2)) => {
            let d: Vec<_> = diff_headers(hd, &header_desc_of(&h2)).into_iter().filter(|x| !reported.contains(&x.0)).collect();
            if !d.is_empty() {
                out.violation(format!("header-roundtrip-ne:{}", aspect_class(&d)), format!("parse(write(header)) differs: {:?}\n{}", &d[..d.len().min(4)], text));
            }
            // write -> parse -> write is a fixed point
            let again = guard::catch(|| {
                let mut w = vcf::io::Writer::new(Vec::new());
                w.write_header(&h2).map(|_| w.into_inner())
            });
            match again {
                Err(p) => out.violation(format!("panic:{}", p.sig), format!("write_header(parsed header) panicked: {}", p.message)),
                Ok(Err(e)) => out.violation(format!("header-rewrite-rejected:{}", io_err_class(&e)), format!("{e:?}\n{text}")),
                Ok(Ok(t2)) => {
                    out.count("headers_write_parse_write", 1);
                    if t2 != text.as_bytes() && d.is_empty() {
                        let t2s = String::from_utf8_lossy(&t2).to_string();
                        let (l1, l2): (Vec<&str>, Vec<&str>) = (text.lines().collect(), t2s.lines().collect());
                        let i = l1.iter().zip(&l2).position(|(a, b)| a != b).unwrap_or(l1.len().min(l2.len()));
                        let line = l1.get(i).or(l2.get(i)).copied().unwrap_or("");
                        let key = line.strip_prefix("##").and_then(|r| r.split('=').next()).unwrap_or("column-line");
                        let cls = if ["fileformat", "INFO", "FILTER", "FORMAT", "ALT", "contig", "column-line"].contains(&key) { key.to_string() } else if line.contains("=<") { "other-structured".into() } else { "other-unstructured".into() };
                        out.violation(format!("header-write-parse-write-not-a-fixed-point:{cls}"), format!("{} vs {} lines, first difference at line {i}: {:?} vs {:?}\n{text}", l1.len(), l2.len(), l1.get(i), l2.get(i)));
                    }
                }
            }
        }
    }
    // independent text -> noodles parser
    let mine = to_vcf_header(hd);
    if mine != text {
        out.count("headers_text_differs_from_independent_writer", 1);
    }
    let read = guard::catch(|| vcf::io::Reader::new(mine.as_bytes()).read_header());
    match read {
        Err(p) => out.violation(format!("panic:{}", p.sig), format!("read_header panicked on independently written text: {}\n{mine}", p.message)),
        Ok(Err(e)) => {
            // the same rejection of the same construct was reported above
            if read_err.as_deref() != Some(io_err_class(&e).as_str()) {
                out.violation(format!("header-reader-rejects-independent-text:{}", io_err_class(&e)), format!("{e:?}\n{mine}"));
            }
        }
        Ok(Ok(h3)) => {
            let d = diff_headers(hd, &header_desc_of(&h3));
            if !d.is_empty() {
                out.violation(format!("header-parse-of-independent-text-ne-desc:{}", aspect_class(&d)), format!("{:?}\n{mine}", &d[..d.len().min(4)]));
            }
        }
    }
    Some((header, text, read_err.is_none()))
}

fn splitter_err_class(e: &str) -> &'static str {
    for (pat, cls) in [("columns", "column-count"), ("CR/LF", "raw-newline"), ("bad integer", "integer"), ("bad float", "float"), ("bad character", "character"), ("bad allele", "genotype"), ("UTF-8", "utf8"), ("more values", "sample-values"), ("without a value", "info-without-value"), ("bad POS", "pos"), ("bad QUAL", "qual"), ("LF", "no-final-lf")] {
        if e.contains(pat) {
            return cls;
        }
    }
    "other"
}

struct SpanView {
    start: Option<Result<u64, String>>,
    end: Result<u64, String>,
    span: Result<u64, String>,
}

fn span_view<R: vcf::variant::Record + ?Sized>(h: &vcf::Header, r: &R) -> SpanView {
    SpanView {
        start: r.variant_start().map(|p| p.map(|p| usize::from(p) as u64).map_err(|e| io_err_class(&e))),
        end: r.variant_end(h).map(|p| usize::from(p) as u64).map_err(|e| io_err_class(&e)),
        span: r.variant_span(h).map(|p| p as u64).map_err(|e| io_err_class(&e)),
    }
}

/// Extra direct calls of the lazy record's inherent accessors (beyond the trait view).
fn lazy_inherent(header: &vcf::Header, rec: &vcf::Record, view: &RecDesc, eager: Option<&vcf::variant::RecordBuf>, out: &mut CaseOut, ctxs: &str) {
    use vcf::variant::record::{AlternateBases as _, Filters as _, Ids as _, samples::Series as _};
    macro_rules! bad {
        ($what:expr, $detail:expr) => {
            out.violation(format!("lazy-inherent-accessor-ne-trait-view:{}", $what), format!("{}\n{ctxs}", $detail))
        };
    }
    if rec.reference_sequence_name() != view.chrom {
        bad!("reference_sequence_name", format!("{:?} vs {:?}", rec.reference_sequence_name(), view.chrom));
    }
    if rec.reference_bases() != view.reference {
        bad!("reference_bases", format!("{:?} vs {:?}", rec.reference_bases(), view.reference));
    }
    if rec.ids().len() != view.ids.len() || rec.ids().is_empty() != view.ids.is_empty() {
        bad!("ids.len", format!("{} vs {}", rec.ids().len(), view.ids.len()));
    }
    if rec.alternate_bases().len() != view.alts.len() || rec.alternate_bases().is_empty() != view.alts.is_empty() {
        bad!("alternate_bases.len", format!("{} vs {}", rec.alternate_bases().len(), view.alts.len()));
    }
    if rec.filters().len() != view.filters.len() || rec.filters().is_empty() != view.filters.is_empty() {
        bad!("filters.len", format!("{} vs {}", rec.filters().len(), view.filters.len()));
    }
    {
        use vcf::variant::record::Info as _;
        let info = rec.info();
        if info.len() != view.info.len() || vcf::variant::record::Info::is_empty(&info) != view.info.is_empty() {
            bad!("info.len", format!("{} vs {}", info.len(), view.info.len()));
        }
        // get(key) for every key and for an absent key
        for (k, v) in &view.info {
            match info.get(header, k) {
                None => bad!("info.get", format!("get({k:?}) = None")),
                Some(Err(e)) => bad!("info.get", format!("get({k:?}) = Err({e})")),
                Some(Ok(got)) => {
                    let got = got.map(|g| vcf::variant::record_buf::info::field::Value::try_from(g));
                    let got = match got {
                        None => None,
                        Some(Ok(g)) => Some(g),
                        Some(Err(e)) => {
                            bad!("info.get", format!("get({k:?}) value conversion failed: {e}"));
                            continue;
                        }
                    };
                    let exp = v.as_ref().map(|v| genvcf_info_value(v));
                    let same = match (&got, &exp) {
                        (None, None) => true,
                        (Some(a), Some(b)) => format!("{a:?}") == format!("{b:?}"),
                        _ => false,
                    };
                    if !same {
                        bad!("info.get", format!("get({k:?}) = {got:?}, iteration gave {exp:?}"));
                    }
                }
            }
        }
        if info.get(header, "no_such_key_").is_some() {
            bad!("info.get", "get(absent key) is Some");
        }
    }
    let samples = rec.samples();
    if samples.is_empty() != view.samples.is_empty() && !view.format.is_empty() {
        bad!("samples.is_empty", format!("{} vs {} rows", samples.is_empty(), view.samples.len()));
    }
    let keys: Vec<String> = samples.keys().iter().map(String::from).collect();
    if keys != view.format {
        bad!("samples.keys", format!("{keys:?} vs {:?}", view.format));
    }
    if samples.iter().count() != view.samples.len() {
        bad!("samples.iter.count", format!("{} vs {}", samples.iter().count(), view.samples.len()));
    }
    for (fi, k) in view.format.iter().enumerate() {
        match samples.select(k) {
            None => bad!("samples.select", format!("select({k:?}) = None")),
            Some(series) => {
                if series.name(header).ok() != Some(k.as_str()) {
                    bad!("series.name", format!("{:?} vs {k:?}", series.name(header).ok()));
                }
                let eager_series = eager.and_then(|b| b.samples().select(k));
                for (si, row) in view.samples.iter().enumerate() {
                    let exp = row.get(fi).cloned().unwrap_or(None);
                    // shape of the answer: no such sample / missing / value, against the eager series
                    let exp_shape = match &eager_series {
                        Some(es) => match es.get(si) {
                            None => "none",
                            Some(None) => "missing",
                            Some(Some(_)) => "value",
                        },
                        None => if exp.is_some() { "value" } else { "missing" },
                    };
                    let lazy_answer = series.get(header, si);
                    let got_shape = match &lazy_answer {
                        None => "none",
                        Some(None) => "missing",
                        Some(Some(Err(_))) => "error",
                        Some(Some(Ok(_))) => "value",
                    };
                    if got_shape != exp_shape {
                        out.violation(format!("lazy-series-get-ne-eager:{got_shape}-vs-{exp_shape}"), format!("Series::get({si}) of key {k:?}: lazy answers {got_shape:?}, eager {exp_shape:?} (none = no such sample)\n{ctxs}"));
                        continue;
                    }
                    let got = match lazy_answer {
                        Some(Some(Ok(v))) => match genvcf::conv::val_of_series_ref(v) {
                            Ok(v) => Some(v),
                            Err(e) => {
                                out.violation("lazy-inherent-accessor-ne-trait-view:series.get", format!("get({si}) value unreadable: {e}\n{ctxs}"));
                                continue;
                            }
                        },
                        _ => None,
                    };
                    if !genvcf::opt_val_eq(&exp, &got, &Tol::TEXT) {
                        out.violation("lazy-inherent-accessor-ne-trait-view:series.get", format!("key {k:?} sample {si}: {} vs {}\n{ctxs}", genvcf::show_val(&exp), genvcf::show_val(&got)));
                    }
                }
                if series.get(header, view.samples.len()).is_some() {
                    bad!("series.get", "get(sample count) is Some");
                }
            }
        }
    }
    if samples.select("no_such_key_").is_some() {
        bad!("samples.select", "select(absent key) is Some");
    }
    for (si, name) in header.sample_names().iter().enumerate() {
        if samples.get(header, name).is_some() != (si < view.samples.len()) || samples.get_index(si).is_some() != (si < view.samples.len()) {
            bad!("samples.get", format!("get({name:?}) / get_index({si}) presence differs from the row count {}", view.samples.len()));
        }
    }
}

fn genvcf_info_value(v: &Val) -> vcf::variant::record_buf::info::field::Value {
    // through the record builder (keeps this file free of a second conversion table)
    let r = RecDesc { chrom: "x".into(), pos: 1, ids: vec![], reference: "A".into(), alts: vec![], qual: None, filters: vec![], info: vec![("k".into(), Some(v.clone()))], format: vec![], samples: vec![] };
    to_record_buf(&r).info().as_ref().get_index(0).and_then(|(_, v)| v.clone()).expect("value")
}

/// An accepted record for the whole-file passes: the emitted line, the (canonical) description and the
/// fresh eager decode of the line read alone.
struct Accepted {
    line: Vec<u8>,
    exp: RecDesc,
    fresh: RecDesc,
}

struct RecResult {
    line: Option<Accepted>,
}

fn check_record(hd: &HeaderDesc, header: &vcf::Header, rd: &RecDesc, out: &mut CaseOut) -> RecResult {
    let ff = hd.fileformat;
    out.count("records", 1);
    let buf = to_record_buf(rd);
    let written = guard::catch(|| {
        let mut w = vcf::io::Writer::new(Vec::new());
        w.write_variant_record(header, &buf).map(|_| w.into_inner())
    });
    let mine = to_vcf_line(rd, hd);
    let line = match written {
        Err(p) => {
            out.violation(format!("panic:{}", p.sig), format!("write_variant_record panicked: {} on {}", p.message, lossy(&mine)));
            return RecResult { line: None };
        }
        Ok(Err(e)) => {
            out.count(&format!("rejected[{}]", io_err_class(&e)), 1);
            return RecResult { line: None };
        }
        Ok(Ok(l)) => l,
    };
    out.count("records_accepted", 1);
    let ctxs = format!("emitted line: {}\nfileformat {}.{}", lossy(&line), ff.0, ff.1);
    // The description's first-allele phasing is brought to the spec rule where the text cannot carry it
    // (before VCF 4.4: phased iff every other separator is `|`); whatever is READ is compared exactly
    // against that — and lazy vs eager views of the same bytes exactly against each other.
    let exp = {
        let mut r = rd.clone();
        if ff < (4, 4) {
            canon_first_phasing(&mut r);
        }
        r
    };
    let canon = |r: RecDesc| -> RecDesc { r };
    let mut bad: BTreeSet<String> = BTreeSet::new();
    let colkey = |d: &genvcf::FieldDiff| format!("{}|{}", d.column, d.key);

    // (ii) the emitted line, column by column
    match rec_from_line(&line, hd) {
        Err(e) => {
            out.violation(format!("emitted-line-unreadable-by-independent-splitter:{}", splitter_err_class(&e)), format!("{e}\n{ctxs}"));
            bad.insert("*".into());
        }
        Ok(cols) => {
            out.count("lines_split_and_compared_columnwise", 1);
            for d in diff_records(&exp, &canon(cols), &Tol::TEXT) {
                out.violation(format!("emitted-column-ne-desc:{}:{}", d.column, d.class), format!("{} {}: {}\n{ctxs}", d.column, d.key, d.detail));
                bad.insert(colkey(&d));
            }
        }
    }
    if line == mine {
        out.count("lines_byte_identical_to_independent_writer", 1);
    }

    // (i) eager read of the writer's line
    let eager = guard::catch(|| {
        let mut r = vcf::io::Reader::new(&line[..]);
        let mut b = vcf::variant::RecordBuf::default();
        r.read_record_buf(header, &mut b).map(|n| (n, b))
    });
    let mut eager_err: Option<String> = None;
    let eager_buf = match eager {
        Err(p) => {
            out.violation(format!("panic:{}", p.sig), format!("read_record_buf panicked: {}\n{ctxs}", p.message));
            None
        }
        Ok(Err(e)) => {
            let cls = io_err_class(&e);
            if !bad.contains("*") {
                out.violation(format!("eager-read-rejects-writer-output:{cls}"), format!("{e:?}\n{ctxs}"));
            }
            eager_err = Some(cls);
            None
        }
        Ok(Ok((n, b))) => {
            if n != line.len() {
                out.violation("eager-read:byte-count", format!("read_record_buf returned {n} for a line of {} bytes\n{ctxs}", line.len()));
            }
            Some(b)
        }
    };
    let eager_desc = eager_buf.as_ref().map(|b| canon(rec_desc_of_buf(b)));
    if let Some(got) = &eager_desc {
        for d in diff_records(&exp, got, &Tol::TEXT) {
            if !bad.contains(&colkey(&d)) && !bad.contains("*") {
                out.violation(format!("eager-roundtrip-ne-desc:{}:{}", d.column, d.class), format!("{} {}: {}\n{ctxs}", d.column, d.key, d.detail));
                bad.insert(colkey(&d));
            }
        }
    }

    // (iii) lazy record from the same line
    let lazy = guard::catch(|| {
        let mut r = vcf::io::Reader::new(&line[..]);
        let mut rec = vcf::Record::default();
        r.read_record(&mut rec).map(|n| (n, rec))
    });
    let lazy_rec = match lazy {
        Err(p) => {
            out.violation(format!("panic:{}", p.sig), format!("read_record panicked: {}\n{ctxs}", p.message));
            None
        }
        Ok(Err(e)) => {
            out.violation(format!("lazy-read-rejects-writer-output:{}", io_err_class(&e)), format!("{e:?}\n{ctxs}"));
            None
        }
        Ok(Ok((n, rec))) => {
            if n != line.len() {
                out.violation("lazy-read:byte-count", format!("read_record returned {n} for a line of {} bytes\n{ctxs}", line.len()));
            }
            Some(rec)
        }
    };
    if let Some(rec) = &lazy_rec {
        // the reference the lazy accessors are held against: the eager record; the description when
        // the eager reader failed on this line
        let (reference, refname) = match &eager_desc {
            Some(e) => (e.clone(), "eager"),
            None => (exp.clone(), "desc"),
        };
        let view = guard::catch(|| rec_desc_of_record(header, rec));
        match view {
            Err(p) => out.violation(format!("panic:{}", p.sig), format!("a lazy accessor panicked: {}\n{ctxs}", p.message)),
            Ok(Err(e)) => out.violation(format!("lazy-accessor-error:{}", io_err_class(&e)), format!("{e:?}\n{ctxs}")),
            Ok(Ok(v)) => {
                out.count("lazy_records_compared_with_eager", (refname == "eager") as u64);
                let v = canon(v);
                for d in diff_records(&reference, &v, &Tol::TEXT) {
                    if refname == "eager" || !bad.contains(&colkey(&d)) {
                        out.violation(format!("lazy-ne-{refname}:{}:{}", d.column, d.class), format!("{} {}: {}\n{ctxs}", d.column, d.key, d.detail));
                    }
                }
                // column-wise view must agree with the row-wise one
                match guard::catch(|| series_of_record(header, rec)) {
                    Err(p) => out.violation(format!("panic:{}", p.sig), format!("a lazy series accessor panicked: {}\n{ctxs}", p.message)),
                    Ok(Err(e)) => out.violation(format!("lazy-series-error:{}", io_err_class(&e)), format!("{e:?}\n{ctxs}")),
                    Ok(Ok(series)) => {
                        let names: Vec<&String> = series.iter().map(|s| &s.0).collect();
                        if names != v.format.iter().collect::<Vec<_>>() {
                            out.violation("lazy-series-ne-rows:names", format!("{names:?} vs {:?}\n{ctxs}", v.format));
                        } else {
                            for (fi, (k, col)) in series.iter().enumerate() {
                                if col.len() != v.samples.len() {
                                    out.violation("lazy-series-ne-rows:length", format!("series {k}: {} values, {} samples\n{ctxs}", col.len(), v.samples.len()));
                                    continue;
                                }
                                for (si, got) in col.iter().enumerate() {
                                    let e = v.samples[si].get(fi).cloned().unwrap_or(None);
                                    let g = got.clone();
                                    if !genvcf::opt_val_eq(&e, &g, &Tol::TEXT) {
                                        out.violation(format!("lazy-series-ne-rows:{}", genvcf::classify(&e, &g)), format!("series {k} sample {si}: {} vs {}\n{ctxs}", genvcf::show_val(&e), genvcf::show_val(&g)));
                                    }
                                }
                            }
                        }
                    }
                }
                // RecordBuf::try_from_variant_record(lazy) == view
                match guard::catch(|| vcf::variant::RecordBuf::try_from_variant_record(header, rec)) {
                    Err(p) => out.violation(format!("panic:{}", p.sig), format!("try_from_variant_record panicked: {}\n{ctxs}", p.message)),
                    Ok(Err(e)) => out.violation(format!("lazy-convert-error:{}", io_err_class(&e)), format!("{e:?}\n{ctxs}")),
                    Ok(Ok(b)) => {
                        for d in diff_records(&v, &canon(rec_desc_of_buf(&b)), &Tol::TEXT) {
                            out.violation(format!("lazy-convert-ne-accessors:{}:{}", d.column, d.class), format!("{} {}: {}\n{ctxs}", d.column, d.key, d.detail));
                        }
                    }
                }
                if let Err(p) = guard::catch(|| lazy_inherent(header, rec, &v, eager_buf.as_ref(), out, &ctxs)) {
                    out.violation(format!("panic:{}", p.sig), format!("an inherent lazy accessor panicked: {}\n{ctxs}", p.message));
                }
                out.count("lazy_records_read_through_every_accessor", 1);
                // the lazy record is a record too: writing it and parsing the text back must give it again
                let rew = guard::catch(|| {
                    let mut w = vcf::io::Writer::new(Vec::new());
                    w.write_record(header, rec).map(|_| w.into_inner())
                });
                match rew {
                    Err(p) => out.violation(format!("panic:{}", p.sig), format!("write_record(lazy record) panicked: {}\n{ctxs}", p.message)),
                    Ok(Err(e)) => out.count(&format!("lazy_rewrite_rejected[{}]", io_err_class(&e)), 1),
                    Ok(Ok(line2)) => {
                        out.count("lazy_records_rewritten", 1);
                        if line2 != line {
                            out.count("lazy_rewrites_differing_bytewise", 1);
                            let c3 = format!("line: {}\nrewritten from the lazy record: {}\nfileformat {}.{}", lossy(&line), lossy(&line2), ff.0, ff.1);
                            let again = guard::catch(|| {
                                let mut r = vcf::io::Reader::new(&line2[..]);
                                let mut b = vcf::variant::RecordBuf::default();
                                r.read_record_buf(header, &mut b).map(|_| b)
                            });
                            match again {
                                Err(p) => out.violation(format!("panic:{}", p.sig), format!("read_record_buf panicked: {}\n{c3}", p.message)),
                                Ok(Err(e)) => {
                                    let cls = io_err_class(&e);
                                    if eager_err.as_deref() != Some(cls.as_str()) {
                                        out.violation(format!("lazy-rewrite-unreadable:{cls}"), format!("{e:?}\n{c3}"));
                                    }
                                }
                                Ok(Ok(b)) => {
                                    for d in diff_records(&v, &canon(rec_desc_of_buf(&b)), &Tol::TEXT) {
                                        out.violation(format!("lazy-rewrite-roundtrip-ne:{}:{}", d.column, d.class), format!("{} {}: {}\n{c3}", d.column, d.key, d.detail));
                                    }
                                }
                            }
                        }
                    }
                }
            }
        }
        // spans
        let ind = span(&exp, ff);
        let ls = guard::catch(|| span_view(header, rec));
        let es = eager_buf.as_ref().map(|b| guard::catch(|| span_view(header, b)));
        match (&ls, &es) {
            (Err(p), _) => out.violation(format!("panic:{}", p.sig), format!("variant_end/span of the lazy record panicked: {}\n{ctxs}", p.message)),
            (_, Some(Err(p))) => out.violation(format!("panic:{}", p.sig), format!("variant_end/span of the eager record panicked: {}\n{ctxs}", p.message)),
            (Ok(l), e) => {
                if let Some(Ok(e)) = e {
                    let same = l.start == e.start && l.end == e.end && l.span == e.span;
                    if !same {
                        out.violation("span:lazy-ne-eager", format!("lazy start/end/span {:?}/{:?}/{:?} vs eager {:?}/{:?}/{:?}\n{ctxs}", l.start, l.end, l.span, e.start, e.end, e.span));
                    }
                    out.count("spans_lazy_vs_eager", 1);
                }
                // against the independent rule
                let subject = match e {
                    Some(Ok(e)) => e,
                    _ => l,
                };
                match &ind {
                    Ok((s, en)) => {
                        let fcls = if ff < (4, 5) { "before-4.5" } else { "from-4.5" };
                        let start_ok = match &subject.start {
                            None => rd.pos == 0,
                            Some(Ok(p)) => *p == rd.pos && rd.pos > 0,
                            Some(Err(_)) => false,
                        };
                        if !start_ok {
                            out.violation("span:variant_start-ne-desc", format!("variant_start {:?}, POS {}\n{ctxs}", subject.start, rd.pos));
                        }
                        if subject.end != Ok(*en) {
                            out.violation(format!("span:variant_end-ne-independent:{fcls}"), format!("variant_end {:?}, independent rule gives {en}\n{ctxs}", subject.end));
                        } else if subject.span != Ok(en - s + 1) {
                            out.violation(format!("span:variant_span-ne-independent:{fcls}"), format!("variant_span {:?}, independent rule gives {}\n{ctxs}", subject.span, en - s + 1));
                        }
                        out.count("spans_vs_independent_rule", 1);
                        let kind = if exp.info_get("END").map(|v| v.is_some()).unwrap_or(false) && ff < (4, 5) {
                            "END"
                        } else if ff >= (4, 5) && (en - s + 1) > exp.reference.len() as u64 {
                            "SVLEN/LEN"
                        } else {
                            "REF"
                        };
                        out.count(&format!("span_driven_by[{kind}|{fcls}]"), 1);
                    }
                    Err(_) => out.count("spans_outside_independent_rule", 1),
                }
            }
        }
    }

    // the line an independent writer produces, through noodles' parsers
    if mine != line {
        out.count("lines_differing_from_independent_writer", 1);
        let eager2 = guard::catch(|| {
            let mut r = vcf::io::Reader::new(&mine[..]);
            let mut b = vcf::variant::RecordBuf::default();
            r.read_record_buf(header, &mut b).map(|_| b)
        });
        let c2 = format!("independently written line: {}\nfileformat {}.{}", lossy(&mine), ff.0, ff.1);
        match eager2 {
            Err(p) => out.violation(format!("panic:{}", p.sig), format!("read_record_buf panicked: {}\n{c2}", p.message)),
            Ok(Err(e)) => {
                let cls = io_err_class(&e);
                if eager_err.as_deref() != Some(cls.as_str()) {
                    out.violation(format!("eager-read-rejects-independent-line:{cls}"), format!("{e:?}\n{c2}"));
                }
            }
            Ok(Ok(b)) => {
                for d in diff_records(&exp, &canon(rec_desc_of_buf(&b)), &Tol::TEXT) {
                    if !bad.contains(&colkey(&d)) {
                        out.violation(format!("eager-parse-of-independent-line-ne-desc:{}:{}", d.column, d.class), format!("{} {}: {}\n{c2}", d.column, d.key, d.detail));
                    }
                }
            }
        }
        let lazy2 = guard::catch(|| {
            let mut r = vcf::io::Reader::new(&mine[..]);
            let mut rec = vcf::Record::default();
            r.read_record(&mut rec)?;
            rec_desc_of_record(header, &rec)
        });
        match lazy2 {
            Err(p) => out.violation(format!("panic:{}", p.sig), format!("lazy read panicked: {}\n{c2}", p.message)),
            Ok(Err(e)) => out.violation(format!("lazy-read-rejects-independent-line:{}", io_err_class(&e)), format!("{e:?}\n{c2}")),
            Ok(Ok(v)) => {
                for d in diff_records(&exp, &canon(v), &Tol::TEXT) {
                    out.violation(format!("lazy-parse-of-independent-line-ne-desc:{}:{}", d.column, d.class), format!("{} {}: {}\n{c2}", d.column, d.key, d.detail));
                }
            }
        }
        out.count("independent_lines_parsed", 1);
    }

    // coverage
    for (k, v) in &rd.info {
        if let Some(d) = hd.info(k) {
            out.count(&format!("info[{}x{}]", d.num.class(), d.ty.text()), 1);
            let _ = v;
        }
    }
    for k in &rd.format {
        if let Some(d) = hd.format(k) {
            out.count(&format!("format[{}x{}]", d.num.class(), d.ty.text()), 1);
        }
    }
    out.count(&format!("records_fileformat[{}.{}]", ff.0, ff.1), 1);
    for row in &rd.samples {
        for v in row.iter().flatten() {
            if let Val::Gt(g) = v {
                gt_coverage(g, ff, out);
            }
        }
    }
    out.count(&format!("records_samples[{}]", match rd.samples.len() { 0 => "0", 1 => "1", 2..=3 => "2-3", _ => "4+" }), 1);
    RecResult { line: eager_desc.map(|fresh| Accepted { line, exp, fresh }) }
}

/// header text + accepted lines as ONE file, read the way users do: one reader, one reused buffer,
/// through every iteration API, plain and through BGZF. Every eagerly read record is compared with
/// its description (minus what the fresh single-line decode already got wrong), every lazily read
/// one with the fresh eager decode — so state left over from the previous record shows.
fn file_pass(header_text: &str, recs: &[Accepted], ff: (u32, u32), out: &mut CaseOut) {
    use std::io::Write as _;
    let mut file = header_text.as_bytes().to_vec();
    for r in recs {
        file.extend_from_slice(&r.line);
    }
    let bgzf_file = {
        let mut w = noodles_bgzf::io::Writer::new(Vec::new());
        let _ = w.write_all(&file);
        w.finish().unwrap_or_default()
    };
    let _ = ff;
    let canon = |r: RecDesc| -> RecDesc { r };
    let colkey = |d: &genvcf::FieldDiff| format!("{}|{}", d.column, d.key);
    // what differs between description and fresh decode was reported per record already
    let known: Vec<BTreeSet<String>> = recs.iter().map(|r| diff_records(&r.exp, &r.fresh, &Tol::TEXT).iter().map(colkey).collect()).collect();
    let neighbour = |i: usize| -> String { if i == 0 { "(first record)".into() } else { format!("previous line: {}", lossy(&recs[i - 1].line)) } };

    for transport in ["plain", "bgzf"] {
        for api in ["read_record_buf", "record_bufs", "read_record", "records"] {
            let res = guard::catch(|| -> std::io::Result<Vec<Result<RecDesc, String>>> {
                let src: Box<dyn std::io::BufRead + '_> = if transport == "plain" { Box::new(&file[..]) } else { Box::new(noodles_bgzf::io::Reader::new(&bgzf_file[..])) };
                let mut rd = vcf::io::Reader::new(src);
                let h = rd.read_header()?;
                let mut got: Vec<Result<RecDesc, String>> = Vec::new();
                match api {
                    "read_record_buf" => {
                        let mut buf = vcf::variant::RecordBuf::default();
                        while rd.read_record_buf(&h, &mut buf)? != 0 {
                            got.push(Ok(rec_desc_of_buf(&buf)));
                        }
                    }
                    "record_bufs" => {
                        for r in rd.record_bufs(&h) {
                            got.push(Ok(rec_desc_of_buf(&r?)));
                        }
                    }
                    "read_record" => {
                        let mut rec = vcf::Record::default();
                        while rd.read_record(&mut rec)? != 0 {
                            got.push(rec_desc_of_record(&h, &rec).map_err(|e| io_err_class(&e)));
                        }
                    }
                    _ => {
                        for r in rd.records() {
                            got.push(rec_desc_of_record(&h, &r?).map_err(|e| io_err_class(&e)));
                        }
                    }
                }
                Ok(got)
            });
            let lazy = api == "read_record" || api == "records";
            match res {
                Err(p) => out.violation(format!("panic:{}", p.sig), format!("whole-file pass ({transport}, {api}) panicked: {}", p.message)),
                Ok(Err(e)) => out.violation(format!("file-pass:{api}:{}", io_err_class(&e)), format!("{transport} file of {} records, {api}: {e:?}", recs.len())),
                Ok(Ok(got)) => {
                    if got.len() != recs.len() {
                        out.violation(format!("file-pass:{api}:record-count"), format!("{transport}: {} records read, {} written", got.len(), recs.len()));
                    }
                    for (i, g) in got.into_iter().enumerate().take(recs.len()) {
                        match g {
                            Err(cls) => out.violation(format!("reused-buffer:{api}:accessor-error:{cls}"), format!("{transport}, record #{i}: {}\n{}", lossy(&recs[i].line), neighbour(i))),
                            Ok(g) => {
                                let g = canon(g);
                                let reference = if lazy { &recs[i].fresh } else { &recs[i].exp };
                                for d in diff_records(reference, &g, &Tol::TEXT) {
                                    if lazy || !known[i].contains(&colkey(&d)) {
                                        out.violation(
                                            format!("reused-buffer:{api}:{}:{}", d.column, d.class),
                                            format!("{transport} file read through one reader / one reused buffer, record #{i}, {} {}: {} ({} vs read in sequence)\nline: {}\n{}", d.column, d.key, d.detail, if lazy { "fresh eager decode" } else { "description" }, lossy(&recs[i].line), neighbour(i)),
                                        );
                                    }
                                }
                            }
                        }
                    }
                    out.count(&format!("file_pass_records[{transport}|{api}]"), recs.len() as u64);
                }
            }
        }
    }
    out.count("file_pass_records", recs.len() as u64);
    // adjacency actually exercised
    let rich = |r: &RecDesc| r.ids.len() >= 2 && r.alts.len() >= 2 && r.qual.is_some() && r.info.len() >= 3;
    let minimal = |r: &RecDesc| r.ids.is_empty() && r.alts.is_empty() && r.qual.is_none() && r.info.len() <= 1;
    for w in recs.windows(2) {
        if rich(&w[0].exp) && minimal(&w[1].exp) {
            out.count("adjacent_rich_then_minimal", 1);
        }
        if minimal(&w[0].exp) && rich(&w[1].exp) {
            out.count("adjacent_minimal_then_rich", 1);
        }
    }
}

/// Coverage of genotype separator orders per fileformat (ploidy >= 3).
fn gt_coverage(g: &[GtAllele], ff: (u32, u32), out: &mut CaseOut) {
    if g.len() < 3 {
        return;
    }
    let seps: Vec<bool> = g.iter().skip(1).map(|a| a.phased).collect();
    if seps.iter().any(|p| *p) && seps.iter().any(|p| !*p) {
        out.count(&format!("gt_mixed_separators[{}.{}]", ff.0, ff.1), 1);
        if *seps.last().unwrap() && seps[..seps.len() - 1].iter().any(|p| !*p) {
            out.count(&format!("gt_last_phased_earlier_unphased[{}.{}]", ff.0, ff.1), 1);
        }
        if !*seps.last().unwrap() {
            out.count(&format!("gt_last_unphased_earlier_phased[{}.{}]", ff.0, ff.1), 1);
        }
    }
}

fn fdef(id: &str, num: Num, ty: Ty) -> FieldDef {
    FieldDef { id: id.into(), num, ty, desc: format!("{id} field"), idx: None, extra: vec![] }
}

/// Hand-written corpus: basics plus a witness of every known finding (independent of the seed).
fn corpus() -> Vec<(HeaderDesc, Vec<RecDesc>)> {
    let mut h = HeaderDesc {
        fileformat: (4, 3),
        infos: vec![fdef("DP", Num::Count(1), Ty::Integer), fdef("AF", Num::A, Ty::Float), fdef("cI", Num::Count(1), Ty::Character), fdef("cA", Num::Dot, Ty::Character), fdef("sI", Num::Count(1), Ty::String), fdef("sA", Num::Dot, Ty::String), fdef("DB", Num::Count(0), Ty::Flag), fdef("END", Num::Count(1), Ty::Integer)],
        filters: vec![FilterDef { id: "q10".into(), desc: "Quality below 10".into(), idx: None, extra: vec![] }],
        formats: vec![fdef("GT", Num::Count(1), Ty::String), fdef("GQ", Num::Count(1), Ty::Integer), fdef("fC", Num::Count(1), Ty::Character), fdef("fS", Num::Dot, Ty::String)],
        alts: vec![],
        contigs: vec![genvcf::ContigDef { id: "20".into(), length: Some(62435964), md5: None, url: None, idx: None, extra: vec![] }],
        others: vec![],
        samples: vec!["NA00001".into(), "NA00002".into()],
    };
    let gt = |a: u32, b: u32, p: bool| Some(Val::Gt(vec![GtAllele { allele: Some(a), phased: p }, GtAllele { allele: Some(b), phased: p }]));
    let base = RecDesc { chrom: "20".into(), pos: 14370, ids: vec!["rs6054257".into()], reference: "G".into(), alts: vec!["A".into()], qual: Some(29f32.to_bits()), filters: vec!["PASS".into()], info: vec![("DP".into(), Some(Val::Int(14))), ("AF".into(), Some(Val::Floats(vec![Some(0.5f32.to_bits())]))), ("DB".into(), Some(Val::Flag))], format: vec!["GT".into(), "GQ".into()], samples: vec![vec![gt(0, 0, true), Some(Val::Int(48))], vec![gt(1, 0, true), Some(Val::Int(48))]] };
    let base_for_gt = base.clone();
    let mut recs = vec![base.clone()];
    // reserved characters in strings: round-trip through percent-encoding
    let mut r = base.clone();
    r.info = vec![("sI".into(), Some(Val::Str("a;b=c%d,e:f\tg".into()))), ("sA".into(), Some(Val::Strs(vec![Some(".".into()), None, Some("x,y".into())])))];
    r.format = vec!["GT".into(), "fS".into()];
    r.samples = vec![vec![gt(0, 1, false), Some(Val::Strs(vec![Some("p:q".into()), Some("%3A".into())]))], vec![gt(1, 1, false), None]];
    recs.push(r);
    // known finding witnesses: Character values that need percent-encoding (INFO, FORMAT)
    let mut r = base.clone();
    r.info = vec![("cI".into(), Some(Val::Char(';')))];
    recs.push(r);
    let mut r = base.clone();
    r.info = vec![("cA".into(), Some(Val::Chars(vec![Some('a'), Some(','), None])))];
    recs.push(r);
    let mut r = base.clone();
    r.format = vec!["GT".into(), "fC".into()];
    r.samples = vec![vec![gt(0, 1, false), Some(Val::Char(':'))], vec![gt(1, 1, false), Some(Val::Char('x'))]];
    recs.push(r);
    // the same defect seen from the other side: characters only the independent writer encodes
    let mut r = base.clone();
    r.info = vec![("cI".into(), Some(Val::Char(':')))];
    r.format = vec!["GT".into(), "fC".into()];
    r.samples = vec![vec![gt(0, 1, false), Some(Val::Char('='))], vec![gt(1, 1, false), Some(Val::Char('x'))]];
    recs.push(r.clone());
    r.info = vec![];
    recs.push(r);
    // END-driven span
    let mut r = base.clone();
    r.alts = vec!["<DEL>".into()];
    r.info = vec![("END".into(), Some(Val::Int(14470)))];
    recs.push(r);
    // known finding witness: a sample column that is `.` (all values missing, trailing ones dropped)
    let mut r = base.clone();
    r.samples = vec![vec![gt(0, 1, false), Some(Val::Int(3))], vec![None]];
    recs.push(r);
    // rich / minimal neighbours for the reused-buffer file passes (deterministic)
    {
        let mut rng = Rng::new(9, 9, 9);
        let ro = RecOpts::full();
        for kind in [0u64, 1, 2, 0] {
            let rich = gen_rich_record(&mut rng, &h, &ro);
            recs.push(rich.clone());
            recs.push(minimal_record(&h, &rich, kind));
        }
        recs.push(gen_rich_record(&mut rng, &h, &ro));
    }
    let mut out = vec![(h.clone(), recs)];
    // repeated and same-key "other" lines, any fileformat
    for minor in 2..=5u32 {
        use genvcf::OtherLine::{Structured, Unstructured};
        let mut hv = h.clone();
        hv.fileformat = (4, minor);
        let un = |k: &str, v: &str| Unstructured { key: k.into(), value: v.into() };
        hv.others = vec![
            un("annotateCommand", "x"),
            un("annotateCommand", "x"),
            un("cmdline", "tool run"),
            un("history", "one"),
            un("fileDate", "20240131"),
            un("cmdline", "tool run"),
            un("history", "two"),
            Structured { key: "annotation".into(), id: "a1".into(), fields: vec![("Tool".into(), "vep".into())] },
            un("cmdline", "tool run"),
            un("history", "one"),
            Structured { key: "annotation".into(), id: "a2".into(), fields: vec![("Tool".into(), "vep".into())] },
        ];
        if minor >= 3 {
            for id in ["Organ", "Stage"] {
                hv.others.push(Structured { key: "META".into(), id: id.into(), fields: vec![("Type".into(), "String".into()), ("Number".into(), ".".into()), ("Values".into(), "[A, B]".into())] });
            }
        }
        out.push((hv, vec![base_for_gt.clone()]));
    }
    // ploidy 3 / 4 genotypes with every order of `/` and `|` separators under every fileformat
    for minor in 2..=5u32 {
        let mut hv = h.clone();
        hv.fileformat = (4, minor);
        let m = genvcf::gt_separator_matrix(&hv, &base_for_gt);
        out.push((hv, m));
    }
    // the same without samples: no FORMAT column at all
    {
        let mut h0 = h.clone();
        h0.samples.clear();
        let mut rng = Rng::new(9, 9, 10);
        let ro = RecOpts::full();
        let mut recs0 = Vec::new();
        for kind in [3u64, 1, 3] {
            let rich = gen_rich_record(&mut rng, &h0, &ro);
            recs0.push(rich.clone());
            recs0.push(minimal_record(&h0, &rich, kind));
        }
        recs0.push(gen_rich_record(&mut rng, &h0, &ro));
        out.push((h0, recs0));
    }
    // known finding witness: the FORMAT Number values of VCF 4.4/4.5 (P, LA, LR, LG, M)
    let mut h45 = h.clone();
    h45.fileformat = (4, 5);
    h45.formats.push(fdef("pP", Num::P, Ty::Integer));
    h45.formats.push(fdef("pLA", Num::LA, Ty::Integer));
    out.push((h45, vec![base.clone()]));
    // known finding witness: explicit IDX
    h.infos[0].idx = Some(3);
    h.infos[1].idx = Some(1);
    h.contigs[0].idx = Some(0);
    h.filters[0].idx = Some(7);
    out.push((h, vec![base]));
    out
}

fn run_case(c: &Case) -> CaseOut {
    let mut out = CaseOut::new();
    out.evaluations = 0;
    let mut fps: BTreeSet<u64> = BTreeSet::new();
    let mut do_records = |hd: &HeaderDesc, recs: &[RecDesc], out: &mut CaseOut| {
        out.evaluations += 1;
        let Some((header, text, header_readable)) = check_header(hd, out) else { return };
        let mut lines = Vec::new();
        for rd in recs {
            out.evaluations += 1;
            let r = check_record(hd, &header, rd, out);
            if let Some(l) = r.line {
                lines.push(l);
            }
            for f in features(rd, hd) {
                fps.insert(fnv1a(f.as_bytes()));
            }
        }
        if !lines.is_empty() && header_readable {
            let _ = &header;
            file_pass(&text, &lines, hd.fileformat, out);
        }
    };
    match c.kind {
        "corpus" => {
            for (hd, recs) in corpus() {
                do_records(&hd, &recs, &mut out);
            }
        }
        "records" => {
            let mut rng = Rng::new(c.seed, 0xC09, 1);
            let ho = HeaderOpts { fileformat: c.fileformat, max_samples: if c.seed % 7 == 0 { 40 } else { 6 }, idx: c.idx, model: c.model, extras: true, min_contig_len: None, v45_numbers: true };
            let mut hd = gen_header(&mut rng, &ho);
            if c.seed % 3 == 0 {
                genvcf::add_other_line_variants(&mut Rng::new(c.seed, 0xC09, 77), &mut hd);
            }
            let ro = RecOpts { model: c.model, nan: true, invalid_ints: false, rare: 14 };
            // every batch carries "rich record, minimal record, rich record" runs (stale state of reused
            // buffers shows only on such neighbours)
            let mut recs: Vec<RecDesc> = Vec::new();
            for i in 0..c.n {
                let r = match i % 20 {
                    0 | 2 | 5 => gen_rich_record(&mut rng, &hd, &ro),
                    1 | 4 => {
                        let at = gen_record(&mut rng, &hd, &ro);
                        let mut kind = (i / 20 + i) as u64 % 4;
                        if kind == 3 && !hd.samples.is_empty() {
                            kind = 0;
                        }
                        minimal_record(&hd, &at, kind)
                    }
                    _ => gen_record(&mut rng, &hd, &ro),
                };
                recs.push(r);
            }
            do_records(&hd, &recs, &mut out);
            if c.seed % 5 == 0 {
                out.sample = Some(json!({"header": to_vcf_header(&hd).lines().take(6).collect::<Vec<_>>(), "first_line": lossy(&to_vcf_line(&recs[0], &hd))}));
            }
        }
        "headers" => {
            let mut rng = Rng::new(c.seed, 0xC09, 2);
            for i in 0..c.n {
                let idx = if i % 8 == 7 { [IdxMode::Natural, IdxMode::Permuted, IdxMode::Sparse][(i / 8) % 3] } else { IdxMode::None };
                let ho = HeaderOpts { fileformat: None, max_samples: 12, idx, model: if i % 5 == 0 { Model::Common } else { Model::Full }, extras: true, min_contig_len: None, v45_numbers: true };
                let mut hd = gen_header(&mut rng, &ho);
                if i % 2 == 0 {
                    genvcf::add_other_line_variants(&mut Rng::new(c.seed, 0xC09, 1000 + i as u64), &mut hd);
                }
                out.evaluations += 1;
                check_header(&hd, &mut out);
                let shape = format!("hdr|v{}.{}|i{}|f{}|fl{}|a{}|c{}|o{}|s{}|idx{:?}", hd.fileformat.0, hd.fileformat.1, hd.infos.len().min(12), hd.formats.len().min(10), hd.filters.len(), hd.alts.len().min(3), hd.contigs.len().min(4), hd.others.len().min(4), hd.samples.len().min(5), idx);
                fps.insert(fnv1a(shape.as_bytes()));
            }
        }
        k => panic!("bad case kind {k}"),
    }
    out.fps = fps.into_iter().collect();
    out
}

fn gen_cases(ctx: &Ctx) -> Vec<Case> {
    let mut cases = vec![Case { kind: "corpus", seed: 0, n: 0, fileformat: None, idx: IdxMode::None, model: Model::Full }];
    let per = ctx.budget("per_case", 200, 250) as usize;
    let nrec = ctx.budget("cases", 100, 4000);
    for i in 0..nrec {
        let fileformat = Some((4, 2 + (i % 4) as u32));
        let model = match i % 10 {
            8 => Model::Common,
            9 => Model::Bcf,
            _ => Model::Full,
        };
        cases.push(Case { kind: "records", seed: ctx.seed.wrapping_mul(1_000_003).wrapping_add(i), n: per, fileformat, idx: IdxMode::None, model });
    }
    let nh = ctx.budget("header_cases", 20, 500);
    for i in 0..nh {
        cases.push(Case { kind: "headers", seed: ctx.seed.wrapping_mul(7_000_003).wrapping_add(i), n: 100, fileformat: None, idx: IdxMode::None, model: Model::Full });
    }
    cases
}

fn main() {
    let ctx = Ctx::from_args();
    let ctx = vcore::cases::replay_request(&ctx).map(|r| r.1).unwrap_or(ctx);
    let mut rep = Report::new(
        "case = one generated header + a batch of records consistent with it (or a batch of headers); every record is written by \
         vcf::io::Writer, split column-wise by an independent splitter, read back eagerly and lazily, and its span is recomputed \
         independently; evaluations = headers + records; distinct = distinct data-free feature tokens (fileformat x column shape: \
         Number x Type x value shape, integer/float/string boundary class, ALT kind, genotype ploidy/phasing/missing, span driver, \
         sample count class) observed on records, plus header shape classes; non-trivial = all",
    );
    rep.assumptions.push("oracles: the generator's description of each value; an independent VCF line writer/splitter and span rule written from the VCF 4.2-4.5 specification (genvcf::text)".into());
    rep.assumptions.push("format-inherent tolerances: NaN payloads (one text spelling), trailing missing sample values, an array holding one missing entry == missing value, first-allele phasing before VCF 4.4 (not representable), REF restricted to ACGTN (the writer folds IUPAC codes by specification)".into());
    rep.assumptions.push("span rule as the property names it: INFO END before 4.5; POS + max(len REF, SVLEN, FORMAT LEN) - 1 from 4.5".into());
    let cases = gen_cases(&ctx);
    let f = |i: u64| -> CaseOut { run_case(&cases[i as usize]) };
    run_cases(&ctx, &mut rep, cases.len() as u64, 120.0, &f, &|i| case_json(&cases[i as usize]));
    if ctx.replay.is_none() {
        let counters = rep.counters.clone();
        let get = |k: &str| counters.get(k).copied().unwrap_or(0);
        let recs = get("records");
        rep.floor("records_accepted", get("records_accepted"), recs * 9 / 10);
        rep.floor("headers_accepted", get("headers_accepted"), get("headers") * 9 / 10);
        rep.floor("lazy_records_read_through_every_accessor", get("lazy_records_read_through_every_accessor"), recs * 8 / 10);
        rep.floor("spans_vs_independent_rule", get("spans_vs_independent_rule"), recs * 7 / 10);
        rep.floor("lines_split_and_compared_columnwise", get("lines_split_and_compared_columnwise"), recs * 8 / 10);
        let combos: usize = genvcf::info_combos().iter().map(|(n, t)| format!("info[{}x{}]", n.class(), t.text())).collect::<BTreeSet<_>>().iter().filter(|k| get(k) > 0).count();
        rep.floor("info Number x Type classes covered", combos as u64, 25);
        let fcombos: usize = genvcf::format_combos(false).iter().map(|(n, t)| format!("format[{}x{}]", n.class(), t.text())).collect::<BTreeSet<_>>().iter().filter(|k| get(k) > 0).count();
        rep.floor("format Number x Type classes covered", fcombos as u64, 24);
        for k in ["headers_other_unstructured_equal_copies[2]", "headers_other_unstructured_equal_copies[3+]", "headers_other_unstructured_equal_copies[adjacent]", "headers_other_unstructured_equal_copies[separated]", "headers_other_unstructured_same_key_distinct_values", "headers_other_structured_equal_fields"] {
            rep.floor(k, get(k), if ctx.param("header_cases").is_none() { 50 } else { 1 });
        }
        rep.floor("headers_write_parse_write", get("headers_write_parse_write"), get("headers") * 9 / 10);
        for minor in 2..=5 {
            for k in ["gt_mixed_separators", "gt_last_phased_earlier_unphased", "gt_last_unphased_earlier_phased"] {
                let k = format!("{k}[4.{minor}]");
                rep.floor(&k, get(&k), if ctx.param("cases").is_none() { 40 } else { 1 });
            }
        }
        rep.floor("adjacent_rich_then_minimal", get("adjacent_rich_then_minimal"), recs / 40);
        rep.floor("adjacent_minimal_then_rich", get("adjacent_minimal_then_rich"), recs / 40);
        for api in ["read_record_buf", "record_bufs", "read_record", "records"] {
            for t in ["plain", "bgzf"] {
                let k = format!("file_pass_records[{t}|{api}]");
                rep.floor(&k, get(&k), recs * 8 / 10);
            }
        }
        for k in ["span_driven_by[END|before-4.5]", "span_driven_by[SVLEN/LEN|from-4.5]", "records_samples[0]", "records_samples[4+]"] {
            rep.floor(k, get(k), 20);
        }
    }
    rep.finish(&ctx);
}
