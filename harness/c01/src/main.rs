//! C01 — BGZF write/read is the identity and every emitted file is well-formed BGZF.
//!
//! Monitor: drive `bgzf::io::Writer` with generated write/flush histories at every compression
//! level and end mode (finish / try_finish+drop / plain drop), then judge the sink bytes with
//! (1) noodles' own reader, (2) an independent strict member walker (miniz_oxide inflate, own
//! CRC32), and (3) — on a sample dumped to the work directory — CPython zlib/gzip through
//! `py/bgzf_walk.py` (run by the driver). The writer's own `position()` / `virtual_position()`
//! reports are monitored after every call.

use std::{
    io::{Read, Write},
    sync::{Arc, Mutex},
};

use noodles_bgzf as bgzf;
use serde_json::json;
use vcore::{CaseOut, Ctx, Report, Rng, bgzf as obgzf, guard, payload, report::hex, rng::fnv1a, run_cases};

#[derive(Clone, Debug)]
struct Case {
    class: String,
    len: usize,
    split: String,
    /// 0 = never, 1 = after every write, k = after every k-th write
    flush_every: usize,
    flush_on_empty: bool,
    raw_write: bool,
    level: u8,
    /// "finish" | "try_finish_drop" | "drop"
    end: String,
    pseed: u64,
}

/// How many bytes the sink takes per call. `Write::write` may legally accept any 1..=len bytes and
/// `write_vectored` any prefix of the concatenated slices (pipes, sockets, rate-limited writers).
#[derive(Clone, Copy, Debug, Default, PartialEq)]
enum Accept {
    #[default]
    All,
    /// at most k bytes per write call (default write_vectored = first non-empty slice)
    AtMost(usize),
    /// a seeded random 1..=len
    Random,
    /// a real vectored sink that takes at most k bytes per call across all slices
    Vectored(usize),
}

#[derive(Clone, Default)]
struct SharedSink(Arc<Mutex<Vec<u8>>>, Accept, Arc<Mutex<(u64, u64)>>);

impl SharedSink {
    fn take(&self, len: usize) -> usize {
        let mut st = self.2.lock().unwrap();
        let n = match self.1 {
            Accept::All => len,
            Accept::AtMost(k) | Accept::Vectored(k) => len.min(k.max(1)),
            Accept::Random => {
                // xorshift; the state is seeded from the case
                st.0 ^= st.0 << 13;
                st.0 ^= st.0 >> 7;
                st.0 ^= st.0 << 17;
                1 + (st.0 % len as u64) as usize
            }
        };
        if n < len {
            st.1 += 1;
        }
        n
    }
    fn short_writes(&self) -> u64 {
        self.2.lock().unwrap().1
    }
}

impl Write for SharedSink {
    fn write(&mut self, buf: &[u8]) -> std::io::Result<usize> {
        if buf.is_empty() {
            return Ok(0);
        }
        let n = self.take(buf.len());
        self.0.lock().unwrap().extend_from_slice(&buf[..n]);
        Ok(n)
    }
    fn write_vectored(&mut self, bufs: &[std::io::IoSlice<'_>]) -> std::io::Result<usize> {
        if let Accept::Vectored(_) = self.1 {
            let total: usize = bufs.iter().map(|b| b.len()).sum();
            if total == 0 {
                return Ok(0);
            }
            let mut left = self.take(total);
            let n = left;
            let mut v = self.0.lock().unwrap();
            for b in bufs {
                let k = b.len().min(left);
                v.extend_from_slice(&b[..k]);
                left -= k;
            }
            Ok(n)
        } else {
            match bufs.iter().find(|b| !b.is_empty()) {
                Some(b) => self.write(b),
                None => Ok(0),
            }
        }
    }
    fn flush(&mut self) -> std::io::Result<()> {
        Ok(())
    }
}

/// The sink discipline of a case, a function of its seed (so that replays reproduce it).
fn accept_of(c: &Case) -> Accept {
    let h = c.pseed.wrapping_mul(0x9E37_79B9_7F4A_7C15) >> 33;
    let ks = [1usize, 7, 17, 18, 19, 25, 26, 27, 4096, 65535];
    match h % 8 {
        1 => Accept::AtMost(ks[(h / 8) as usize % ks.len()]),
        3 => Accept::Random,
        5 => Accept::Vectored(ks[(h / 8) as usize % ks.len()]),
        _ => Accept::All,
    }
}

impl SharedSink {
    fn len(&self) -> usize {
        self.0.lock().unwrap().len()
    }
}

struct CaseResult {
    fp: u64,
    blocks: usize,
    short_writes: u64,
    accept: Accept,
    expanding_blocks: usize,
    max_member: usize,
    violation: Option<(String, String)>,
    file: Vec<u8>,
    payload: Vec<u8>,
}

fn case_json(c: &Case) -> serde_json::Value {
    json!({"class": c.class, "len": c.len, "split": c.split, "flush_every": c.flush_every,
           "flush_on_empty": c.flush_on_empty, "raw_write": c.raw_write, "level": c.level,
           "end": c.end, "pseed": c.pseed, "sink": format!("{:?}", accept_of(c))})
}

fn run_case(c: &Case) -> CaseResult {
    let mut rng = Rng::new(c.pseed, 1, 0);
    let data = payload::make(&c.class, c.len, &mut rng);
    let pieces = payload::split_pattern(&c.split, c.len, &mut rng);
    let accept = accept_of(c);
    let sink = SharedSink(Default::default(), accept, Arc::new(Mutex::new((c.pseed | 1, 0))));
    let level = bgzf::io::writer::CompressionLevel::new(c.level).expect("level 0..=9");
    let mid_try_finish = c.pseed % 6 == 0 && pieces.len() >= 2;

    let run = guard::catch(|| -> Result<(), (String, String)> {
        let mut w = bgzf::io::writer::Builder::default()
            .set_compression_level(level)
            .build_from_writer(sink.clone());
        let mut last_vpos = u64::from(w.virtual_position());
        let check = |w: &bgzf::io::Writer<SharedSink>, what: &str, last: &mut u64| -> Result<(), (String, String)> {
            if w.position() != sink.len() as u64 {
                return Err((
                    "writer-position-ne-sink-length".into(),
                    format!("after {what}: position()={} but the sink holds {} bytes", w.position(), sink.len()),
                ));
            }
            let v = u64::from(w.virtual_position());
            if v < *last {
                return Err((
                    "writer-virtual-position-decreased".into(),
                    format!("after {what}: virtual_position {v:#x} < previous {last:#x}"),
                ));
            }
            if (v >> 16) != w.position() {
                return Err((
                    "writer-virtual-position-coffset".into(),
                    format!("after {what}: virtual_position coffset {} != position() {}", v >> 16, w.position()),
                ));
            }
            *last = v;
            Ok(())
        };
        if c.flush_on_empty {
            w.flush().map_err(|e| ("writer-call-failed".to_string(), format!("flush on empty: {e}")))?;
            check(&w, "flush on empty", &mut last_vpos)?;
        }
        let mut off = 0usize;
        for (i, &n) in pieces.iter().enumerate() {
            let piece = &data[off..off + n];
            if c.raw_write {
                let mut p = piece;
                while !p.is_empty() {
                    let k = w.write(p).map_err(|e| ("writer-call-failed".to_string(), format!("write: {e}")))?;
                    if k == 0 || k > p.len() {
                        return Err((
                            "write-return-count".into(),
                            format!("write of {} bytes returned {k}", p.len()),
                        ));
                    }
                    p = &p[k..];
                    check(&w, "write", &mut last_vpos)?;
                }
            } else {
                w.write_all(piece).map_err(|e| ("writer-call-failed".to_string(), format!("write_all: {e}")))?;
                check(&w, "write_all", &mut last_vpos)?;
            }
            off += n;
            if mid_try_finish && i + 1 == pieces.len() / 2 {
                // try_finish() in the middle of a history: an EOF marker mid-file, writing goes on
                w.try_finish().map_err(|e| ("writer-call-failed".to_string(), format!("mid-history try_finish: {e}")))?;
                check(&w, "mid-history try_finish", &mut last_vpos)?;
            }
            if c.flush_every > 0 && (i + 1) % c.flush_every == 0 {
                w.flush().map_err(|e| ("writer-call-failed".to_string(), format!("flush: {e}")))?;
                check(&w, "flush", &mut last_vpos)?;
                if c.flush_on_empty {
                    w.flush().map_err(|e| ("writer-call-failed".to_string(), format!("second flush: {e}")))?;
                    check(&w, "second flush", &mut last_vpos)?;
                }
            }
        }
        match c.end.as_str() {
            "finish" => {
                let _ = w.finish().map_err(|e| ("writer-call-failed".to_string(), format!("finish: {e}")))?;
            }
            "try_finish_drop" => {
                w.try_finish().map_err(|e| ("writer-call-failed".to_string(), format!("try_finish: {e}")))?;
                // into_inner() prevents Drop from finishing twice
                let _ = w.into_inner();
            }
            "drop" => drop(w),
            "try_finish_then_drop" => {
                // Drop finishes again: a second EOF marker is appended, which is still a valid file
                w.try_finish().map_err(|e| ("writer-call-failed".to_string(), format!("try_finish: {e}")))?;
                drop(w);
            }
            e => panic!("bad end mode {e}"),
        }
        Ok(())
    });

    let file = sink.0.lock().unwrap().clone();
    let mut res = CaseResult {
        fp: 0,
        blocks: 0,
        short_writes: sink.short_writes(),
        accept,
        expanding_blocks: 0,
        max_member: 0,
        violation: None,
        file: file.clone(),
        payload: data.clone(),
    };
    match run {
        Err(p) => {
            res.violation = Some((format!("writer-panic:{}", p.sig), format!("writer panicked: {} at {}:{}", p.message, p.file, p.line)));
            return res;
        }
        Ok(Err(v)) => {
            res.violation = Some(v);
            return res;
        }
        Ok(Ok(())) => {}
    }

    // (2) independent strict walk
    match obgzf::walk(&file) {
        Err(e) => {
            res.violation = Some(("walker-malformed-member".into(), format!("independent walker rejects the emitted file: {e}")));
            return res;
        }
        Ok(w) => {
            res.blocks = w.members.len();
            for m in &w.members {
                res.max_member = res.max_member.max(m.size as usize);
                if m.cdata_len > m.data.len() && m.data.len() >= 60000 {
                    res.expanding_blocks += 1;
                }
            }
            if !w.ends_with_eof_marker() || file.len() < 28 || file[file.len() - 28..] != obgzf::EOF_MARKER {
                res.violation = Some(("missing-eof-marker".into(), format!("file of {} bytes does not end with the 28-byte EOF marker (end mode {})", file.len(), c.end)));
                return res;
            }
            let got = w.concat();
            if got != data {
                let at = got.iter().zip(&data).position(|(a, b)| a != b).unwrap_or(got.len().min(data.len()));
                res.violation = Some(("independent-inflate-ne-payload".into(), format!("independent inflation yields {} bytes, payload has {}; first difference at {at}", got.len(), data.len())));
                return res;
            }
        }
    }

    // (1) noodles' own reader, through several reading disciplines (the statement says "reads
    // back through a BGZF reader"; the cursor model itself is C02's business)
    let modes: &[&str] = &["read_to_end", "read_until", "read_exact_chunks", "big_reads", "read_to_end@mt"];
    let first = (c.pseed % modes.len() as u64) as usize;
    for mode in [modes[0], modes[1 + first % 4]] {
        if res.violation.is_some() {
            break;
        }
        let mut mrng = Rng::new(c.pseed, 9, 1);
        let rb = guard::catch(|| -> std::io::Result<Vec<u8>> {
            use std::io::BufRead;
            let mut out = Vec::new();
            match mode {
                "read_to_end" => {
                    let mut r = bgzf::io::Reader::new(&file[..]);
                    r.read_to_end(&mut out)?;
                }
                "read_to_end@mt" => {
                    let mut r = bgzf::io::MultithreadedReader::new(std::io::Cursor::new(file.clone()));
                    r.read_to_end(&mut out)?;
                    r.finish()?;
                }
                "read_until" => {
                    let mut r = bgzf::io::Reader::new(&file[..]);
                    // a delimiter that occurs in the payload (lines cross block boundaries)
                    let delim = data.get(data.len() / 2).copied().unwrap_or(b'\n');
                    loop {
                        let before = out.len();
                        r.read_until(delim, &mut out)?;
                        if out.len() == before {
                            break;
                        }
                    }
                }
                "read_exact_chunks" => {
                    let mut r = bgzf::io::Reader::new(&file[..]);
                    let mut left = data.len();
                    while left > 0 {
                        let n = (*mrng.pick(&[1usize, 2, 7, 100, 4096, 65535, 65536, 70_000, 200_000])).min(left);
                        let at = out.len();
                        out.resize(at + n, 0);
                        r.read_exact(&mut out[at..])?;
                        left -= n;
                    }
                    // and nothing may follow
                    let mut one = [0u8; 1];
                    if r.read(&mut one)? != 0 {
                        out.push(one[0]);
                    }
                }
                _ => {
                    let mut r = bgzf::io::Reader::new(&file[..]);
                    let mut buf = vec![0u8; *mrng.pick(&[65536usize, 100_000, 131_072])];
                    let mut guard_iters = 0;
                    loop {
                        let n = r.read(&mut buf)?;
                        if n == 0 {
                            break;
                        }
                        out.extend_from_slice(&buf[..n]);
                        guard_iters += 1;
                        if guard_iters > 100_000 {
                            return Err(std::io::Error::other("verif: read() keeps returning data past the payload"));
                        }
                    }
                }
            }
            Ok(out)
        });
        match rb {
            Err(p) => res.violation = Some((format!("reader-panic:{mode}:{}", p.sig), format!("reader panicked ({mode}): {}", p.message))),
            Ok(Err(e)) => res.violation = Some((format!("reader-rejects-own-output:{mode}"), format!("bgzf reader ({mode}) fails on the writer's output: {e}"))),
            Ok(Ok(buf)) => {
                if buf != data {
                    let at = buf.iter().zip(&data).position(|(a, b)| a != b).unwrap_or(buf.len().min(data.len()));
                    res.violation = Some((format!("readback-ne-payload:{mode}"), format!("read back {} bytes through {mode}, wrote {}; first difference at {at}", buf.len(), data.len())));
                }
            }
        }
    }
    let len_class = match c.len {
        0 => 0,
        1..=3 => 1,
        4..=65279 => 2,
        65280..=65537 => 3 + (c.len - 65280) as u64,
        _ => 400 + (c.len / 65495) as u64,
    };
    res.fp = fnv1a(format!("{}|{}|{}|{}|{}|{}|{}|{}|{:?}", c.class, len_class, c.split, c.flush_every, c.raw_write, c.level, c.end, res.blocks, std::mem::discriminant(&accept)).as_bytes()) ^ (c.pseed % 6 == 0) as u64;
    res
}

fn gen_cases(ctx: &Ctx) -> Vec<Case> {
    let mut cases = Vec::new();
    let ends = ["finish", "try_finish_drop", "drop", "try_finish_then_drop"];
    if ctx.param("tiny").is_some() {
        // Miri-sized workload: small payloads at every level, plus one full staging buffer
        let n = ctx.budget("tiny", 36, 36);
        let mut rng = Rng::new(ctx.seed, 0xC01, 7);
        for i in 0..n {
            cases.push(Case {
                class: payload::CLASSES[(i as usize) % payload::CLASSES.len()].to_string(),
                len: [0usize, 1, 2, 3, 17, 255, 256, 700, 1500, 4000][(i as usize) % 10],
                split: ["all", "small", "halves"][(i as usize) % 3].to_string(),
                flush_every: [0usize, 1, 3][(i as usize / 3) % 3],
                flush_on_empty: i % 5 == 0,
                raw_write: i % 2 == 0,
                level: (i % 10) as u8,
                end: ends[(i as usize) % ends.len()].to_string(),
                pseed: rng.next_u64(),
            });
        }
        cases.push(Case {
            class: "runs".into(), len: 5_000, split: "all".into(), flush_every: 0, flush_on_empty: false,
            raw_write: false, level: 1, end: "finish".into(), pseed: 5,
        });
        return cases;
    }
    let mut k = 0u64;
    // Deterministic part: every boundary length x rotating (class, split, level, end), every level
    // on incompressible and slightly expanding payloads around the staging limit.
    let lens = payload::boundary_lengths();
    for (i, &len) in lens.iter().enumerate() {
        for (j, class) in payload::CLASSES.iter().enumerate() {
            if ctx.quick() && (i + j) % 3 != 0 {
                continue;
            }
            k += 1;
            let split = payload::SPLITS[(i + j) % payload::SPLITS.len()];
            let tiny_pieces = split == "ones" || split == "small";
            cases.push(Case {
                class: class.to_string(),
                len,
                split: split.to_string(),
                flush_every: if tiny_pieces && len > 4000 { 0 } else { [0, 1, 3, 0][(i + 2 * j) % 4] },
                flush_on_empty: (i + j) % 5 == 0,
                raw_write: (i + j) % 2 == 0,
                level: ((i + 3 * j) % 10) as u8,
                end: ends[(i + j) % ends.len()].to_string(),
                pseed: ctx.seed ^ k,
            });
        }
    }
    for level in 0..=9u8 {
        for class in ["random", "random_with_repeats"] {
            for len in [65494usize, 65495, 65496, 65535, 65536, 130990, 131072] {
                for end in ends {
                    k += 1;
                    cases.push(Case {
                        class: class.to_string(),
                        len,
                        split: ["all", "mixed", "blocks"][(k % 3) as usize].to_string(),
                        flush_every: 0,
                        flush_on_empty: false,
                        raw_write: k % 2 == 0,
                        level,
                        end: end.to_string(),
                        pseed: ctx.seed ^ (k << 8),
                    });
                }
            }
        }
    }
    // Seeded random part.
    let n = ctx.budget("cases", 12000, 150000);
    let mut rng = Rng::new(ctx.seed, 0xC01, 0);
    for i in 0..n {
        let len = match rng.below(10) {
            0 => *rng.pick(&lens),
            1..=4 => rng.skewed(5000) as usize,
            5..=7 => rng.urange(60000, 70000),
            _ => rng.skewed(400_000) as usize,
        };
        let split = rng.pick(payload::SPLITS).to_string();
        // 1-byte writes of huge payloads are slow and add nothing
        let split = if (split == "ones" || split == "small") && len > 80_000 { "mixed".to_string() } else { split };
        let flush_every = *rng.pick(&[0usize, 0, 1, 2, 5]);
        // one member per byte of a large payload is slow and adds nothing
        let len = if (split == "ones" || split == "small") && flush_every > 0 { len.min(4000) } else { len };
        cases.push(Case {
            class: rng.pick(payload::CLASSES).to_string(),
            len,
            split,
            flush_every,
            flush_on_empty: rng.chance(1, 6),
            raw_write: rng.bool(),
            level: rng.below(10) as u8,
            end: rng.pick(&ends).to_string(),
            pseed: ctx.seed.wrapping_mul(31).wrapping_add(i),
        });
    }
    if ctx.tier == vcore::Tier::Thorough {
        // every payload length around each boundary +-2 at all 10 levels
        for base in [65280usize, 65495, 65536, 130990, 131072] {
            for d in 0..5usize {
                for level in 0..=9u8 {
                    k += 1;
                    cases.push(Case {
                        class: ["random", "text", "random_with_repeats"][(k % 3) as usize].to_string(),
                        len: base + d - 2,
                        split: "all".into(),
                        flush_every: 0,
                        flush_on_empty: false,
                        raw_write: false,
                        level,
                        end: "finish".into(),
                        pseed: ctx.seed ^ (k << 20),
                    });
                }
            }
        }
    }
    cases
}

fn main() {
    let ctx = Ctx::from_args();
    let mut rep = Report::new(
        "case = (payload class, length, split pattern of write calls, flush policy, raw write vs write_all, \
         compression level 0..=9, end mode finish/try_finish+drop/drop, sink discipline [accepts all / at most k per write / \
         random partial / vectored at most k; 3 in 8 cases partial]); deterministic corpus over every boundary \
         length plus a VERIF_SEED-seeded random part; distinct = distinct (class, length class [exact within \
         65280..=65537], split, flush policy, raw, level, end mode, emitted member count, sink discipline); non-trivial = all \
         (every case writes a file that is walked and read back)",
    );
    rep.assumptions.push("independent oracle = miniz_oxide inflate + table CRC32 (and CPython zlib on the dumped sample); default zlib-rs backend only (libdeflate feature not built)".into());
    let ctx = vcore::cases::replay_request(&ctx).map(|r| r.1).unwrap_or(ctx);
    let cases = gen_cases(&ctx);
    let dump_dir = ctx.work.join("dump");
    let _ = std::fs::create_dir_all(&dump_dir);
    let pydump_every = (cases.len() as u64 / ctx.budget("pydump", 80, 500)).max(1);
    let f = |i: u64| -> CaseOut {
        let c = &cases[i as usize];
        let r = run_case(c);
        let mut o = CaseOut::new();
        o.fp = r.fp;
        o.count("members_inspected", r.blocks as u64);
        o.count("large_members_with_cdata_larger_than_payload", r.expanding_blocks as u64);
        o.max("max_member_size", r.max_member as u64);
        o.count(&format!("level[{}]", c.level), 1);
        o.count(&format!("end[{}]", c.end), 1);
        o.count(&format!("sink[{}]", match r.accept { Accept::All => "accepts-all", Accept::AtMost(_) => "at-most-k-per-write", Accept::Random => "random-partial", Accept::Vectored(_) => "vectored-at-most-k" }), 1);
        o.count("sink_short_writes", r.short_writes);
        if i % 41 == 0 {
            o.sample = Some(case_json(c));
        }
        if let Some((sig, desc)) = r.violation {
            o.violation_with(sig, desc, json!({"file_head_hex": hex(&r.file[..r.file.len().min(64)]), "file_len": r.file.len()}));
        } else if i % pydump_every == 0 {
            // sample for the CPython oracle (run by the driver)
            std::fs::write(dump_dir.join(format!("{i}.bgzf")), &r.file).unwrap();
            std::fs::write(dump_dir.join(format!("{i}.payload")), &r.payload).unwrap();
            o.count("files_dumped_for_python_oracle", 1);
        }
        o
    };
    run_cases(&ctx, &mut rep, cases.len() as u64, 120.0, &f, &|i| case_json(&cases[i as usize]));
    if ctx.replay.is_none() && ctx.param("tiny").is_none() && ctx.param("cases").is_none() {
        rep.floor("cases", rep.evaluations, 500);
        let mi = rep.counters.get("members_inspected").copied().unwrap_or(0);
        rep.floor("members_inspected", mi, 1000);
    }
    rep.finish(&ctx);
}
