//! Small alignment / variant record sets with an *independent description* (plain structs) and writers that
//! put them into BAM / bgzipped VCF / BCF files through the real noodles writers over a `bgzf::io::Writer`
//! whose block boundaries are controlled by explicit flushes. Shared by C04 and C17 (`#[path]` include).
//!
//! Spans are computed here from the description (SAMv1: end = POS + max(sum of M/D/N/=/X lengths, 1) - 1;
//! VCF: REF length, INFO/END for < 4.5, SVLEN for 4.5) — never by noodles.
#![allow(dead_code)]

use std::{
    fs::File,
    io::{self, Write},
    num::NonZero,
    path::Path,
};

use noodles_bam as bam;
use noodles_bcf as bcf;
use noodles_bgzf as bgzf;
use noodles_core::Position;
use noodles_sam::{
    self as sam,
    alignment::{
        RecordBuf,
        io::Write as _,
        record::{
            Flags,
            cigar::{Op, op::Kind},
        },
    },
    header::record::value::{
        Map,
        map::{
            self, ReferenceSequence,
            header::{sort_order::COORDINATE, tag::SORT_ORDER},
        },
    },
};
use noodles_vcf::{self as vcf, variant::io::Write as _};

#[derive(Clone, Debug)]
pub struct AlnRec {
    pub name: String,
    pub flags: u16,
    pub rid: Option<usize>,
    /// 1-based, 0 = unavailable
    pub pos: usize,
    /// CIGAR as (op char, length)
    pub ops: Vec<(char, usize)>,
    /// extra soft-clipped bases appended (fattens the record so that it straddles BGZF blocks)
    pub pad: usize,
    pub with_seq: bool,
}

impl AlnRec {
    pub fn is_unmapped(&self) -> bool {
        self.flags & 4 != 0
    }

    pub fn is_unplaced(&self) -> bool {
        self.rid.is_none() || self.pos == 0
    }

    /// (start, end), 1-based inclusive, per SAMv1 (a record without reference-consuming operations covers 1 base).
    pub fn span(&self) -> Option<(usize, usize)> {
        if self.is_unplaced() {
            return None;
        }
        let len: usize = self.ops.iter().filter(|(k, _)| matches!(k, 'M' | 'D' | 'N' | '=' | 'X')).map(|(_, n)| n).sum();
        Some((self.pos, self.pos + len.max(1) - 1))
    }

    pub fn cigar_string(&self) -> String {
        let mut s: String = self.ops.iter().map(|(k, n)| format!("{n}{k}")).collect();
        if self.pad > 0 && self.with_seq {
            s.push_str(&format!("{}S", self.pad));
        }
        if s.is_empty() { "*".into() } else { s }
    }
}

#[derive(Clone, Debug)]
pub struct AlnSet {
    pub refs: Vec<(String, usize)>,
    pub recs: Vec<AlnRec>,
    /// flush the BGZF writer after record i
    pub flush_after: Vec<bool>,
    pub level: u8,
}

fn kind(c: char) -> Kind {
    match c {
        'M' => Kind::Match,
        'I' => Kind::Insertion,
        'D' => Kind::Deletion,
        'N' => Kind::Skip,
        'S' => Kind::SoftClip,
        'H' => Kind::HardClip,
        'P' => Kind::Pad,
        '=' => Kind::SequenceMatch,
        'X' => Kind::SequenceMismatch,
        _ => panic!("bad cigar op {c}"),
    }
}

pub fn sam_header(refs: &[(String, usize)]) -> io::Result<sam::Header> {
    let hd = Map::<map::Header>::builder().insert(SORT_ORDER, COORDINATE).build().map_err(|e| io::Error::new(io::ErrorKind::InvalidInput, e))?;
    let mut b = sam::Header::builder().set_header(hd);
    for (name, len) in refs {
        b = b.add_reference_sequence(name.as_bytes(), Map::<ReferenceSequence>::new(NonZero::new(*len).expect("reference length")));
    }
    Ok(b.build())
}

pub fn record_buf(r: &AlnRec) -> RecordBuf {
    let mut b = RecordBuf::builder().set_name(r.name.as_bytes()).set_flags(Flags::from(r.flags));
    if let Some(id) = r.rid {
        b = b.set_reference_sequence_id(id);
    }
    if let Some(p) = Position::new(r.pos) {
        b = b.set_alignment_start(p);
    }
    // BAM stores an operation length in 28 bits: longer operations are written as several of the same kind
    const MAX_OP: usize = (1 << 28) - 1;
    let mut ops: Vec<Op> = Vec::new();
    for &(k, mut n) in &r.ops {
        while n > MAX_OP {
            ops.push(Op::new(kind(k), MAX_OP));
            n -= MAX_OP;
        }
        ops.push(Op::new(kind(k), n));
    }
    if r.with_seq {
        let read_len: usize = r.ops.iter().filter(|(k, _)| matches!(k, 'M' | 'I' | 'S' | '=' | 'X')).map(|(_, n)| n).sum::<usize>() + r.pad;
        if r.pad > 0 && !r.ops.is_empty() {
            ops.push(Op::new(Kind::SoftClip, r.pad));
        }
        let seq: Vec<u8> = (0..read_len).map(|i| b"ACGT"[(i * 7 + r.pos) % 4]).collect();
        b = b.set_sequence(seq.into());
    }
    if !ops.is_empty() {
        b = b.set_cigar(ops.into());
    }
    b.build()
}

/// Writes the set as BAM; returns the number of explicit flushes performed.
pub fn write_bam(path: &Path, set: &AlnSet) -> io::Result<u64> {
    let header = sam_header(&set.refs)?;
    let level = bgzf::io::writer::CompressionLevel::new(set.level).expect("level");
    let bg = bgzf::io::writer::Builder::default().set_compression_level(level).build_from_writer(File::create(path)?);
    let mut w = bam::io::Writer::from(bg);
    w.write_header(&header)?;
    let mut flushes = 0;
    if set.flush_after.first().copied().unwrap_or(false) {
        // header in its own block(s)
        w.get_mut().flush()?;
        flushes += 1;
    }
    for (i, r) in set.recs.iter().enumerate() {
        w.write_alignment_record(&header, &record_buf(r))?;
        if set.flush_after.get(i).copied().unwrap_or(false) {
            w.get_mut().flush()?;
            flushes += 1;
        }
    }
    w.try_finish()?;
    Ok(flushes)
}

// ---------------------------------------------------------------------------------------------------

#[derive(Clone, Debug)]
pub struct VarRec {
    pub chrom: usize,
    pub pos: usize,
    pub id: String,
    pub ref_len: usize,
    /// "." | "T" | "<DEL>" ...
    pub alt: String,
    /// INFO/END (only generated for fileformat < 4.5)
    pub end: Option<usize>,
    /// INFO/SVLEN (only generated for fileformat 4.5)
    pub svlen: Option<usize>,
    /// length of an INFO/PAD string (fattens the record)
    pub pad: usize,
}

#[derive(Clone, Debug)]
pub struct VarSet {
    pub minor: u32,
    pub contigs: Vec<String>,
    pub recs: Vec<VarRec>,
    pub flush_after: Vec<bool>,
    pub level: u8,
}

impl VarSet {
    /// (start, smallest end, largest end) per the VCF specification. For VCF < 4.5: END if present, else
    /// POS + len(REF) - 1 (one value). For VCF 4.5 with SVLEN on a symbolic allele the specification text I can
    /// reconstruct admits POS + SVLEN (the padding base at POS precedes the event) and noodles documents
    /// POS + max(len(REF), SVLEN) - 1; both are kept and regions that separate them are not judged.
    pub fn span(&self, r: &VarRec) -> (usize, usize, usize) {
        let ref_end = r.pos + r.ref_len - 1;
        if self.minor < 5 {
            let e = r.end.unwrap_or(ref_end);
            (r.pos, e, e)
        } else if let Some(n) = r.svlen {
            let lo = ref_end.max(r.pos + n.max(1) - 1);
            let hi = ref_end.max(r.pos + n);
            (r.pos, lo, hi)
        } else {
            (r.pos, ref_end, ref_end)
        }
    }
}

pub fn vcf_header(set: &VarSet) -> io::Result<vcf::Header> {
    let mut t = format!("##fileformat=VCFv4.{}\n", set.minor);
    t.push_str("##INFO=<ID=END,Number=1,Type=Integer,Description=\"End position\">\n");
    if set.minor >= 4 {
        t.push_str("##INFO=<ID=SVLEN,Number=A,Type=Integer,Description=\"SV length\">\n");
    } else {
        t.push_str("##INFO=<ID=SVLEN,Number=.,Type=Integer,Description=\"SV length\">\n");
    }
    t.push_str("##INFO=<ID=PAD,Number=1,Type=String,Description=\"padding\">\n");
    t.push_str("##ALT=<ID=DEL,Description=\"Deletion\">\n");
    for c in &set.contigs {
        t.push_str(&format!("##contig=<ID={c}>\n"));
    }
    t.push_str("#CHROM\tPOS\tID\tREF\tALT\tQUAL\tFILTER\tINFO\n");
    t.parse::<vcf::Header>().map_err(|e| io::Error::new(io::ErrorKind::InvalidInput, format!("header: {e}")))
}

pub fn variant_buf(set: &VarSet, r: &VarRec) -> vcf::variant::RecordBuf {
    use vcf::variant::record_buf::info::field::Value;
    let mut info: Vec<(String, Option<Value>)> = Vec::new();
    if let Some(e) = r.end {
        info.push(("END".into(), Some(Value::from(e as i32))));
    }
    if let Some(n) = r.svlen {
        info.push(("SVLEN".into(), Some(Value::from(vec![Some(n as i32)]))));
    }
    if r.pad > 0 {
        let s: String = (0..r.pad).map(|i| (b'a' + ((i * 11 + r.pos) % 26) as u8) as char).collect();
        info.push(("PAD".into(), Some(Value::from(s))));
    }
    let refb: String = (0..r.ref_len).map(|i| b"ACGT"[(i + r.pos) % 4] as char).collect();
    let mut b = vcf::variant::RecordBuf::builder()
        .set_reference_sequence_name(set.contigs[r.chrom].clone())
        .set_variant_start(Position::new(r.pos).expect("pos"))
        .set_ids([r.id.clone()].into_iter().collect())
        .set_reference_bases(refb)
        .set_info(info.into_iter().collect());
    if r.alt != "." {
        b = b.set_alternate_bases(vec![r.alt.clone()].into());
    }
    b.build()
}

pub fn write_vcf_gz(path: &Path, set: &VarSet) -> io::Result<u64> {
    let header = vcf_header(set)?;
    let level = bgzf::io::writer::CompressionLevel::new(set.level).expect("level");
    let bg = bgzf::io::writer::Builder::default().set_compression_level(level).build_from_writer(File::create(path)?);
    let mut w = vcf::io::Writer::new(bg);
    w.write_header(&header)?;
    let mut flushes = 0;
    if set.flush_after.first().copied().unwrap_or(false) {
        w.get_mut().flush()?;
        flushes += 1;
    }
    for (i, r) in set.recs.iter().enumerate() {
        w.write_variant_record(&header, &variant_buf(set, r))?;
        if set.flush_after.get(i).copied().unwrap_or(false) {
            w.get_mut().flush()?;
            flushes += 1;
        }
    }
    w.get_mut().try_finish()?;
    Ok(flushes)
}

pub fn write_bcf(path: &Path, set: &VarSet) -> io::Result<u64> {
    let header = vcf_header(set)?;
    let level = bgzf::io::writer::CompressionLevel::new(set.level).expect("level");
    let bg = bgzf::io::writer::Builder::default().set_compression_level(level).build_from_writer(File::create(path)?);
    let mut w = bcf::io::Writer::from(bg);
    w.write_header(&header)?;
    let mut flushes = 0;
    if set.flush_after.first().copied().unwrap_or(false) {
        w.get_mut().flush()?;
        flushes += 1;
    }
    for (i, r) in set.recs.iter().enumerate() {
        w.write_variant_record(&header, &variant_buf(set, r))?;
        if set.flush_after.get(i).copied().unwrap_or(false) {
            w.get_mut().flush()?;
            flushes += 1;
        }
    }
    w.try_finish()?;
    Ok(flushes)
}
