//! Small alignment / variant record sets with an *independent description* (plain structs) and writers that
//! put them into BAM / bgzipped VCF / BCF files through the real noodles writers over a `bgzf::io::Writer`
//! whose block boundaries are controlled by explicit flushes. Shared by C04 and C17 (`#[path]` include).
//!
//! Spans are computed here from the description (SAMv1: end = POS + max(sum of M/D/N/=/X lengths, 1) - 1;
//! VCF: REF length, INFO/END for < 4.5, SVLEN for 4.5) — never by noodles.
#![allow(dead_code)]

use std::{
    fs::File,
    io::{self, Write},
    num::NonZero,
    path::Path,
};

use noodles_bam as bam;
use noodles_bcf as bcf;
use noodles_bgzf as bgzf;
use noodles_core::Position;
use noodles_sam::{
    self as sam,
    alignment::{
        RecordBuf,
        io::Write as _,
        record::{
            Flags,
            cigar::{Op, op::Kind},
        },
    },
    header::record::value::{
        Map,
        map::{
            self, ReferenceSequence,
            header::{sort_order::COORDINATE, tag::SORT_ORDER},
        },
    },
};
use noodles_vcf::{self as vcf, variant::io::Write as _};

#[derive(Clone, Debug)]
pub struct AlnRec {
    pub name: String,
    pub flags: u16,
    pub rid: Option<usize>,
    /// 1-based, 0 = unavailable
    pub pos: usize,
    /// CIGAR as (op char, length)
    pub ops: Vec<(char, usize)>,
    /// extra soft-clipped bases appended (fattens the record so that it straddles BGZF blocks)
    pub pad: usize,
    pub with_seq: bool,
}

impl AlnRec {
    pub fn is_unmapped(&self) -> bool {
        self.flags & 4 != 0
    }

    pub fn is_unplaced(&self) -> bool {
        self.rid.is_none() || self.pos == 0
    }

    /// (start, end), 1-based inclusive, per SAMv1 (a record without reference-consuming operations covers 1 base).
    pub fn span(&self) -> Option<(usize, usize)> {
        if self.is_unplaced() {
            return None;
        }
        let len: usize = self.ops.iter().filter(|(k, _)| matches!(k, 'M' | 'D' | 'N' | '=' | 'X')).map(|(_, n)| n).sum();
        Some((self.pos, self.pos + len.max(1) - 1))
    }

    pub fn cigar_string(&self) -> String {
        let mut s: String = self.ops.iter().map(|(k, n)| format!("{n}{k}")).collect();
        if self.pad > 0 && self.with_seq {
            s.push_str(&format!("{}S", self.pad));
        }
        if s.is_empty() { "*".into() } else { s }
    }
}

#[derive(Clone, Debug)]
pub struct AlnSet {
    pub refs: Vec<(String, usize)>,
    pub recs: Vec<AlnRec>,
    /// flush the BGZF writer after record i
    pub flush_after: Vec<bool>,
    pub level: u8,
}

fn kind(c: char) -> Kind {
    match c {
        'M' => Kind::Match,
        'I' => Kind::Insertion,
        'D' => Kind::Deletion,
        'N' => Kind::Skip,
        'S' => Kind::SoftClip,
        'H' => Kind::HardClip,
        'P' => Kind::Pad,
        '=' => Kind::SequenceMatch,
        'X' => Kind::SequenceMismatch,
        _ => panic!("bad cigar op {c}"),
    }
}

pub fn sam_header(refs: &[(String, usize)]) -> io::Result<sam::Header> {
    let hd = Map::<map::Header>::builder().insert(SORT_ORDER, COORDINATE).build().map_err(|e| io::Error::new(io::ErrorKind::InvalidInput, e))?;
    let mut b = sam::Header::builder().set_header(hd);
    for (name, len) in refs {
        b = b.add_reference_sequence(name.as_bytes(), Map::<ReferenceSequence>::new(NonZero::new(*len).expect("reference length")));
    }
    Ok(b.build())
}

pub fn record_buf(r: &AlnRec) -> RecordBuf {
    let mut b = RecordBuf::builder().set_name(r.name.as_bytes()).set_flags(Flags::from(r.flags));
    if let Some(id) = r.rid {
        b = b.set_reference_sequence_id(id);
    }
    if let Some(p) = Position::new(r.pos) {
        b = b.set_alignment_start(p);
    }
    // BAM stores an operation length in 28 bits: longer operations are written as several of the same kind
    const MAX_OP: usize = (1 << 28) - 1;
    let mut ops: Vec<Op> = Vec::new();
    for &(k, mut n) in &r.ops {
        while n > MAX_OP {
            ops.push(Op::new(kind(k), MAX_OP));
            n -= MAX_OP;
        }
        ops.push(Op::new(kind(k), n));
    }
    if r.with_seq {
        let read_len: usize = r.ops.iter().filter(|(k, _)| matches!(k, 'M' | 'I' | 'S' | '=' | 'X')).map(|(_, n)| n).sum::<usize>() + r.pad;
        if r.pad > 0 && !r.ops.is_empty() {
            ops.push(Op::new(Kind::SoftClip, r.pad));
        }
        let seq: Vec<u8> = (0..read_len).map(|i| b"ACGT"[(i * 7 + r.pos) % 4]).collect();
        b = b.set_sequence(seq.into());
    }
    if !ops.is_empty() {
        b = b.set_cigar(ops.into());
    }
    b.build()
}

/// Writes the set as BAM; returns the number of explicit flushes performed.
pub fn write_bam(path: &Path, set: &AlnSet) -> io::Result<u64> {
    let header = sam_header(&set.refs)?;
    let level = bgzf::io::writer::CompressionLevel::new(set.level).expect("level");
    let bg = bgzf::io::writer::Builder::default().set_compression_level(level).build_from_writer(File::create(path)?);
    let mut w = bam::io::Writer::from(bg);
    w.write_header(&header)?;
    let mut flushes = 0;
    if set.flush_after.first().copied().unwrap_or(false) {
        // header in its own block(s)
        w.get_mut().flush()?;
        flushes += 1;
    }
    for (i, r) in set.recs.iter().enumerate() {
        w.write_alignment_record(&header, &record_buf(r))?;
        if set.flush_after.get(i).copied().unwrap_or(false) {
            w.get_mut().flush()?;
            flushes += 1;
        }
    }
    w.try_finish()?;
    Ok(flushes)
}

// ---------------------------------------------------------------------------------------------------

#[derive(Clone, Debug)]
pub struct VarRec {
    pub chrom: usize,
    pub pos: usize,
    pub id: String,
    pub ref_len: usize,
    /// ALT column: "." or a comma-separated allele list ("T", "TAC", "<DEL>", "<NON_REF>", "<*>", "A]chr0:5]", "T,<DEL>" ...).
    /// The span oracle never looks at it: what defines the span is END / SVLEN / LEN / the REF length.
    pub alt: String,
    /// INFO/END (only generated for fileformat < 4.5)
    pub end: Option<usize>,
    /// INFO/SVLEN (only generated for fileformat 4.5): the value of the allele `svlen_at` (0-based in ALT), the other
    /// alleles carry a missing value
    pub svlen: Option<usize>,
    pub svlen_at: usize,
    /// FORMAT/LEN of the single sample (only in 4.5 files written with a sample column)
    pub len: Option<usize>,
    /// length of an INFO/PAD string (fattens the record)
    pub pad: usize,
}

#[derive(Clone, Debug)]
pub struct VarSet {
    pub minor: u32,
    pub contigs: Vec<String>,
    pub recs: Vec<VarRec>,
    pub flush_after: Vec<bool>,
    pub level: u8,
    /// write a FORMAT column (LEN) and one sample
    pub sample: bool,
}

impl VarSet {
    /// (start, smallest end, largest end) per the VCF specification; ALT is never consulted.
    /// VCF < 4.5 (4.3 §INFO/END: "the variant spans positions POS–END ... used to compute BCF's rlen field and
    /// important when indexing"): END if present, whatever the alleles are, else POS + len(REF) - 1.
    /// VCF 4.5: the largest of POS + len(REF) - 1, the SVLEN-derived end and POS + LEN - 1 (FORMAT/LEN, <*> reference
    /// blocks). For SVLEN the specification text I can reconstruct admits POS + SVLEN (the padding base at POS
    /// precedes the event) and noodles documents POS + max(len(REF), SVLEN) - 1; both are kept and regions that
    /// separate them are not judged.
    pub fn span(&self, r: &VarRec) -> (usize, usize, usize) {
        let ref_end = r.pos + r.ref_len - 1;
        if self.minor < 5 {
            let e = r.end.unwrap_or(ref_end);
            (r.pos, e, e)
        } else {
            let mut lo = ref_end;
            let mut hi = ref_end;
            if let Some(n) = r.svlen {
                lo = lo.max(r.pos + n.max(1) - 1);
                hi = hi.max(r.pos + n);
            }
            if let Some(n) = r.len {
                lo = lo.max(r.pos + n.max(1) - 1);
                hi = hi.max(r.pos + n.max(1) - 1);
            }
            (r.pos, lo, hi)
        }
    }
}

pub fn vcf_header(set: &VarSet) -> io::Result<vcf::Header> {
    let mut t = format!("##fileformat=VCFv4.{}\n", set.minor);
    t.push_str("##INFO=<ID=END,Number=1,Type=Integer,Description=\"End position\">\n");
    if set.minor >= 4 {
        t.push_str("##INFO=<ID=SVLEN,Number=A,Type=Integer,Description=\"SV length\">\n");
    } else {
        t.push_str("##INFO=<ID=SVLEN,Number=.,Type=Integer,Description=\"SV length\">\n");
    }
    t.push_str("##INFO=<ID=PAD,Number=1,Type=String,Description=\"padding\">\n");
    t.push_str("##ALT=<ID=DEL,Description=\"Deletion\">\n");
    t.push_str("##ALT=<ID=DUP,Description=\"Duplication\">\n");
    t.push_str("##ALT=<ID=NON_REF,Description=\"Any other allele\">\n");
    if set.sample {
        t.push_str("##FORMAT=<ID=LEN,Number=1,Type=Integer,Description=\"Length of <*> reference block\">\n");
    }
    for c in &set.contigs {
        t.push_str(&format!("##contig=<ID={c}>\n"));
    }
    if set.sample {
        t.push_str("#CHROM\tPOS\tID\tREF\tALT\tQUAL\tFILTER\tINFO\tFORMAT\tS1\n");
    } else {
        t.push_str("#CHROM\tPOS\tID\tREF\tALT\tQUAL\tFILTER\tINFO\n");
    }
    t.parse::<vcf::Header>().map_err(|e| io::Error::new(io::ErrorKind::InvalidInput, format!("header: {e}")))
}

pub fn variant_buf(set: &VarSet, r: &VarRec) -> vcf::variant::RecordBuf {
    use vcf::variant::record_buf::info::field::Value;
    let mut info: Vec<(String, Option<Value>)> = Vec::new();
    if let Some(e) = r.end {
        info.push(("END".into(), Some(Value::from(e as i32))));
    }
    let alts: Vec<String> = if r.alt == "." { vec![] } else { r.alt.split(',').map(|a| a.to_string()).collect() };
    if let Some(n) = r.svlen {
        // Number=A: one value per ALT allele, missing for the alleles that are not the structural variant
        let vals: Vec<Option<i32>> = (0..alts.len().max(1)).map(|i| if i == r.svlen_at { Some(n as i32) } else { None }).collect();
        info.push(("SVLEN".into(), Some(Value::from(vals))));
    }
    if r.pad > 0 {
        let s: String = (0..r.pad).map(|i| (b'a' + ((i * 11 + r.pos) % 26) as u8) as char).collect();
        info.push(("PAD".into(), Some(Value::from(s))));
    }
    let refb: String = (0..r.ref_len).map(|i| b"ACGT"[(i + r.pos) % 4] as char).collect();
    let mut b = vcf::variant::RecordBuf::builder()
        .set_reference_sequence_name(set.contigs[r.chrom].clone())
        .set_variant_start(Position::new(r.pos).expect("pos"))
        .set_ids([r.id.clone()].into_iter().collect())
        .set_reference_bases(refb)
        .set_info(info.into_iter().collect());
    if !alts.is_empty() {
        b = b.set_alternate_bases(alts.into());
    }
    if set.sample {
        use vcf::variant::record_buf::{Samples, samples::sample::Value as SValue};
        let keys = [String::from("LEN")].into_iter().collect();
        b = b.set_samples(Samples::new(keys, vec![vec![r.len.map(|n| SValue::from(n as i32))]]));
    }
    b.build()
}

pub fn write_vcf_gz(path: &Path, set: &VarSet) -> io::Result<u64> {
    let header = vcf_header(set)?;
    let level = bgzf::io::writer::CompressionLevel::new(set.level).expect("level");
    let bg = bgzf::io::writer::Builder::default().set_compression_level(level).build_from_writer(File::create(path)?);
    let mut w = vcf::io::Writer::new(bg);
    w.write_header(&header)?;
    let mut flushes = 0;
    if set.flush_after.first().copied().unwrap_or(false) {
        w.get_mut().flush()?;
        flushes += 1;
    }
    for (i, r) in set.recs.iter().enumerate() {
        w.write_variant_record(&header, &variant_buf(set, r))?;
        if set.flush_after.get(i).copied().unwrap_or(false) {
            w.get_mut().flush()?;
            flushes += 1;
        }
    }
    w.get_mut().try_finish()?;
    Ok(flushes)
}

pub fn write_bcf(path: &Path, set: &VarSet) -> io::Result<u64> {
    let header = vcf_header(set)?;
    let level = bgzf::io::writer::CompressionLevel::new(set.level).expect("level");
    let bg = bgzf::io::writer::Builder::default().set_compression_level(level).build_from_writer(File::create(path)?);
    let mut w = bcf::io::Writer::from(bg);
    w.write_header(&header)?;
    let mut flushes = 0;
    if set.flush_after.first().copied().unwrap_or(false) {
        w.get_mut().flush()?;
        flushes += 1;
    }
    for (i, r) in set.recs.iter().enumerate() {
        w.write_variant_record(&header, &variant_buf(set, r))?;
        if set.flush_after.get(i).copied().unwrap_or(false) {
            w.get_mut().flush()?;
            flushes += 1;
        }
    }
    w.try_finish()?;
    Ok(flushes)
}
