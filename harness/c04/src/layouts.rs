//! Coordinate-sorted record-set layouts for C04 (deterministic functions of the case RNG).
//!
//! Motifs: spans straddling / abutting 16 kb, 128 kb, 1 Mb, 8 Mb, 64 Mb bin edges; a long record followed by
//! short ones inside one 16 kb window; dense runs (many records per BGZF block); sparse records; records at
//! the end of the coordinate range; placed unmapped reads; several references including empty ones;
//! unplaced unmapped reads at the end. Block boundaries come from an explicit flush plan and from "fat"
//! records (long soft-clipped sequences / INFO strings) that fill or exceed a BGZF block.

use vcore::Rng;

use crate::genfiles::{AlnRec, AlnSet, VarRec, VarSet};

/// (start, reference length of the record, kind) with kind 0 = plain, 1 = with an N skip, 2 = placed unmapped
type Proto = (usize, usize, u8);

pub const LEVEL_SPANS: [usize; 5] = [1 << 14, 1 << 17, 1 << 20, 1 << 23, 1 << 26];

fn motif(rng: &mut Rng, which: u64, coord_max: usize, budget: usize, out: &mut Vec<Proto>, tags: &mut Vec<&'static str>) {
    let clamp = |s: usize, len: usize| -> (usize, usize) {
        let s = s.clamp(1, coord_max);
        (s, len.clamp(1, coord_max - s + 1))
    };
    match which {
        0 => {
            // bin edges
            let spans: Vec<usize> = LEVEL_SPANS.iter().copied().filter(|&s| s < coord_max).collect();
            if spans.is_empty() {
                return;
            }
            for _ in 0..rng.urange(1, 3) {
                let span = *rng.pick(&spans);
                let k = rng.urange(1, (coord_max / span).max(1));
                let e = (k * span).min(coord_max - 1);
                let all: [(i64, usize); 8] = [(-50, 100), (0, 1), (1, 1), (0, 2), (-100, 101), (1, 100), (-1, 1), (-(span as i64) + 1, span)];
                for &(d, len) in &all {
                    if rng.chance(3, 4) {
                        let s = (e as i64 + d).max(1) as usize;
                        let (s, len) = clamp(s, len);
                        out.push((s, len, 0));
                    }
                }
            }
            tags.push("edges");
        }
        1 => {
            // long before short inside one 16 kb window
            let w = rng.urange(0, (coord_max >> 14).saturating_sub(1)) << 14;
            let long = *rng.pick(&[20_000usize, 40_000, 200_000, 2_000_000, 20_000_000, 100_000_000, 400_000_000]);
            let (s, len) = clamp(w + 1 + rng.below(40) as usize, long);
            out.push((s, len, if len > 1000 { 1 } else { 0 }));
            if rng.chance(1, 3) {
                // a second long one a bit later
                let (s2, len2) = clamp(s + 5 + rng.below(30) as usize, long / 3 + 17);
                out.push((s2, len2, 1));
            }
            let mut p = s + 1 + rng.below(60) as usize;
            for _ in 0..rng.urange(3, budget.max(4)) {
                let (ps, plen) = clamp(p, 20 + rng.below(130) as usize);
                out.push((ps, plen, 0));
                p += match rng.below(5) {
                    0 => rng.below(4) as usize,
                    1 => 2000 + rng.below(9000) as usize,
                    2 => 16_384,
                    _ => 10 + rng.below(300) as usize,
                };
                if p >= coord_max {
                    break;
                }
            }
            tags.push("long-before-short");
        }
        2 => {
            let mut p = 1 + rng.skewed(coord_max as u64 / 2) as usize;
            for _ in 0..rng.urange(10, budget.max(11)) {
                let (ps, plen) = clamp(p, *rng.pick(&[1usize, 36, 100, 100, 151, 250]));
                out.push((ps, plen, 0));
                p += rng.below(60) as usize;
                if p >= coord_max {
                    break;
                }
            }
            tags.push("dense");
        }
        3 => {
            for _ in 0..rng.urange(2, 10) {
                let s = 1 + rng.below(coord_max as u64) as usize;
                let (s, len) = clamp(s, 1 + rng.skewed(1 << 21) as usize);
                out.push((s, len, if len > 5000 { 1 } else { 0 }));
            }
            tags.push("sparse");
        }
        4 => {
            for &(d, len) in &[(10usize, 11usize), (0, 1), (1, 2), (100_000, 100_001), (5, 3)] {
                if coord_max > d + 1 && rng.chance(2, 3) {
                    let (s, len) = clamp(coord_max - d, len);
                    out.push((s, len, 0));
                }
            }
            out.push((1, 1 + rng.below(200) as usize, 0));
            tags.push("range-ends");
        }
        _ => {
            // placed unmapped reads next to mapped ones
            let n = out.len();
            for _ in 0..rng.urange(1, 4) {
                let s = if n > 0 { out[rng.usize_below(n)].0 + rng.below(3) as usize } else { 1 + rng.below(coord_max as u64) as usize };
                out.push((s.min(coord_max), 1, 2));
            }
            tags.push("placed-unmapped");
        }
    }
}

fn flush_plan(rng: &mut Rng, n: usize) -> (Vec<bool>, String) {
    let mode = rng.below(6);
    let k = rng.urange(1, 8);
    let plan = (0..n.max(1))
        .map(|i| match mode {
            0 => (i + 1) % k == 0,
            1 => rng.chance(1, 4),
            2 => (i + 1) % 50 == 0,
            3 => i % 2 == 0 || rng.chance(1, 3),
            4 => rng.chance(1, 20),
            _ => false,
        })
        .collect();
    (plan, format!("flush{mode}"))
}

pub fn protos(rng: &mut Rng, coord_max: usize, size: usize, allow_unmapped: bool) -> (Vec<Proto>, Vec<&'static str>) {
    let mut out = Vec::new();
    let mut tags = Vec::new();
    let nm = rng.urange(1, 4);
    for _ in 0..nm {
        let which = if allow_unmapped { rng.below(6) } else { rng.below(5) };
        motif(rng, which, coord_max, size / nm, &mut out, &mut tags);
    }
    out.sort_by_key(|p| p.0); // stable: long-before-short order at equal starts is kept
    out.truncate(size * 2);
    (out, tags)
}

pub fn gen_aln(rng: &mut Rng, coord_max: usize, size: usize) -> (AlnSet, String) {
    let nrefs = *rng.pick(&[1usize, 2, 3, 4, 6]);
    let refs: Vec<(String, usize)> = (0..nrefs).map(|i| (format!("sq{i}"), coord_max.max(1))).collect();
    let fat = rng.chance(1, 3);
    let mut recs = Vec::new();
    let mut k = 0usize;
    let mut shape: Vec<String> = Vec::new();
    let mut any = false;
    for r in 0..nrefs {
        let empty = nrefs > 1 && rng.chance(1, 4) && !(r == nrefs - 1 && !any);
        if empty {
            shape.push("empty".into());
            continue;
        }
        any = true;
        let (ps, tags) = protos(rng, coord_max, size / nrefs.min(3) + 4, true);
        shape.push(tags.join("+"));
        for (s, len, kind) in ps {
            let (flags, ops): (u16, Vec<(char, usize)>) = match kind {
                2 => (*rng.pick(&[4u16, 77, 141, 69]), vec![]),
                1 if len >= 3 => {
                    let a = 1 + rng.below((len as u64 / 3).min(100)) as usize;
                    let b = 1 + rng.below((len as u64 / 3).min(100)) as usize;
                    (*rng.pick(&[0u16, 16, 256]), vec![('M', a), ('N', len - a - b), ('M', b)])
                }
                _ => {
                    let flags = *rng.pick(&[0u16, 16, 99, 147, 2048]);
                    let ops = match rng.below(6) {
                        0 if len >= 4 => vec![('S', 3), ('M', len / 2), ('D', len - len / 2 - 1), ('I', 2), ('M', 1)],
                        1 if len >= 2 => vec![('=', len - 1), ('X', 1)],
                        2 => vec![('H', 5), ('M', len), ('S', 2)],
                        _ => vec![('M', len)],
                    };
                    (flags, ops)
                }
            };
            let read_len: usize = ops.iter().filter(|(k, _)| matches!(k, 'M' | 'I' | 'S' | '=' | 'X')).map(|(_, n)| n).sum();
            let (with_seq, pad) =
                if fat && rng.chance(1, 4) && read_len < 4000 && !ops.is_empty() { (true, *rng.pick(&[0usize, 500, 5000, 30_000, 70_000, 140_000])) } else { (read_len <= 300 && rng.chance(1, 2), 0) };
            recs.push(AlnRec { name: format!("q{k}"), flags, rid: Some(r), pos: s, ops, pad, with_seq });
            k += 1;
        }
    }
    let unplaced = *rng.pick(&[0usize, 0, 1, 3, 12]);
    for _ in 0..unplaced {
        recs.push(AlnRec { name: format!("q{k}"), flags: *rng.pick(&[4u16, 77, 141]), rid: None, pos: 0, ops: vec![], pad: 0, with_seq: rng.bool() });
        k += 1;
    }
    let (flush_after, fl) = flush_plan(rng, recs.len());
    let shape = format!("{}|{fl}|fat={fat}|unplaced={}", shape.join(","), unplaced.min(2));
    (AlnSet { refs, recs, flush_after, level: *rng.pick(&[0u8, 1, 1, 6]) }, shape)
}

/// ALT columns that say nothing about the span: missing, plain bases, symbolic alleles, breakends, mixed lists.
pub const ANY_ALT: [&str; 12] = [".", ".", "T", "TAC", "<DEL>", "<NON_REF>", "<*>", "A]chr0:12345]", "[chr0:777[C", "T,<DEL>", "G,<NON_REF>", "<DUP>,T"];

pub fn alt_class(alt: &str) -> &'static str {
    let syms = alt.split(',').filter(|a| a.starts_with('<')).count();
    let n = alt.split(',').count();
    if alt == "." {
        "missing"
    } else if alt.contains('[') || alt.contains(']') {
        "breakend"
    } else if syms == 0 {
        "plain-bases"
    } else if syms == n {
        "symbolic"
    } else if alt.starts_with('<') {
        "mixed-symbolic-first"
    } else {
        "mixed-symbolic-later"
    }
}

pub fn gen_var(rng: &mut Rng, coord_max: usize, size: usize) -> (VarSet, String) {
    let ncontigs = *rng.pick(&[1usize, 2, 3, 4, 6]);
    let contigs: Vec<String> = (0..ncontigs).map(|i| if i % 2 == 0 { format!("chr{i}") } else { format!("ctg.{i}_x") }).collect();
    let minor = *rng.pick(&[2u32, 3, 4, 5]);
    let sample = minor == 5 && rng.bool();
    let fat = rng.chance(1, 3);
    let mut recs = Vec::new();
    let mut k = 0usize;
    let mut shape: Vec<String> = Vec::new();
    let mut any = false;
    let mut alt_classes: std::collections::BTreeMap<&'static str, usize> = Default::default();
    for c in 0..ncontigs {
        let empty = ncontigs > 1 && rng.chance(1, 4) && !(c == ncontigs - 1 && !any);
        if empty {
            shape.push("empty".into());
            continue;
        }
        any = true;
        let (ps, tags) = protos(rng, coord_max, size / ncontigs.min(3) + 4, false);
        shape.push(tags.join("+"));
        for (s, len, _) in ps {
            // What defines the span and what the ALT column says are chosen independently (gVCF reference blocks with
            // ALT '.', deletions written with plain bases plus END, breakends, mixed lists): REF bases (short spans),
            // INFO/END (< 4.5), INFO/SVLEN of one symbolic SV allele or FORMAT/LEN (4.5 — there the specification ties
            // SVLEN to symbolic SV alleles and LEN to <*>, so those two keep such an allele somewhere in the list).
            let any_alt = |rng: &mut Rng| rng.pick(&ANY_ALT).to_string();
            let (ref_len, end, svlen, svlen_at, flen, alt) = if len <= 60 && rng.chance(4, 5) {
                (len, None, None, 0, None, any_alt(rng))
            } else if minor < 5 {
                (1 + rng.below(3) as usize, Some(s + len - 1), None, 0, None, any_alt(rng))
            } else if sample && rng.bool() {
                (1, None, None, 0, Some(len), rng.pick(&["<*>", "T,<*>", "<*>,TAC"]).to_string())
            } else {
                // span s..=s+len-1 under the "POS + SVLEN - 1" reading, one more under "POS + SVLEN"
                let (alt, at) = *rng.pick(&[("<DEL>", 0usize), ("<DUP>", 0), ("T,<DEL>", 1), ("<DEL>,T", 0), ("TAC,G,<DUP>", 2)]);
                (1, None, Some(len), at, None, alt.to_string())
            };
            let ref_len = ref_len.min(len.max(1));
            let pad = if fat && rng.chance(1, 4) { *rng.pick(&[0usize, 500, 5000, 30_000, 70_000, 140_000]) } else { 0 };
            *alt_classes.entry(alt_class(&alt)).or_insert(0usize) += 1;
            recs.push(VarRec { chrom: c, pos: s, id: format!("v{k}"), ref_len, alt, end, svlen, svlen_at, len: flen, pad });
            k += 1;
        }
    }
    let (flush_after, fl) = flush_plan(rng, recs.len());
    let shape = format!("4.{minor}|{}|{fl}|fat={fat}|sample={sample}", shape.join(","));
    (VarSet { minor, contigs, recs, flush_after, level: *rng.pick(&[0u8, 1, 1, 6]), sample }, shape)
}
