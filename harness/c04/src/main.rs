//! C04 — indexed region queries return exactly what a linear scan would (BAI, CSI, tabix).
//!
//! Monitor: coordinate-sorted record sets (see `layouts.rs`) are written with the real writers over a BGZF writer
//! with forced small / straddled blocks; indexes come from `bam::fs::index` (BAI), `bcf::fs::index` (CSI),
//! `vcf::fs::index` (tabix) and from the public `csi::binning_index::Indexer<BinnedIndex>` driven the way
//! `fs::index` drives it (BAM+CSI, and CSI with non-default min_shift/depth); each index is used in memory and
//! after `*::fs::write` + `*::fs::read`. Every region query result is compared, as an ordered list of unique
//! record names / IDs, with the scan filter over the generator's own description of the records
//! (same reference AND span ∩ region ≠ ∅, span from POS/CIGAR resp. REF/END/SVLEN, computed here).
//! All calls of a file/index variant go through ONE reused reader (state left by the previous call must not leak);
//! a wrong answer is repeated on a fresh reader to separate reused-state defects from index/query defects.
//! A missing record is diagnosed: not indexed / not in any returned bin / pruned by the linear or binned
//! min_offset / lost in the chunk merge / inside a returned chunk but skipped by the reader / rejected by the
//! format-level intersects filter — the class is part of the signature.

mod genfiles;
mod layouts;

use std::{
    collections::{HashMap, HashSet},
    io::{self, Cursor},
    path::Path,
};

use noodles_bam as bam;
use noodles_bcf as bcf;
use noodles_bgzf::{self as bgzf, io::Seek as _};
use noodles_core::{Position, Region, region::Interval};
use noodles_csi::{
    self as csi, BinningIndex,
    binning_index::{
        Index, Indexer,
        index::reference_sequence::{
            self,
            bin::Chunk,
            index::{BinnedIndex, LinearIndex},
        },
    },
};
use noodles_sam::{self as sam, alignment::Record as _};
use noodles_tabix as tabix;
use noodles_vcf::{self as vcf, variant::Record as _};
use serde_json::{Value, json};
use vcore::{CaseOut, Ctx, Report, Rng, guard, rng::fnv1a, run_cases};

use genfiles::{AlnRec, AlnSet, VarRec, VarSet};

// ---------------------------------------------------------------------------------------------------
// description of a written record, as the oracle sees it

#[derive(Clone, Debug)]
struct Item {
    name: String,
    /// reference index in the file header (None = unplaced)
    rid: Option<usize>,
    /// (start, smallest end, largest end) — the two ends differ only for VCF 4.5 SVLEN records
    span: Option<(usize, usize, usize)>,
    unmapped: bool,
}

#[derive(Clone, Debug)]
struct Reg {
    rid: usize,
    s: Option<usize>,
    e: Option<usize>,
    class: &'static str,
}

impl Reg {
    fn interval(&self) -> Interval {
        match (self.s.and_then(Position::new), self.e.and_then(Position::new)) {
            (Some(s), Some(e)) => (s..=e).into(),
            (Some(s), None) => (s..).into(),
            (None, Some(e)) => (..=e).into(),
            (None, None) => (..).into(),
        }
    }
    fn hits(&self, s: usize, e: usize) -> bool {
        self.s.unwrap_or(1) <= e && s <= self.e.unwrap_or(usize::MAX)
    }
}

/// Result of the sequential scan of the written file with the noodles reader: names in file order and the
/// `[vpos before, vpos after)` pair of each record (what the indexers store as the record's chunk).
struct Scan {
    names: Vec<String>,
    chunks: Vec<(u64, u64)>,
}

/// ONE reader over the file that serves a whole sequence of calls (the default access path: state left behind by a
/// call — block position, buffers, a dropped half-consumed query — must not leak into the next answer).
trait Sess {
    /// `take`: stop after that many records and drop the query iterator
    fn query(&mut self, name: &str, iv: Interval, take: Option<usize>) -> io::Result<Vec<String>>;
    fn unmapped(&mut self) -> Option<io::Result<Vec<String>>> {
        None
    }
    /// seek back to the start of the file, read the header again and scan every record sequentially
    fn scan_all(&mut self) -> io::Result<Vec<String>>;
}

trait Backend {
    const FMT: &'static str;
    /// reused reader: `indexed` = through `IndexedReader` (owning a clone of the index), else `Reader::query(.., &index, ..)`
    fn session<'a, X: BinningIndex + Clone + 'static>(&'a self, ix: &X, indexed: bool, header_first: bool) -> io::Result<Box<dyn Sess + 'a>>;
    /// fresh reader for one call
    fn query<X: BinningIndex>(&self, ix: &X, name: &str, iv: Interval) -> io::Result<Vec<String>>;
    /// all records inside the given chunks, without the format-level filter
    fn raw(&self, chunks: Vec<Chunk>) -> io::Result<Vec<String>>;
    fn unmapped<X: BinningIndex>(&self, _ix: &X) -> Option<io::Result<Vec<String>>> {
        None
    }
}

// ---------------------------------------------------------------------------------------------------
// BAM

struct BamB {
    data: Vec<u8>,
    header: sam::Header,
}

fn bam_name(r: &bam::Record) -> String {
    r.name().map(|n| String::from_utf8_lossy(n.as_ref()).into_owned()).unwrap_or_default()
}

impl BamB {
    fn open(path: &Path) -> io::Result<(Self, Scan)> {
        let data = std::fs::read(path)?;
        let mut r = bam::io::Reader::new(&data[..]);
        let header = r.read_header()?;
        let mut rec = bam::Record::default();
        let mut scan = Scan { names: vec![], chunks: vec![] };
        loop {
            let s = u64::from(r.get_ref().virtual_position());
            if r.read_record(&mut rec)? == 0 {
                break;
            }
            let e = u64::from(r.get_ref().virtual_position());
            scan.names.push(bam_name(&rec));
            scan.chunks.push((s, e));
        }
        Ok((BamB { data, header }, scan))
    }

    /// CSI over the BAM, built the way `bam::fs::index` builds the BAI but with `Indexer::<BinnedIndex>::new`.
    fn csi(&self, min_shift: u8, depth: u8) -> io::Result<csi::Index> {
        let mut r = bam::io::Reader::new(&self.data[..]);
        let header = r.read_header()?;
        let mut ixr = Indexer::<BinnedIndex>::new(min_shift, depth);
        let mut rec = bam::Record::default();
        let mut start = r.get_ref().virtual_position();
        while r.read_record(&mut rec)? != 0 {
            let end = r.get_ref().virtual_position();
            let ctx = match (rec.reference_sequence_id().transpose()?, rec.alignment_start().transpose()?, rec.alignment_end().transpose()?) {
                (Some(id), Some(s), Some(e)) => Some((id, s, e, !rec.flags().is_unmapped())),
                _ => None,
            };
            ixr.add_record(ctx, Chunk::new(start, end))?;
            start = end;
        }
        Ok(ixr.build(header.reference_sequences().len()))
    }
}

type Bg<'a> = bgzf::io::Reader<Cursor<&'a [u8]>>;

fn take_names<T>(it: impl Iterator<Item = io::Result<T>>, name: impl Fn(&T) -> String, take: Option<usize>) -> io::Result<Vec<String>> {
    let mut out = vec![];
    for x in it {
        out.push(name(&x?));
        if Some(out.len()) == take {
            break;
        }
    }
    Ok(out)
}

struct BamSess<'a, X> {
    r: bam::io::Reader<Bg<'a>>,
    header: &'a sam::Header,
    ix: X,
}

impl<X: BinningIndex> Sess for BamSess<'_, X> {
    fn query(&mut self, name: &str, iv: Interval, take: Option<usize>) -> io::Result<Vec<String>> {
        let q = self.r.query(self.header, &self.ix, &Region::new(name, iv))?;
        take_names(q.records(), bam_name, take)
    }
    fn unmapped(&mut self) -> Option<io::Result<Vec<String>>> {
        Some((|| take_names(self.r.query_unmapped(&self.ix)?, bam_name, None))())
    }
    fn scan_all(&mut self) -> io::Result<Vec<String>> {
        self.r.get_mut().seek_to_virtual_position(bgzf::VirtualPosition::default())?;
        self.r.read_header()?;
        take_names(self.r.records(), bam_name, None)
    }
}

struct BamISess<'a> {
    r: bam::io::IndexedReader<Bg<'a>>,
    header: &'a sam::Header,
}

impl Sess for BamISess<'_> {
    fn query(&mut self, name: &str, iv: Interval, take: Option<usize>) -> io::Result<Vec<String>> {
        let q = self.r.query(self.header, &Region::new(name, iv))?;
        take_names(q.records(), bam_name, take)
    }
    fn unmapped(&mut self) -> Option<io::Result<Vec<String>>> {
        Some((|| take_names(self.r.query_unmapped()?, bam_name, None))())
    }
    fn scan_all(&mut self) -> io::Result<Vec<String>> {
        self.r.get_mut().seek_to_virtual_position(bgzf::VirtualPosition::default())?;
        self.r.read_header()?;
        take_names(self.r.records(), bam_name, None)
    }
}

impl Backend for BamB {
    const FMT: &'static str = "bam";
    fn session<'a, X: BinningIndex + Clone + 'static>(&'a self, ix: &X, indexed: bool, header_first: bool) -> io::Result<Box<dyn Sess + 'a>> {
        if indexed {
            let mut r = bam::io::IndexedReader::new(Cursor::new(&self.data[..]), ix.clone());
            if header_first {
                r.read_header()?;
            }
            Ok(Box::new(BamISess { r, header: &self.header }))
        } else {
            let mut r = bam::io::Reader::new(Cursor::new(&self.data[..]));
            if header_first {
                r.read_header()?;
            }
            Ok(Box::new(BamSess { r, header: &self.header, ix: ix.clone() }))
        }
    }
    fn query<X: BinningIndex>(&self, ix: &X, name: &str, iv: Interval) -> io::Result<Vec<String>> {
        let mut r = bam::io::Reader::new(Cursor::new(&self.data[..]));
        let region = Region::new(name, iv);
        let q = r.query(&self.header, ix, &region)?;
        q.records().map(|x| x.map(|rec| bam_name(&rec))).collect()
    }
    fn raw(&self, chunks: Vec<Chunk>) -> io::Result<Vec<String>> {
        let mut bg = bgzf::io::Reader::new(Cursor::new(&self.data[..]));
        let mut r = bam::io::Reader::from(csi::io::Query::new(&mut bg, chunks));
        let mut rec = bam::Record::default();
        let mut out = vec![];
        while r.read_record(&mut rec)? != 0 {
            out.push(bam_name(&rec));
        }
        Ok(out)
    }
    fn unmapped<X: BinningIndex>(&self, ix: &X) -> Option<io::Result<Vec<String>>> {
        let mut r = bam::io::Reader::new(Cursor::new(&self.data[..]));
        Some((|| {
            // both usages: a reader that has consumed the header, and a fresh one
            if self.data.len() % 2 == 0 {
                r.read_header()?;
            }
            let it = r.query_unmapped(ix)?;
            it.map(|x| x.map(|rec| bam_name(&rec))).collect()
        })())
    }
}

// ---------------------------------------------------------------------------------------------------
// BCF

struct BcfB {
    data: Vec<u8>,
    header: vcf::Header,
}

fn bcf_id(r: &bcf::Record) -> String {
    String::from_utf8_lossy(r.ids().as_ref()).into_owned()
}

impl BcfB {
    fn open(path: &Path) -> io::Result<(Self, Scan)> {
        let data = std::fs::read(path)?;
        let mut r = bcf::io::Reader::new(&data[..]);
        let header = r.read_header()?;
        let mut rec = bcf::Record::default();
        let mut scan = Scan { names: vec![], chunks: vec![] };
        loop {
            let s = u64::from(r.get_ref().virtual_position());
            if r.read_record(&mut rec)? == 0 {
                break;
            }
            let e = u64::from(r.get_ref().virtual_position());
            scan.names.push(bcf_id(&rec));
            scan.chunks.push((s, e));
        }
        Ok((BcfB { data, header }, scan))
    }

    fn csi(&self, min_shift: u8, depth: u8) -> io::Result<csi::Index> {
        let mut r = bcf::io::Reader::new(&self.data[..]);
        let header = r.read_header()?;
        let mut ixr = Indexer::<BinnedIndex>::new(min_shift, depth);
        let mut rec = bcf::Record::default();
        let mut start = r.get_ref().virtual_position();
        while r.read_record(&mut rec)? != 0 {
            let end = r.get_ref().virtual_position();
            let id = rec.reference_sequence_id()?;
            let s = rec.variant_start().transpose()?.ok_or_else(|| io::Error::new(io::ErrorKind::InvalidData, "missing start"))?;
            let e = rec.variant_end(&header)?;
            ixr.add_record(Some((id, s, e, true)), Chunk::new(start, end))?;
            start = end;
        }
        Ok(ixr.build(header.contigs().len()))
    }
}

struct BcfSess<'a, X> {
    r: bcf::io::Reader<Bg<'a>>,
    header: &'a vcf::Header,
    ix: X,
}

impl<X: BinningIndex> Sess for BcfSess<'_, X> {
    fn query(&mut self, name: &str, iv: Interval, take: Option<usize>) -> io::Result<Vec<String>> {
        let q = self.r.query(self.header, &self.ix, &Region::new(name, iv))?;
        take_names(q.records(), bcf_id, take)
    }
    fn scan_all(&mut self) -> io::Result<Vec<String>> {
        self.r.get_mut().seek_to_virtual_position(bgzf::VirtualPosition::default())?;
        self.r.read_header()?;
        take_names(self.r.records(), bcf_id, None)
    }
}

struct BcfISess<'a> {
    r: bcf::io::IndexedReader<Bg<'a>>,
    header: &'a vcf::Header,
}

impl Sess for BcfISess<'_> {
    fn query(&mut self, name: &str, iv: Interval, take: Option<usize>) -> io::Result<Vec<String>> {
        let q = self.r.query(self.header, &Region::new(name, iv))?;
        take_names(q.records(), bcf_id, take)
    }
    fn scan_all(&mut self) -> io::Result<Vec<String>> {
        self.r.get_mut().seek_to_virtual_position(bgzf::VirtualPosition::default())?;
        self.r.read_header()?;
        take_names(self.r.records(), bcf_id, None)
    }
}

impl Backend for BcfB {
    const FMT: &'static str = "bcf";
    fn session<'a, X: BinningIndex + Clone + 'static>(&'a self, ix: &X, indexed: bool, header_first: bool) -> io::Result<Box<dyn Sess + 'a>> {
        if indexed {
            let mut r = bcf::io::IndexedReader::new(Cursor::new(&self.data[..]), ix.clone());
            if header_first {
                r.read_header()?;
            }
            Ok(Box::new(BcfISess { r, header: &self.header }))
        } else {
            let mut r = bcf::io::Reader::new(Cursor::new(&self.data[..]));
            if header_first {
                r.read_header()?;
            }
            Ok(Box::new(BcfSess { r, header: &self.header, ix: ix.clone() }))
        }
    }
    fn query<X: BinningIndex>(&self, ix: &X, name: &str, iv: Interval) -> io::Result<Vec<String>> {
        let mut r = bcf::io::Reader::new(Cursor::new(&self.data[..]));
        let region = Region::new(name, iv);
        let q = r.query(&self.header, ix, &region)?;
        q.records().map(|x| x.map(|rec| bcf_id(&rec))).collect()
    }
    fn raw(&self, chunks: Vec<Chunk>) -> io::Result<Vec<String>> {
        let mut bg = bgzf::io::Reader::new(Cursor::new(&self.data[..]));
        let mut r = bcf::io::Reader::from(csi::io::Query::new(&mut bg, chunks));
        let mut rec = bcf::Record::default();
        let mut out = vec![];
        while r.read_record(&mut rec)? != 0 {
            out.push(bcf_id(&rec));
        }
        Ok(out)
    }
}

// ---------------------------------------------------------------------------------------------------
// bgzipped VCF

struct VcfB {
    data: Vec<u8>,
    header: vcf::Header,
}

impl VcfB {
    fn open(path: &Path) -> io::Result<(Self, Scan)> {
        let data = std::fs::read(path)?;
        let mut r = vcf::io::Reader::new(bgzf::io::Reader::new(&data[..]));
        let header = r.read_header()?;
        let mut rec = vcf::Record::default();
        let mut scan = Scan { names: vec![], chunks: vec![] };
        loop {
            let s = u64::from(r.get_ref().virtual_position());
            if r.read_record(&mut rec)? == 0 {
                break;
            }
            let e = u64::from(r.get_ref().virtual_position());
            scan.names.push(rec.ids().as_ref().to_string());
            scan.chunks.push((s, e));
        }
        Ok((VcfB { data, header }, scan))
    }

    /// CSI over the bgzipped VCF (noodles has no fs function for it): the public `Indexer<BinnedIndex>` with a tabix-style
    /// header, driven the way `vcf::fs::index` drives the tabix indexer (names in order of first appearance, one
    /// `[vpos before, vpos after)` chunk per record, `variant_start` / `variant_end`).
    fn csi(&self, min_shift: u8, depth: u8) -> io::Result<csi::Index> {
        let mut r = vcf::io::Reader::new(bgzf::io::Reader::new(&self.data[..]));
        let header = r.read_header()?;
        let mut names = csi::binning_index::index::header::ReferenceSequenceNames::new();
        let mut ixr = Indexer::<BinnedIndex>::new(min_shift, depth);
        let mut rec = vcf::Record::default();
        let mut start = r.get_ref().virtual_position();
        while r.read_record(&mut rec)? != 0 {
            let end = r.get_ref().virtual_position();
            let (id, _) = names.insert_full(rec.reference_sequence_name().into());
            let s = rec.variant_start().transpose()?.ok_or_else(|| io::Error::new(io::ErrorKind::InvalidData, "missing position"))?;
            let e = rec.variant_end(&header)?;
            ixr.add_record(Some((id, s, e, true)), Chunk::new(start, end))?;
            start = end;
        }
        let n = names.len();
        let h = csi::binning_index::index::header::Builder::vcf().set_reference_sequence_names(names).build();
        Ok(ixr.set_header(h).build(n))
    }
}

fn vcf_id(r: &vcf::Record) -> String {
    r.ids().as_ref().to_string()
}

struct VcfSess<'a, X> {
    r: vcf::io::Reader<Bg<'a>>,
    header: &'a vcf::Header,
    ix: X,
}

impl<X: BinningIndex> Sess for VcfSess<'_, X> {
    fn query(&mut self, name: &str, iv: Interval, take: Option<usize>) -> io::Result<Vec<String>> {
        let q = self.r.query(self.header, &self.ix, &Region::new(name, iv))?;
        take_names(q.records(), vcf_id, take)
    }
    fn scan_all(&mut self) -> io::Result<Vec<String>> {
        self.r.get_mut().seek_to_virtual_position(bgzf::VirtualPosition::default())?;
        self.r.read_header()?;
        take_names(self.r.records(), vcf_id, None)
    }
}

struct VcfISess<'a> {
    r: vcf::io::IndexedReader<Bg<'a>>,
    header: &'a vcf::Header,
}

impl Sess for VcfISess<'_> {
    fn query(&mut self, name: &str, iv: Interval, take: Option<usize>) -> io::Result<Vec<String>> {
        let q = self.r.query(self.header, &Region::new(name, iv))?;
        take_names(q.records(), vcf_id, take)
    }
    fn scan_all(&mut self) -> io::Result<Vec<String>> {
        self.r.get_mut().seek_to_virtual_position(bgzf::VirtualPosition::default())?;
        self.r.read_header()?;
        take_names(self.r.records(), vcf_id, None)
    }
}

impl Backend for VcfB {
    const FMT: &'static str = "vcf.gz";
    fn session<'a, X: BinningIndex + Clone + 'static>(&'a self, ix: &X, indexed: bool, header_first: bool) -> io::Result<Box<dyn Sess + 'a>> {
        if indexed {
            let mut r = vcf::io::IndexedReader::new(Cursor::new(&self.data[..]), ix.clone());
            if header_first {
                r.read_header()?;
            }
            Ok(Box::new(VcfISess { r, header: &self.header }))
        } else {
            let mut r = vcf::io::Reader::new(bgzf::io::Reader::new(Cursor::new(&self.data[..])));
            if header_first {
                r.read_header()?;
            }
            Ok(Box::new(VcfSess { r, header: &self.header, ix: ix.clone() }))
        }
    }
    fn query<X: BinningIndex>(&self, ix: &X, name: &str, iv: Interval) -> io::Result<Vec<String>> {
        let mut r = vcf::io::Reader::new(bgzf::io::Reader::new(Cursor::new(&self.data[..])));
        let region = Region::new(name, iv);
        let q = r.query(&self.header, ix, &region)?;
        q.records().map(|x| x.map(|rec| rec.ids().as_ref().to_string())).collect()
    }
    fn raw(&self, chunks: Vec<Chunk>) -> io::Result<Vec<String>> {
        let mut bg = bgzf::io::Reader::new(Cursor::new(&self.data[..]));
        let mut r = vcf::io::Reader::new(csi::io::Query::new(&mut bg, chunks));
        let mut rec = vcf::Record::default();
        let mut out = vec![];
        while r.read_record(&mut rec)? != 0 {
            out.push(rec.ids().as_ref().to_string());
        }
        Ok(out)
    }
}

// ---------------------------------------------------------------------------------------------------
// regions

/// 0-based half-open interval of a bin id (CSIv1 numbering); used for diagnosis and region classes only.
fn bin_interval(id: usize, min_shift: u8, depth: u8) -> Option<(u8, usize, usize)> {
    let mut l = 0u8;
    loop {
        let first = ((1usize << (3 * l as usize)) - 1) / 7;
        let next = ((1usize << (3 * (l as usize + 1))) - 1) / 7;
        if id < next {
            let span = 1usize << (min_shift as usize + 3 * (depth - l) as usize);
            let o = id - first;
            return Some((l, o * span, (o + 1) * span));
        }
        l += 1;
        if l > depth {
            return None;
        }
    }
}

fn gen_regions(rng: &mut Rng, items: &[Item], nrefs: usize, coord_max: usize, want: usize) -> Vec<Reg> {
    let mut v: Vec<Reg> = Vec::new();
    let placed: Vec<&Item> = items.iter().filter(|i| i.span.is_some() && i.rid.is_some()).collect();
    let cm = coord_max;
    let push = |v: &mut Vec<Reg>, rid: usize, s: Option<usize>, e: Option<usize>, class: &'static str| {
        let s = s.map(|x| x.clamp(1, cm));
        let e = e.map(|x| x.clamp(1, cm));
        if let (Some(a), Some(b)) = (s, e) {
            if a > b {
                return;
            }
        }
        v.push(Reg { rid, s, e, class });
    };
    for r in 0..nrefs {
        let has = placed.iter().any(|i| i.rid == Some(r));
        push(&mut v, r, None, None, if has { "whole-reference" } else { "empty-reference" });
        if !has {
            push(&mut v, r, Some(1), Some(1000.min(cm)), "empty-reference");
            push(&mut v, r, Some(1 + rng.below(cm as u64) as usize), None, "empty-reference");
        }
    }
    if !placed.is_empty() {
        let per = (want / 8).max(4);
        for _ in 0..per {
            let it = placed[rng.usize_below(placed.len())];
            let r = it.rid.unwrap();
            let (s, e, e2) = it.span.unwrap();
            push(&mut v, r, Some(s), Some(e), "own-span");
            if s > 1 {
                push(&mut v, r, Some(s - 1), Some(s - 1), "just-before");
            }
            push(&mut v, r, Some(e2 + 1), Some(e2 + 1), "just-after");
            push(&mut v, r, Some(s), Some(s), "point-start");
            push(&mut v, r, Some(e), Some(e), "point-end");
            if rng.bool() {
                push(&mut v, r, Some(s.saturating_sub(1).max(1)), Some(e2 + 1), "own-span+-1");
            }
            if rng.bool() {
                let m = s + (e - s) / 2;
                push(&mut v, r, Some(m), Some(m), "point-inside");
            }
            match rng.below(3) {
                0 => push(&mut v, r, Some(s), None, "unbounded-end"),
                1 => push(&mut v, r, None, Some(e), "unbounded-start"),
                _ => {}
            }
            // bin-aligned window of a random level containing the start, and its right neighbour
            let j = rng.usize_below(layouts::LEVEL_SPANS.len());
            let span = layouts::LEVEL_SPANS[j];
            if span < cm {
                let k = (s - 1) / span;
                push(&mut v, r, Some(k * span + 1), Some((k + 1) * span), "bin-window");
                if rng.bool() {
                    push(&mut v, r, Some((k + 1) * span + 1), Some((k + 2) * span), "bin-window-right");
                }
                if rng.bool() && k > 0 {
                    push(&mut v, r, Some((k - 1) * span + 1), Some(k * span), "bin-window-left");
                }
                if rng.chance(1, 3) {
                    // window edges +-1
                    push(&mut v, r, Some((k * span).max(1)), Some(k * span + 1), "bin-edge");
                }
            }
        }
        // random regions and regions that hit nothing
        for _ in 0..(want / 6).max(3) {
            let it = placed[rng.usize_below(placed.len())];
            let r = it.rid.unwrap();
            let a = 1 + rng.below(cm as u64) as usize;
            let b = (a + rng.skewed(1 << 22) as usize).min(cm);
            push(&mut v, r, Some(a), Some(b), "random");
            let (s, _, _) = it.span.unwrap();
            let near = s.saturating_sub(rng.skewed(40_000) as usize).max(1);
            push(&mut v, r, Some(near), Some((near + rng.skewed(70_000) as usize).min(cm)), "random-near");
        }
        for r in 0..nrefs {
            let last_end = placed.iter().filter(|i| i.rid == Some(r)).map(|i| i.span.unwrap().2).max();
            let first_start = placed.iter().filter(|i| i.rid == Some(r)).map(|i| i.span.unwrap().0).min();
            if let Some(le) = last_end {
                if le + 2 <= cm {
                    push(&mut v, r, Some(le + 2), None, "beyond-last");
                }
            }
            if let Some(fs) = first_start {
                if fs > 2 {
                    push(&mut v, r, None, Some(fs - 1), "before-first");
                }
            }
        }
    }
    if v.len() > 300 {
        // keep the per-reference regions at the front, sample the rest
        let head = nrefs.min(v.len());
        let mut tail: Vec<Reg> = v.split_off(head);
        rng.shuffle(&mut tail);
        tail.truncate(300 - head);
        v.extend(tail);
    }
    v
}

// ---------------------------------------------------------------------------------------------------
// the check

trait OffKind {
    const NAME: &'static str;
    /// binned offsets only: the bin the ancestor walk from the leaf bin of `start` stops at, its loffset, and the
    /// existing contiguous ancestors of that bin with their loffsets (CSIv1 numbering, my own arithmetic)
    fn walk(&self, _min_shift: u8, _depth: u8, _start: usize) -> Option<(usize, u64, Vec<usize>)> {
        None
    }
}
impl OffKind for LinearIndex {
    const NAME: &'static str = "linear";
}
impl OffKind for BinnedIndex {
    const NAME: &'static str = "binned";
    fn walk(&self, min_shift: u8, depth: u8, start: usize) -> Option<(usize, u64, Vec<usize>)> {
        let first_leaf = ((1usize << (3 * depth as usize)) - 1) / 7;
        let mut id = first_leaf + ((start - 1) >> min_shift);
        loop {
            if let Some(v) = self.get(&id) {
                let mut chain = vec![];
                let mut cur = id;
                while cur > 0 {
                    let p = (cur - 1) / 8;
                    if self.contains_key(&p) {
                        chain.push(p);
                        cur = p;
                    } else {
                        break;
                    }
                }
                return Some((id, u64::from(*v), chain));
            }
            if id == 0 {
                return None;
            }
            id = (id - 1) / 8;
        }
    }
}

struct Labels<'a> {
    /// "bai" | "csi" | "tabix"
    ix: &'a str,
    /// "memory" | "file"
    via: &'a str,
    geometry: (u8, u8),
    /// reference names as the *file header* orders them
    ref_names: &'a [String],
    /// index reference id for a header reference index (tabix: position among the names of the index header)
    index_rid: &'a dyn Fn(usize) -> Option<usize>,
    /// through `IndexedReader` instead of `Reader::query`
    indexed: bool,
    /// 0 ascending, 1 descending, 2 shuffled
    base_order: u64,
}

#[derive(Default)]
struct Stats {
    regions: u64,
    nonempty: u64,
    pruning: u64,
    refused_empty: u64,
    ambiguous: u64,
    max_answer: u64,
    classes: HashMap<&'static str, u64>,
    schedule: HashMap<&'static str, u64>,
    crossing: [u64; 5],
    scans: u64,
    unmapped_calls: u64,
    fresh: u64,
}

fn chunk_holds(c: &Chunk, vs: u64, ve: u64) -> bool {
    u64::from(c.start()) <= vs && ve <= u64::from(c.end())
}

/// Which stage lost record `m` (index in file order) for region `reg`.
fn diagnose<B: Backend, I>(b: &B, scan: &Scan, ix: &Index<I>, irid: usize, reg: &Reg, lab: &Labels, m: usize) -> (String, String)
where
    I: reference_sequence::Index + OffKind,
{
    let (ms, d) = lab.geometry;
    let (vs, ve) = scan.chunks[m];
    let rs = &ix.reference_sequences()[irid];
    let holder = rs.bins().iter().find(|(_, bin)| bin.chunks().iter().any(|c| chunk_holds(c, vs, ve))).map(|(id, _)| *id);
    let Some(holder) = holder else {
        return ("not-indexed".into(), format!("no bin of reference {irid} holds a chunk covering the record's chunk {vs}..{ve}"));
    };
    let iv = reg.interval();
    let qbins = match rs.query(ms, d, iv) {
        Ok(v) => v,
        Err(e) => return ("bin-query-failed".into(), e.to_string()),
    };
    let in_returned = qbins.iter().any(|bin| bin.chunks().iter().any(|c| chunk_holds(c, vs, ve)));
    let hb = bin_interval(holder, ms, d);
    if !in_returned {
        return (
            "not-in-any-returned-bin".into(),
            format!("the record's chunk {vs}..{ve} is in bin {holder} {hb:?}, which ReferenceSequence::query({iv}) does not return ({} bins returned)", qbins.len()),
        );
    }
    let chunks = match ix.query(irid, iv) {
        Ok(c) => c,
        Err(e) => return ("index-query-failed".into(), e.to_string()),
    };
    let covered = chunks.iter().any(|c| chunk_holds(c, vs, ve));
    let start = Position::new(reg.s.unwrap_or(1)).unwrap();
    let mo = u64::from(rs.min_offset(ms, d, start));
    if !covered {
        if ve <= mo {
            let rel = if I::NAME == "binned" {
                match hb {
                    Some((lvl, b0, b1)) if b0 <= reg.s.unwrap_or(1) - 1 && reg.s.unwrap_or(1) - 1 < b1 => {
                        if lvl == d {
                            ":in-leaf-bin-of-region-start"
                        } else {
                            ":in-ancestor-bin"
                        }
                    }
                    _ => ":in-later-bin",
                }
            } else {
                ""
            };
            // Does the lower bound follow the (known, unsound) meaning "first record of the bin the ancestor walk stops
            // at" (in memory) resp. "minimum of that over the bin's contiguous existing ancestors" (after a file round
            // trip)? Anything else is a different defect and gets its own class.
            let rel = match rs.index().walk(ms, d, reg.s.unwrap_or(1)) {
                None => rel.to_string(),
                Some((sb, v, chain)) => {
                    let first_of = |bin: usize| -> Option<u64> {
                        let cs = rs.bins().get(&bin)?.chunks();
                        scan.chunks.iter().filter(|&&(a, z)| cs.iter().any(|c| chunk_holds(c, a, z))).map(|c| c.0).min()
                    };
                    let own = first_of(sb);
                    let chain_min = chain.iter().filter_map(|&p| first_of(p)).chain(own).min();
                    if v != mo {
                        format!("{rel}:min-offset-is-not-the-loffset-of-the-first-existing-ancestor")
                    } else if Some(v) == own || Some(v) == chain_min {
                        rel.to_string()
                    } else {
                        format!("{rel}:loffset-of-bin-is-not-its-first-record")
                    }
                }
            };
            return (
                format!("pruned-by-{}-min-offset{rel}", I::NAME),
                format!("the record's chunk {vs}..{ve} is in returned bin {holder} {hb:?} but ends at or before min_offset({}) = {mo}, so optimize_chunks dropped it", reg.s.unwrap_or(1)),
            );
        }
        return (
            "lost-in-chunk-merge".into(),
            format!(
                "the record's chunk {vs}..{ve} is in returned bin {holder}, ends beyond min_offset {mo}, but the merged chunk list {:?} does not cover it",
                chunks.iter().map(|c| (u64::from(c.start()), u64::from(c.end()))).collect::<Vec<_>>()
            ),
        );
    }
    match guard::catch(|| b.raw(chunks.clone())) {
        Ok(Ok(names)) => {
            if names.iter().any(|n| n == &scan.names[m]) {
                ("rejected-by-intersects-filter".into(), "the record is read from the returned chunks but the format-level region filter drops it".into())
            } else {
                (
                    "skipped-by-reader-inside-returned-chunk".into(),
                    format!(
                        "the record's chunk {vs}..{ve} lies inside the returned chunks {:?} but reading them yields only {} records without it",
                        chunks.iter().map(|c| (u64::from(c.start()), u64::from(c.end()))).collect::<Vec<_>>(),
                        names.len()
                    ),
                )
            }
        }
        Ok(Err(e)) => ("chunk-read-failed".into(), e.to_string()),
        Err(p) => ("chunk-read-panicked".into(), p.message),
    }
}

/// What is wrong with an answer (first problem found), judged against the scan-filter oracle.
enum Fail {
    Unknown(String),
    DupOrOrder(&'static str, String),
    Extra(usize),
    Missing(usize),
}

fn oracle(items: &[Item], reg: &Reg) -> (Vec<usize>, HashSet<usize>) {
    let mut must: Vec<usize> = vec![];
    let mut optional: HashSet<usize> = HashSet::new();
    for (i, it) in items.iter().enumerate() {
        if it.rid != Some(reg.rid) {
            continue;
        }
        let Some((s, e1, e2)) = it.span else { continue };
        if reg.hits(s, e1) {
            must.push(i);
        } else if reg.hits(s, e2) {
            optional.insert(i);
        }
    }
    (must, optional)
}

/// `take` = the query was stopped after that many records: the answer must then be a prefix of the full one.
fn judge(items: &[Item], by_name: &HashMap<&str, usize>, must: &[usize], optional: &HashSet<usize>, got: &[String], take: Option<usize>) -> Result<(), Fail> {
    let mut got_idx: Vec<usize> = Vec::with_capacity(got.len());
    for g in got {
        match by_name.get(g.as_str()) {
            Some(&i) => got_idx.push(i),
            None => return Err(Fail::Unknown(g.clone())),
        }
    }
    if let Some(w) = got_idx.windows(2).find(|w| w[0] >= w[1]) {
        let class = if w[0] == w[1] || got_idx.iter().filter(|&&x| x == w[1]).count() > 1 { "duplicate" } else { "order" };
        return Err(Fail::DupOrOrder(
            class,
            format!("records {} (file #{}) and {} (file #{}) come out in this order; result {:?}", items[w[0]].name, w[0], items[w[1]].name, w[1], got.iter().take(12).collect::<Vec<_>>()),
        ));
    }
    if let Some(&x) = got_idx.iter().find(|i| !must.contains(i) && !optional.contains(i)) {
        return Err(Fail::Extra(x));
    }
    // strictly increasing file indices, all kept by the scan: the kept-for-sure part must be complete, or — for a query
    // that was stopped early — a prefix that can only be short if the iterator was stopped
    let gm: Vec<usize> = got_idx.iter().copied().filter(|i| must.contains(i)).collect();
    let stopped = take.is_some_and(|k| got.len() >= k);
    if stopped {
        if gm[..] != must[..gm.len().min(must.len())] {
            return Err(Fail::Missing(*must.iter().find(|i| !gm.contains(i)).unwrap()));
        }
    } else if let Some(&m) = must.iter().find(|i| !gm.contains(i)) {
        return Err(Fail::Missing(m));
    }
    Ok(())
}

/// query_unmapped: every unplaced unmapped record in file order, nothing that is not flagged unmapped, no repetition.
fn judge_unmapped(items: &[Item], by_name: &HashMap<&str, usize>, got: &[String]) -> Result<(u64, u64), (&'static str, String)> {
    let want: Vec<usize> = items.iter().enumerate().filter(|(_, it)| it.unmapped && it.rid.is_none()).map(|(i, _)| i).collect();
    let mut got_idx = vec![];
    for g in got {
        match by_name.get(g.as_str()) {
            Some(&i) => got_idx.push(i),
            None => return Err(("unknown-record", format!("yields {g:?}, never written"))),
        }
    }
    if let Some(&x) = got_idx.iter().find(|&&i| !items[i].unmapped) {
        return Err(("yields-record-not-flagged-unmapped", format!("yields {} (file #{x}), whose flags do not have 0x4", items[x].name)));
    }
    if got_idx.windows(2).any(|w| w[0] >= w[1]) {
        return Err(("order-or-duplicate", format!("result is not in file order without repetition: {:?}", got.iter().take(12).collect::<Vec<_>>())));
    }
    let gset: HashSet<usize> = got_idx.iter().copied().collect();
    if let Some(&m) = want.iter().find(|i| !gset.contains(i)) {
        return Err((
            "missing-unplaced-unmapped-record",
            format!("{} unplaced unmapped records were written, {} of them are yielded; first missing {} (file #{m})", want.len(), want.iter().filter(|i| gset.contains(i)).count(), items[m].name),
        ));
    }
    Ok(((got_idx.len() - want.len()) as u64, want.len() as u64))
}

#[derive(Clone, Debug)]
enum Op {
    /// region index, stop after n records, schedule class
    Q(usize, Option<usize>, &'static str),
    Unmapped,
    Scan,
}

/// The sequence of calls one reused reader serves: every region once in a base order (ascending / descending /
/// shuffled by (reference, start)), plus inserted blocks: a region followed by the own span of a record that lies
/// shortly BEFORE in the same BGZF block (after a full and after a stopped query), the same region twice, a stopped
/// (partially consumed, dropped) query followed by another query, query_unmapped and a sequential re-scan in between.
fn schedule(rng: &mut Rng, regs: &mut Vec<Reg>, usable: &[usize], items: &[Item], scan: &Scan, base_order: u64, has_unmapped: bool) -> Vec<Op> {
    let mut order: Vec<usize> = usable.to_vec();
    let key = |i: &usize| (regs[*i].rid, regs[*i].s.unwrap_or(0), regs[*i].e.unwrap_or(usize::MAX));
    match base_order % 3 {
        0 => order.sort_by_key(key),
        1 => {
            order.sort_by_key(key);
            order.reverse();
        }
        _ => rng.shuffle(&mut order),
    }
    let mut ops: Vec<Op> = order.iter().map(|&i| Op::Q(i, None, "base-order")).collect();
    let mut blocks: Vec<Vec<Op>> = Vec::new();
    // shortly-before pairs inside one BGZF block
    let placed: Vec<usize> = (0..items.len().min(scan.chunks.len())).filter(|&i| items[i].span.is_some()).collect();
    let mut tries = 0;
    let mut pairs = 0;
    while pairs < 14 && tries < 200 && placed.len() > 1 {
        tries += 1;
        let i = placed[rng.usize_below(placed.len())];
        let back = 1 + rng.usize_below(6);
        if i < back {
            continue;
        }
        let j = i - back;
        if items[j].span.is_none() || items[j].rid != items[i].rid || scan.chunks[j].0 >> 16 != scan.chunks[i].0 >> 16 {
            continue;
        }
        let (si, ei, _) = items[i].span.unwrap();
        let (sj, ej, _) = items[j].span.unwrap();
        let rid = items[i].rid.unwrap();
        let first = if rng.bool() { Reg { rid, s: Some(si), e: Some(ei), class: "own-span" } } else { Reg { rid, s: Some(si), e: Some(si), class: "point-start" } };
        let second = if rng.bool() {
            Reg { rid, s: Some(sj), e: Some(ej), class: "shortly-before-previous-same-block" }
        } else {
            Reg { rid, s: Some(sj), e: Some(sj), class: "shortly-before-previous-same-block" }
        };
        regs.push(first);
        regs.push(second);
        let n = regs.len();
        blocks.push(vec![Op::Q(n - 2, if pairs % 2 == 0 { Some(1) } else { None }, "before-pair-first"), Op::Q(n - 1, None, "before-pair-second")]);
        pairs += 1;
    }
    if !usable.is_empty() {
        for _ in 0..8 {
            let r = usable[rng.usize_below(usable.len())];
            blocks.push(vec![Op::Q(r, None, "twice-first"), Op::Q(r, None, "twice-second")]);
        }
        for _ in 0..8 {
            let r = usable[rng.usize_below(usable.len())];
            let r2 = usable[rng.usize_below(usable.len())];
            blocks.push(vec![Op::Q(r, Some(1 + rng.usize_below(3)), "stopped"), Op::Q(r2, None, "after-stopped")]);
        }
    }
    for _ in 0..2 {
        blocks.push(vec![Op::Scan]);
    }
    if has_unmapped {
        for _ in 0..3 {
            blocks.push(vec![Op::Unmapped]);
        }
    }
    rng.shuffle(&mut blocks);
    for b in blocks {
        let at = rng.usize_below(ops.len() + 1);
        // keep blocks intact: splice the whole block in
        ops.splice(at..at, b);
    }
    ops
}

#[allow(clippy::too_many_arguments)]
fn check_index<B: Backend, I>(b: &B, items: &[Item], scan: &Scan, ix: &Index<I>, lab: &Labels, regions: &[Reg], rng: &mut Rng, o: &mut CaseOut, st: &mut Stats, fps: &mut Vec<u64>)
where
    I: reference_sequence::Index + OffKind + Clone + 'static,
{
    let by_name: HashMap<&str, usize> = items.iter().enumerate().map(|(i, it)| (it.name.as_str(), i)).collect();
    let (ms, d) = lab.geometry;
    let maxpos = (1usize << (ms as usize + 3 * d as usize)) - 1;
    let mut sig_seen: HashMap<String, u32> = HashMap::new();
    let mut report = |o: &mut CaseOut, sig: String, desc: String| {
        let n = sig_seen.entry(sig.clone()).or_insert(0);
        *n += 1;
        if *n <= 2 {
            o.violation(sig, desc);
        } else {
            o.count("further_violations_same_signature_same_file", 1);
        }
    };
    let path = if lab.indexed { "IndexedReader::query" } else { "Reader::query" };
    let mut regs: Vec<Reg> = regions.to_vec();
    let usable: Vec<usize> = (0..regs.len()).filter(|&i| regs[i].s.unwrap_or(1) <= maxpos && regs[i].e.unwrap_or(1) <= maxpos).collect();
    let ops = schedule(rng, &mut regs, &usable, items, scan, lab.base_order, B::FMT == "bam");
    let header_first = rng.bool();
    let mut sess = match guard::catch(|| b.session(ix, lab.indexed, header_first)) {
        Ok(Ok(s)) => s,
        Ok(Err(e)) => {
            o.inconclusive.push(format!("cannot open a reader over the written {} file: {e}", B::FMT));
            return;
        }
        Err(p) => {
            report(o, format!("query:{}+{}:panic:{}", B::FMT, lab.ix, p.sig), format!("opening the reader panicked: {}", p.message));
            return;
        }
    };
    let mut prev: &'static str = "first-call";
    for (k, op) in ops.iter().enumerate() {
        let ctxs = format!("{}+{} ({}, geometry {:?}, one reused reader via {path}, call #{k} after {prev})", B::FMT, lab.ix, lab.via, lab.geometry);
        match op {
            Op::Scan => {
                let r = guard::catch(|| sess.scan_all());
                st.scans += 1;
                match r {
                    Ok(Ok(names)) if names == scan.names => {}
                    Ok(Ok(names)) => report(
                        o,
                        format!("sequential-scan:{}:reused-reader-differs-from-fresh-reader:after-{prev}", B::FMT),
                        format!(
                            "{ctxs}: seeking back to the start, re-reading the header and scanning yields {} records (first {:?}); a fresh reader yields the {} written ones",
                            names.len(),
                            names.first(),
                            scan.names.len()
                        ),
                    ),
                    Ok(Err(e)) => report(o, format!("sequential-scan:{}:reused-reader-differs-from-fresh-reader:after-{prev}", B::FMT), format!("{ctxs}: sequential re-scan fails: {e}")),
                    Err(p) => report(o, format!("sequential-scan:{}:panic:{}", B::FMT, p.sig), format!("{ctxs}: {}", p.message)),
                }
                prev = "sequential-scan";
            }
            Op::Unmapped => {
                let Some(r) = guard::catch(|| sess.unmapped()).map_err(|p| (p.sig, p.message)).transpose() else { continue };
                st.unmapped_calls += 1;
                let verdict = match &r {
                    Err((sig, msg)) => Err(("panic", format!("{sig}: {msg}"))),
                    Ok(Err(e)) => Err(("failed", e.to_string())),
                    Ok(Ok(got)) => judge_unmapped(items, &by_name, got).map(|_| ()),
                };
                if let Err((class, desc)) = verdict {
                    // same call on a fresh reader
                    let fresh = guard::catch(|| b.unmapped(ix)).ok().flatten();
                    let fresh_ok = matches!(&fresh, Some(Ok(g)) if judge_unmapped(items, &by_name, g).is_ok());
                    if fresh_ok {
                        report(
                            o,
                            format!("query-unmapped:{}:reused-reader-differs-from-fresh-reader:after-{prev}", lab.ix),
                            format!("{ctxs}: query_unmapped {class}: {desc}; a fresh reader answers correctly"),
                        );
                    } else {
                        report(o, format!("query-unmapped:{}:{class}", lab.ix), format!("{ctxs}: query_unmapped {desc}"));
                    }
                }
                prev = "query-unmapped";
            }
            Op::Q(ri, take, sched) => {
                let reg = &regs[*ri];
                let name = &lab.ref_names[reg.rid];
                let (must, optional) = oracle(items, reg);
                st.regions += 1;
                st.ambiguous += optional.len() as u64;
                *st.classes.entry(reg.class).or_insert(0) += 1;
                *st.schedule.entry(sched).or_insert(0) += 1;
                if let (Some(a), Some(z)) = (reg.s, reg.e) {
                    for (j, span) in layouts::LEVEL_SPANS.iter().enumerate() {
                        if (a - 1) / span != (z - 1) / span {
                            st.crossing[j] += 1;
                        }
                    }
                }
                let iv = reg.interval();
                let what = format!("{ctxs} region {name}:{iv} [{}, {sched}{}]", reg.class, take.map(|k| format!(", stopped after {k}")).unwrap_or_default());
                let res = guard::catch(|| sess.query(name, iv, *take));
                let this_call = match (&res, take) {
                    (Ok(Ok(g)), Some(k)) if g.len() >= *k => "partially-consumed-query",
                    (Ok(Ok(_)), _) => "query",
                    _ => "failed-query",
                };
                // verdict on the reused reader's answer
                let verdict: Result<(), Fail> = match &res {
                    Ok(Ok(got)) => judge(items, &by_name, &must, &optional, got, *take),
                    _ => Err(Fail::Unknown(String::new())),
                };
                let sample_fresh = k % 7 == 3;
                if verdict.is_err() || sample_fresh {
                    // the same region on a fresh reader: a correct fresh answer convicts the reused state; otherwise the
                    // fresh answer is what gets diagnosed (index / binning / pruning / reader stages)
                    let fresh = guard::catch(|| b.query(ix, name, iv));
                    st.fresh += 1;
                    let same = match (&res, &fresh) {
                        (Ok(Ok(g)), Ok(Ok(f))) => match take {
                            Some(k) if g.len() >= *k => f.len() >= g.len() && f[..g.len()] == g[..],
                            _ => g == f,
                        },
                        (Ok(Err(_)), Ok(Err(_))) => true,
                        (Err(_), Err(_)) => true,
                        _ => false,
                    };
                    if !same {
                        let show = |r: &Result<io::Result<Vec<String>>, guard::PanicInfo>| match r {
                            Ok(Ok(v)) => format!("{} records {:?}", v.len(), v.iter().take(8).collect::<Vec<_>>()),
                            Ok(Err(e)) => format!("error {e}"),
                            Err(p) => format!("panic {}", p.sig),
                        };
                        report(
                            o,
                            format!("query:{}+{}:reused-reader-differs-from-fresh-reader:after-{prev}", B::FMT, lab.ix),
                            format!("{what}: the reused reader yields {}, a fresh reader {}; the scan keeps {} records", show(&res), show(&fresh), must.len()),
                        );
                    }
                    // judge the fresh answer the established way
                    match fresh {
                        Err(p) => report(o, format!("query:{}+{}:panic:{}", B::FMT, lab.ix, p.sig), format!("{what}: query panicked: {}", p.message)),
                        Ok(Err(e)) => {
                            if must.is_empty() {
                                st.refused_empty += 1;
                                o.count(
                                    &format!("queries_refused_where_the_scan_keeps_nothing[{}+{}:{}]", B::FMT, lab.ix, guard::normalise_message(&e.to_string().chars().take(60).collect::<String>())),
                                    1,
                                );
                            } else {
                                report(o, format!("query:{}+{}:failed-on-region-with-records", B::FMT, lab.ix), format!("{what}: the scan keeps {} records but the query fails: {e}", must.len()));
                            }
                        }
                        Ok(Ok(got)) => match judge(items, &by_name, &must, &optional, &got, None) {
                            Ok(()) => {}
                            Err(Fail::Unknown(g)) => report(o, format!("query:{}+{}:extra:unknown-record", B::FMT, lab.ix), format!("{what}: yields a record named {g:?} that was never written")),
                            Err(Fail::DupOrOrder(class, desc)) => report(o, format!("query:{}+{}:{class}", B::FMT, lab.ix), format!("{what}: {desc}")),
                            Err(Fail::Extra(x)) => {
                                let it = &items[x];
                                let class = if it.rid != Some(reg.rid) { "other-reference" } else { "outside-region" };
                                report(
                                    o,
                                    format!("query:{}+{}:extra:{class}", B::FMT, lab.ix),
                                    format!("{what}: yields {} (reference {:?}, span {:?}), which the scan filter does not keep", it.name, it.rid, it.span),
                                );
                            }
                            Err(Fail::Missing(m)) => {
                                let it = &items[m];
                                let irid = (lab.index_rid)(reg.rid);
                                let (stage, detail) = match irid {
                                    Some(r) if m < scan.chunks.len() => diagnose(b, scan, ix, r, reg, lab, m),
                                    _ => ("reference-not-in-index".to_string(), String::new()),
                                };
                                let gset: HashSet<&str> = got.iter().map(|s| s.as_str()).collect();
                                let nmiss = must.iter().filter(|&&i| !gset.contains(items[i].name.as_str())).count();
                                report(
                                    o,
                                    format!("query:{}+{}:missing:{stage}", B::FMT, lab.ix),
                                    format!(
                                        "{what}: the scan keeps {} records, the query yields {}; {nmiss} missing, first {} (file #{m}, span {:?}, unmapped={}): {detail}",
                                        must.len(),
                                        got.len(),
                                        it.name,
                                        it.span.map(|s| (s.0, s.1)),
                                        it.unmapped
                                    ),
                                );
                            }
                        },
                    }
                } else if let Ok(Err(e)) = &res {
                    let _ = e;
                }
                if let Ok(Ok(got)) = &res {
                    st.max_answer = st.max_answer.max(got.len() as u64);
                    if !got.is_empty() {
                        st.nonempty += 1;
                    }
                }
                let irid = (lab.index_rid)(reg.rid);
                let pruning = irid.map(|r| u64::from(ix.reference_sequences()[r].min_offset(ms, d, Position::new(reg.s.unwrap_or(1)).unwrap())) > 0).unwrap_or(false);
                if pruning {
                    st.pruning += 1;
                }
                fps.push(fnv1a(
                    format!("{}|{}|{}|{}|{}|{}|{pruning}|{sched}|{prev}|{}", B::FMT, lab.ix, lab.via, lab.geometry.0 == 14 && lab.geometry.1 == 5, reg.class, must.len().min(3), lab.indexed)
                        .as_bytes(),
                ));
                prev = this_call;
            }
        }
    }
}

/// query_unmapped on a fresh reader (the reused-reader calls are part of `check_index`).
fn check_unmapped<B: Backend, X: BinningIndex>(b: &B, items: &[Item], ix: &X, ixname: &str, via: &str, o: &mut CaseOut) -> bool {
    let Some(res) = guard::catch(|| b.unmapped(ix)).map_err(|p| (p.sig, p.message)).transpose() else { return false };
    let what = format!("{}+{ixname} ({via}, fresh reader) query_unmapped", B::FMT);
    let got = match res {
        Err((sig, msg)) => {
            o.violation(format!("query-unmapped:{ixname}:panic:{sig}"), format!("{what} panicked: {msg}"));
            return true;
        }
        Ok(Err(e)) => {
            o.violation(format!("query-unmapped:{ixname}:failed"), format!("{what} failed: {e}"));
            return true;
        }
        Ok(Ok(v)) => v,
    };
    let by_name: HashMap<&str, usize> = items.iter().enumerate().map(|(i, it)| (it.name.as_str(), i)).collect();
    match judge_unmapped(items, &by_name, &got) {
        Ok((extra, want)) => {
            o.count("query_unmapped_placed_unmapped_records_also_yielded", extra);
            o.count("query_unmapped_unplaced_records_expected", want);
        }
        Err((class, desc)) => o.violation(format!("query-unmapped:{ixname}:{class}"), format!("{what} {desc}")),
    }
    true
}

// ---------------------------------------------------------------------------------------------------
// cases

#[derive(Clone, Debug)]
enum Case {
    Aln { seed: u64, size: usize, coord_max: usize, corpus: Option<&'static str> },
    Var { seed: u64, size: usize, coord_max: usize, corpus: Option<&'static str> },
}

fn case_json(c: &Case) -> Value {
    match c {
        Case::Aln { seed, size, coord_max, corpus } => json!({"kind": "alignments", "seed": seed, "size": size, "coord_max": coord_max, "corpus": corpus}),
        Case::Var { seed, size, coord_max, corpus } => json!({"kind": "variants", "seed": seed, "size": size, "coord_max": coord_max, "corpus": corpus}),
    }
}

const CORPUS: [&str; 4] = ["long-in-parent-bin", "long-in-grandparent-bin", "short-in-later-bin", "boundary-records"];
const CORPUS_VARIANTS_ONLY: [&str; 2] = ["end-with-any-alt", "svlen-len-4.5"];

fn gen_cases(ctx: &Ctx) -> Vec<Case> {
    let mut v = Vec::new();
    for c in CORPUS {
        v.push(Case::Aln { seed: 0, size: 0, coord_max: (1 << 29) - 1, corpus: Some(c) });
        v.push(Case::Var { seed: 0, size: 0, coord_max: (1 << 29) - 1, corpus: Some(c) });
    }
    for c in CORPUS_VARIANTS_ONLY {
        v.push(Case::Var { seed: 0, size: 0, coord_max: (1 << 29) - 1, corpus: Some(c) });
    }
    let n = ctx.budget("sets", 400, 10000);
    let mut rng = Rng::new(ctx.seed, 0xC04, 0);
    for i in 0..n {
        for kind in 0..2 {
            let size = if ctx.quick() { *rng.pick(&[20usize, 60, 120, 300]) } else { *rng.pick(&[20usize, 60, 150, 500, 2000]) };
            let coord_max = match rng.below(6) {
                0 => (1 << 16) - 1,
                1 => (1 << 22) - 1,
                2 => (1 << 26) + 12345,
                _ => (1 << 29) - 1,
            };
            let seed = ctx.seed.wrapping_mul(1_000_003).wrapping_add(i * 2 + kind);
            v.push(if kind == 0 { Case::Aln { seed, size, coord_max, corpus: None } } else { Case::Var { seed, size, coord_max, corpus: None } });
        }
    }
    v
}

/// Non-default CSI geometries whose coordinate range covers `coord_max`.
fn other_geometry(rng: &mut Rng, coord_max: usize) -> (u8, u8) {
    let all: [(u8, u8); 10] = [(12, 6), (16, 4), (14, 6), (15, 5), (10, 6), (17, 4), (8, 7), (13, 5), (6, 4), (9, 3)];
    let ok: Vec<(u8, u8)> = all.iter().copied().filter(|&(ms, d)| (1usize << (ms as usize + 3 * d as usize)) - 1 >= coord_max).collect();
    *rng.pick(&ok)
}

fn corpus_aln(name: &str) -> AlnSet {
    let mk = |k: usize, pos: usize, ops: Vec<(char, usize)>| AlnRec { name: format!("q{k}"), flags: 0, rid: Some(0), pos, ops, pad: 0, with_seq: false };
    let recs = match name {
        // long record in the 128 kb bin 585 that is the direct parent of the leaf bin of the short ones
        "long-in-parent-bin" => vec![mk(0, 11, vec![('M', 20_000)]), mk(1, 20, vec![('M', 100)]), mk(2, 300, vec![('M', 100)]), mk(3, 17_000, vec![('M', 50)])],
        // long record in the 1 Mb bin 73; the 128 kb parent of the leaf bin does not exist
        "long-in-grandparent-bin" => vec![mk(0, 11, vec![('M', 50), ('N', 199_900), ('M', 50)]), mk(1, 20, vec![('M', 100)]), mk(2, 300, vec![('M', 100)])],
        // short record in leaf bin 4682, then a record in bin 585 that starts later; the query starts in the (empty) leaf 4681
        "short-in-later-bin" => vec![mk(0, 20_000, vec![('M', 51)]), mk(1, 30_000, vec![('M', 20_000)]), mk(2, 60_000, vec![('M', 10)])],
        _ => vec![
            mk(0, 1, vec![('M', 1)]),
            mk(1, 16_384, vec![('M', 1)]),
            mk(2, 16_384, vec![('M', 2)]),
            mk(3, 16_385, vec![('M', 1)]),
            mk(4, 131_072, vec![('M', 1)]),
            mk(5, 131_073, vec![('M', 1)]),
            mk(6, (1 << 29) - 1, vec![('M', 1)]),
        ],
    };
    let n = recs.len();
    AlnSet { refs: vec![("sq0".into(), (1 << 29) - 1), ("sq1".into(), 1000)], recs, flush_after: vec![false; n], level: 1 }
}

fn corpus_var(name: &str) -> VarSet {
    let mk = |k: usize, pos: usize, ref_len: usize, end: Option<usize>| VarRec {
        chrom: 0,
        pos,
        id: format!("v{k}"),
        ref_len,
        alt: if end.is_some() { "<DEL>".into() } else { "T".into() },
        end,
        svlen: None,
        svlen_at: 0,
        len: None,
        pad: 0,
    };
    // span definer and ALT column chosen independently
    let mka = |k: usize, pos: usize, ref_len: usize, end: Option<usize>, alt: &str| VarRec { alt: alt.into(), ..mk(k, pos, ref_len, end) };
    let mut minor = 3;
    let mut sample = false;
    let recs = match name {
        "long-in-parent-bin" => vec![mk(0, 11, 1, Some(20_010)), mk(1, 20, 1, None), mk(2, 300, 3, None), mk(3, 17_000, 1, None)],
        "long-in-grandparent-bin" => vec![mk(0, 11, 1, Some(200_010)), mk(1, 20, 1, None), mk(2, 300, 3, None)],
        "short-in-later-bin" => vec![mk(0, 20_000, 5, None), mk(1, 30_000, 1, Some(49_999)), mk(2, 60_000, 1, None)],
        // INFO/END with every kind of ALT column (fileformat 4.3): gVCF reference block with ALT '.', deletion given with plain
        // bases + END, <NON_REF>, <*>, breakend, mixed lists with the symbolic allele first / second; tails in later 16 kb /
        // 128 kb / 1 Mb windows. No short record lies inside the tails that are queried, so the binned pruning defect stays out.
        "end-with-any-alt" => vec![
            mka(0, 1_000, 1, Some(100_000), "."),
            mka(1, 2_000, 4, Some(140_000), "A"),
            mka(2, 3_000, 1, Some(1_200_000), "<NON_REF>"),
            mka(3, 4_000, 2, Some(150_000), "T,<DEL>"),
            mka(4, 5_000, 1, Some(60_000), "A]chr0:12345]"),
            mka(5, 6_000, 1, Some(70_000), "<*>"),
            mka(6, 7_000, 1, Some(80_000), "<DEL>,T"),
            mka(7, 8_000, 3, Some(90_000), "TAC"),
            mka(8, 2_000_000, 1, None, "."),
            mka(9, 2_100_000, 20, None, "G,<NON_REF>"),
        ],
        // fileformat 4.5: SVLEN of the one symbolic SV allele of a mixed list (missing for the others), FORMAT/LEN of a <*> block
        "svlen-len-4.5" => {
            minor = 5;
            sample = true;
            vec![
                VarRec { alt: "T,<DEL>".into(), svlen: Some(99_000), svlen_at: 1, ..mk(0, 1_000, 1, None) },
                VarRec { alt: "<*>".into(), len: Some(138_000), ..mk(1, 2_000, 1, None) },
                VarRec { alt: "<DUP>".into(), svlen: Some(1_100_000), svlen_at: 0, ..mk(2, 3_000, 1, None) },
                VarRec { alt: "TAC,G,<DEL>".into(), svlen: Some(50_000), svlen_at: 2, ..mk(3, 4_000, 3, None) },
                VarRec { alt: "T,<*>".into(), len: Some(30_000), ..mk(4, 5_000, 1, None) },
                VarRec { alt: ".".into(), ..mk(5, 2_000_000, 7, None) },
            ]
        }
        _ => vec![mk(0, 1, 1, None), mk(1, 16_384, 1, None), mk(2, 16_384, 2, None), mk(3, 16_385, 1, None), mk(4, 131_072, 1, None), mk(5, 131_073, 1, None), mk(6, (1 << 29) - 1, 1, None)],
    };
    let n = recs.len();
    VarSet { minor, contigs: vec!["chr0".into(), "chr1".into()], recs, flush_after: vec![false; n], level: 1, sample }
}

fn corpus_regions(name: &str) -> Vec<Reg> {
    let r = |s: usize, e: usize| Reg { rid: 0, s: Some(s), e: Some(e), class: "corpus" };
    match name {
        "long-in-parent-bin" | "long-in-grandparent-bin" => vec![r(20, 119), r(300, 300), r(10, 10), r(11, 11), r(1, 1 << 20)],
        "short-in-later-bin" => vec![r(100, 25_000), r(20_000, 20_000), r(1, 70_000)],
        // regions that touch the long records only in their tails
        "end-with-any-alt" => vec![
            r(50_000, 50_010),
            r(100_000, 100_000),
            r(100_001, 100_001),
            r(139_990, 140_000),
            r(140_001, 140_010),
            r(1_150_000, 1_150_010),
            r(1_200_000, 1_200_000),
            r(16_385, 16_385),
            r(131_073, 131_073),
            r(1_048_577, 1_048_577),
            r(65_000, 65_000),
            r(85_000, 95_000),
            r(1_000, 1_000),
            r(2_000_000, 2_200_000),
            Reg { rid: 0, s: Some(500_000), e: None, class: "corpus" },
            Reg { rid: 0, s: None, e: None, class: "corpus" },
        ],
        "svlen-len-4.5" => vec![
            r(50_000, 50_010),
            r(99_990, 99_990),
            r(139_000, 139_990),
            r(200_000, 200_000),
            r(1_100_000, 1_100_900),
            r(16_385, 16_385),
            r(34_000, 34_990),
            r(53_000, 53_990),
            r(2_000_003, 2_000_003),
            Reg { rid: 0, s: None, e: None, class: "corpus" },
        ],
        _ => vec![
            r(1, 1),
            r(16_384, 16_384),
            r(16_385, 16_385),
            r(16_383, 16_383),
            r(131_072, 131_073),
            r((1 << 29) - 1, (1 << 29) - 1),
            Reg { rid: 0, s: None, e: None, class: "corpus" },
            Reg { rid: 1, s: None, e: None, class: "corpus" },
        ],
    }
}

/// Removes the scratch files of a case (`c04-<idx>*` under the work directory) when the case ends.
struct Scratch {
    dir: std::path::PathBuf,
    prefix: String,
}

impl Drop for Scratch {
    fn drop(&mut self) {
        if std::env::var_os("VERIF_KEEP_WORK").is_some() {
            return;
        }
        if let Ok(rd) = std::fs::read_dir(&self.dir) {
            for e in rd.flatten() {
                let name = e.file_name();
                let name = name.to_string_lossy();
                if name.starts_with(&self.prefix) {
                    let _ = std::fs::remove_file(e.path());
                }
            }
        }
    }
}

fn finish_stats(o: &mut CaseOut, fmt: &str, st: &Stats) {
    o.count(&format!("regions_queried[{fmt}]"), st.regions);
    o.count(&format!("nonempty_answers[{fmt}]"), st.nonempty);
    o.count(&format!("answers_with_min_offset_above_zero[{fmt}]"), st.pruning);
    o.count("vcf45_svlen_boundary_pairs_not_judged", st.ambiguous);
    o.max("max_answer_records", st.max_answer);
    o.count(&format!("sequential_rescans_on_reused_reader[{fmt}]"), st.scans);
    o.count(&format!("query_unmapped_calls_on_reused_reader[{fmt}]"), st.unmapped_calls);
    o.count(&format!("fresh_reader_cross_checks[{fmt}]"), st.fresh);
    for (k, n) in &st.schedule {
        o.count(&format!("reused_reader_calls[{k}]"), *n);
    }
    for (k, n) in &st.classes {
        o.count(&format!("regions_of_class[{k}]"), *n);
    }
    for (j, n) in st.crossing.iter().enumerate() {
        o.count(&format!("regions_crossing_bin_edge[{}]", ["16kb", "128kb", "1Mb", "8Mb", "64Mb"][j]), *n);
    }
}

fn count_level_crossings(o: &mut CaseOut, items: &[Item]) {
    for it in items {
        if let Some((s, e, _)) = it.span {
            for (j, span) in layouts::LEVEL_SPANS.iter().enumerate() {
                if (s - 1) / span != (e - 1) / span {
                    o.count(&format!("records_straddling_bin_edge[{}]", ["16kb", "128kb", "1Mb", "8Mb", "64Mb"][j]), 1);
                }
            }
        }
    }
}

fn blocks_of(data: &[u8]) -> (u64, u64) {
    match vcore::bgzf::walk(data) {
        Ok(w) => (w.members.len() as u64, w.members.iter().map(|m| m.data.len() as u64).max().unwrap_or(0)),
        Err(_) => (0, 0),
    }
}

fn run_aln(ctx: &Ctx, idx: u64, seed: u64, size: usize, coord_max: usize, corpus: Option<&str>) -> CaseOut {
    let mut o = CaseOut::new();
    let _scratch = Scratch { dir: ctx.work.clone(), prefix: format!("c04-{idx}.") };
    let mut rng = Rng::new(seed, 0xA1, 0);
    let (set, shape) = match corpus {
        Some(c) => (corpus_aln(c), format!("corpus:{c}")),
        None => layouts::gen_aln(&mut rng, coord_max, size),
    };
    let items: Vec<Item> =
        set.recs.iter().map(|r| Item { name: r.name.clone(), rid: if r.is_unplaced() { None } else { r.rid }, span: r.span().map(|(s, e)| (s, e, e)), unmapped: r.is_unmapped() }).collect();
    let path = ctx.work.join(format!("c04-{idx}.bam"));
    let w = guard::catch(|| genfiles::write_bam(&path, &set));
    match w {
        Ok(Ok(_)) => {}
        Ok(Err(e)) => {
            o.count(&format!("writer_rejections[bam:{}]", guard::normalise_message(&e.to_string())), 1);
            o.evaluations = 0;
            return o;
        }
        Err(p) => {
            o.inconclusive.push(format!("BAM writer panicked (C05's business): {}", p.sig));
            return o;
        }
    }
    let (b, scan) = match guard::catch(|| BamB::open(&path)) {
        Ok(Ok(x)) => x,
        Ok(Err(e)) => {
            o.inconclusive.push(format!("sequential scan of the written BAM failed: {e}"));
            return o;
        }
        Err(p) => {
            o.inconclusive.push(format!("sequential scan of the written BAM panicked: {}", p.sig));
            return o;
        }
    };
    if scan.names != items.iter().map(|i| i.name.clone()).collect::<Vec<_>>() {
        o.inconclusive.push("sequential scan of the written BAM does not give back the written names in order (C05)".into());
        return o;
    }
    let (nblocks, maxblock) = blocks_of(&b.data);
    o.count("bgzf_blocks[bam]", nblocks);
    o.max("max_block_payload", maxblock);
    o.count("files[bam]", 1);
    o.count("records[bam]", items.len() as u64);
    // records sharing a block with another record / records whose chunk starts mid-block
    o.count("records_starting_mid_block[bam]", scan.chunks.iter().filter(|c| c.0 & 0xffff != 0).count() as u64);
    o.count("records_spanning_blocks[bam]", scan.chunks.iter().filter(|c| (c.0 >> 16) != (c.1 >> 16) && c.1 & 0xffff != 0).count() as u64);
    count_level_crossings(&mut o, &items);
    let ref_names: Vec<String> = set.refs.iter().map(|r| r.0.clone()).collect();
    let regions = match corpus {
        Some(c) => corpus_regions(c),
        None => gen_regions(&mut rng, &items, set.refs.len(), coord_max, 100),
    };
    let ident = |r: usize| Some(r);
    let mut st = Stats::default();
    let mut fps = vec![fnv1a(format!("bam|{shape}").as_bytes())];

    // BAI from bam::fs::index
    match guard::catch(|| bam::fs::index(&path)) {
        Ok(Ok(bai)) => {
            let lab = Labels { ix: "bai", via: "memory", geometry: (14, 5), ref_names: &ref_names, index_rid: &ident, indexed: false, base_order: 1 };
            check_index(&b, &items, &scan, &bai, &lab, &regions, &mut rng, &mut o, &mut st, &mut fps);
            check_index(&b, &items, &scan, &bai, &Labels { indexed: true, base_order: lab.base_order + 2, ..lab }, &regions, &mut rng, &mut o, &mut st, &mut fps);
            check_unmapped(&b, &items, &bai, "bai", "memory", &mut o);
            let ip = ctx.work.join(format!("c04-{idx}.bam.bai"));
            match guard::catch(|| bam::bai::fs::write(&ip, &bai).and_then(|_| bam::bai::fs::read(&ip))) {
                Ok(Ok(bai2)) => {
                    let lab = Labels { via: "file", base_order: lab.base_order + 1, ..lab };
                    check_index(&b, &items, &scan, &bai2, &lab, &regions, &mut rng, &mut o, &mut st, &mut fps);
                    check_unmapped(&b, &items, &bai2, "bai", "file", &mut o);
                    o.count("index_file_round_trips[bai]", 1);
                }
                Ok(Err(e)) => o.violation("index-file:bai:write-read-failed", format!("bai::fs::write + read failed: {e}")),
                Err(p) => o.violation(format!("index-file:bai:panic:{}", p.sig), p.message),
            }
        }
        Ok(Err(e)) => o.count(&format!("indexing_refused[bam::fs::index:{}]", guard::normalise_message(&e.to_string())), 1),
        Err(p) => o.violation(format!("indexing:bam::fs::index-panic:{}", p.sig), p.message),
    }
    // CSI: default geometry and one other
    let other = other_geometry(&mut rng, coord_max);
    for (k, (ms, d)) in [(14u8, 5u8), other].into_iter().enumerate() {
        match guard::catch(|| b.csi(ms, d)) {
            Ok(Ok(cx)) => {
                let lab = Labels { ix: "csi", via: "memory", geometry: (ms, d), ref_names: &ref_names, index_rid: &ident, indexed: false, base_order: 2 };
                check_index(&b, &items, &scan, &cx, &lab, &regions, &mut rng, &mut o, &mut st, &mut fps);
                if k == 0 {
                    check_index(&b, &items, &scan, &cx, &Labels { indexed: true, base_order: lab.base_order + 2, ..lab }, &regions, &mut rng, &mut o, &mut st, &mut fps);
                }
                check_unmapped(&b, &items, &cx, "csi", "memory", &mut o);
                let ip = ctx.work.join(format!("c04-{idx}.{k}.bam.csi"));
                match guard::catch(|| csi::fs::write(&ip, &cx).and_then(|_| csi::fs::read(&ip))) {
                    Ok(Ok(cx2)) => {
                        let lab = Labels { via: "file", base_order: lab.base_order + 1, ..lab };
                        check_index(&b, &items, &scan, &cx2, &lab, &regions, &mut rng, &mut o, &mut st, &mut fps);
                        check_unmapped(&b, &items, &cx2, "csi", "file", &mut o);
                        o.count("index_file_round_trips[csi]", 1);
                    }
                    Ok(Err(e)) => o.violation("index-file:csi:write-read-failed", format!("csi::fs::write + read failed: {e}")),
                    Err(p) => o.violation(format!("index-file:csi:panic:{}", p.sig), p.message),
                }
                if k == 1 {
                    o.count(&format!("csi_non_default_geometry[{ms},{d}]"), 1);
                }
            }
            Ok(Err(e)) => o.count(&format!("indexing_refused[bam+csi-indexer:{}]", guard::normalise_message(&e.to_string())), 1),
            Err(p) => o.violation(format!("indexing:csi-indexer-panic:{}", p.sig), p.message),
        }
    }
    finish_stats(&mut o, "bam", &st);
    fps.sort_unstable();
    fps.dedup();
    o.fps = fps;
    o.evaluations = st.regions.max(1);
    o
}

fn run_var(ctx: &Ctx, idx: u64, seed: u64, size: usize, coord_max: usize, corpus: Option<&str>) -> CaseOut {
    let mut o = CaseOut::new();
    let _scratch = Scratch { dir: ctx.work.clone(), prefix: format!("c04-{idx}.") };
    let mut rng = Rng::new(seed, 0xB2, 0);
    let (set, shape) = match corpus {
        Some(c) => (corpus_var(c), format!("corpus:{c}")),
        None => layouts::gen_var(&mut rng, coord_max, size),
    };
    let items: Vec<Item> = set.recs.iter().map(|r| Item { name: r.id.clone(), rid: Some(r.chrom), span: Some(set.span(r)), unmapped: false }).collect();
    let names: Vec<String> = items.iter().map(|i| i.name.clone()).collect();
    let regions = match corpus {
        Some(c) => corpus_regions(c),
        None => gen_regions(&mut rng, &items, set.contigs.len(), coord_max, 100),
    };
    count_level_crossings(&mut o, &items);
    for r in &set.recs {
        let definer = if r.end.is_some() {
            "END"
        } else if r.svlen.is_some() {
            "SVLEN"
        } else if r.len.is_some() {
            "LEN"
        } else {
            "REF"
        };
        let (s0, e0, _) = set.span(r);
        let long = if (s0 - 1) >> 14 != (e0 - 1) >> 14 { "crosses-16kb" } else { "within-16kb" };
        o.count(&format!("variant_records[span-by-{definer},alt={},{long}]", layouts::alt_class(&r.alt)), 1);
    }
    let mut fps = vec![fnv1a(format!("var|{shape}").as_bytes())];
    let mut total_regions = 0;
    let ident = |r: usize| Some(r);

    // ---- BCF + CSI
    let path = ctx.work.join(format!("c04-{idx}.bcf"));
    match guard::catch(|| genfiles::write_bcf(&path, &set)) {
        Ok(Ok(_)) => match guard::catch(|| BcfB::open(&path)) {
            Ok(Ok((b, scan))) if scan.names == names => {
                let (nblocks, _) = blocks_of(&b.data);
                o.count("bgzf_blocks[bcf]", nblocks);
                o.count("files[bcf]", 1);
                o.count("records[bcf]", items.len() as u64);
                o.count("records_starting_mid_block[bcf]", scan.chunks.iter().filter(|c| c.0 & 0xffff != 0).count() as u64);
                o.count("records_spanning_blocks[bcf]", scan.chunks.iter().filter(|c| (c.0 >> 16) != (c.1 >> 16) && c.1 & 0xffff != 0).count() as u64);
                let mut st = Stats::default();
                let other = other_geometry(&mut rng, coord_max);
                for k in 0..2 {
                    let (ms, d) = if k == 0 { (14u8, 5u8) } else { other };
                    let built = if k == 0 { guard::catch(|| bcf::fs::index(&path)) } else { guard::catch(|| b.csi(ms, d)) };
                    match built {
                        Ok(Ok(cx)) => {
                            let lab = Labels { ix: "csi", via: "memory", geometry: (ms, d), ref_names: &set.contigs, index_rid: &ident, indexed: false, base_order: 3 };
                            check_index(&b, &items, &scan, &cx, &lab, &regions, &mut rng, &mut o, &mut st, &mut fps);
                            if k == 0 {
                                check_index(&b, &items, &scan, &cx, &Labels { indexed: true, base_order: lab.base_order + 2, ..lab }, &regions, &mut rng, &mut o, &mut st, &mut fps);
                            }
                            let ip = ctx.work.join(format!("c04-{idx}.{k}.bcf.csi"));
                            match guard::catch(|| csi::fs::write(&ip, &cx).and_then(|_| csi::fs::read(&ip))) {
                                Ok(Ok(cx2)) => {
                                    let lab = Labels { via: "file", base_order: lab.base_order + 1, ..lab };
                                    check_index(&b, &items, &scan, &cx2, &lab, &regions, &mut rng, &mut o, &mut st, &mut fps);
                                    o.count("index_file_round_trips[csi]", 1);
                                }
                                Ok(Err(e)) => o.violation("index-file:csi:write-read-failed", format!("csi::fs::write + read failed: {e}")),
                                Err(p) => o.violation(format!("index-file:csi:panic:{}", p.sig), p.message),
                            }
                            if k == 1 {
                                o.count(&format!("csi_non_default_geometry[{ms},{d}]"), 1);
                            }
                        }
                        Ok(Err(e)) => o.count(&format!("indexing_refused[{}:{}]", if k == 0 { "bcf::fs::index" } else { "bcf+csi-indexer" }, guard::normalise_message(&e.to_string())), 1),
                        Err(p) => o.violation(format!("indexing:bcf-csi-panic:{}", p.sig), p.message),
                    }
                }
                finish_stats(&mut o, "bcf", &st);
                total_regions += st.regions;
            }
            Ok(Ok(_)) => o.inconclusive.push("sequential scan of the written BCF does not give back the written IDs in order (C10)".into()),
            Ok(Err(e)) => o.inconclusive.push(format!("sequential scan of the written BCF failed: {e}")),
            Err(p) => o.inconclusive.push(format!("sequential scan of the written BCF panicked: {}", p.sig)),
        },
        Ok(Err(e)) => o.count(&format!("writer_rejections[bcf:{}]", guard::normalise_message(&e.to_string())), 1),
        Err(p) => o.inconclusive.push(format!("BCF writer panicked (C10's business): {}", p.sig)),
    }

    // ---- VCF.gz + tabix
    let path = ctx.work.join(format!("c04-{idx}.vcf.gz"));
    match guard::catch(|| genfiles::write_vcf_gz(&path, &set)) {
        Ok(Ok(_)) => match guard::catch(|| VcfB::open(&path)) {
            Ok(Ok((b, scan))) if scan.names == names => {
                let (nblocks, _) = blocks_of(&b.data);
                o.count("bgzf_blocks[vcf.gz]", nblocks);
                o.count("files[vcf.gz]", 1);
                o.count("records[vcf.gz]", items.len() as u64);
                o.count("records_starting_mid_block[vcf.gz]", scan.chunks.iter().filter(|c| c.0 & 0xffff != 0).count() as u64);
                o.count("records_spanning_blocks[vcf.gz]", scan.chunks.iter().filter(|c| (c.0 >> 16) != (c.1 >> 16) && c.1 & 0xffff != 0).count() as u64);
                let mut st = Stats::default();
                match guard::catch(|| vcf::fs::index(&path)) {
                    Ok(Ok(tbx)) => {
                        let tnames: Vec<String> = tbx.header().map(|h| h.reference_sequence_names().iter().map(|n| n.to_string()).collect()).unwrap_or_default();
                        let contigs = set.contigs.clone();
                        let map = move |r: usize| tnames.iter().position(|n| n == &contigs[r]);
                        let lab = Labels { ix: "tabix", via: "memory", geometry: (14, 5), ref_names: &set.contigs, index_rid: &map, indexed: false, base_order: 4 };
                        check_index(&b, &items, &scan, &tbx, &lab, &regions, &mut rng, &mut o, &mut st, &mut fps);
                        check_index(&b, &items, &scan, &tbx, &Labels { indexed: true, base_order: lab.base_order + 2, ..lab }, &regions, &mut rng, &mut o, &mut st, &mut fps);
                        let ip = ctx.work.join(format!("c04-{idx}.vcf.gz.tbi"));
                        match guard::catch(|| tabix::fs::write(&ip, &tbx).and_then(|_| tabix::fs::read(&ip))) {
                            Ok(Ok(t2)) => {
                                let lab = Labels { via: "file", base_order: lab.base_order + 1, ..lab };
                                check_index(&b, &items, &scan, &t2, &lab, &regions, &mut rng, &mut o, &mut st, &mut fps);
                                o.count("index_file_round_trips[tabix]", 1);
                            }
                            Ok(Err(e)) => o.violation("index-file:tabix:write-read-failed", format!("tabix::fs::write + read failed: {e}")),
                            Err(p) => o.violation(format!("index-file:tabix:panic:{}", p.sig), p.message),
                        }
                    }
                    Ok(Err(e)) => o.count(&format!("indexing_refused[vcf::fs::index:{}]", guard::normalise_message(&e.to_string())), 1),
                    Err(p) => o.violation(format!("indexing:vcf::fs::index-panic:{}", p.sig), p.message),
                }
                // VCF.gz + CSI (default and one other geometry)
                let other = other_geometry(&mut rng, coord_max);
                for (k, (ms, d)) in [(14u8, 5u8), other].into_iter().enumerate() {
                    match guard::catch(|| b.csi(ms, d)) {
                        Ok(Ok(cx)) => {
                            let cnames: Vec<String> = cx.header().map(|h| h.reference_sequence_names().iter().map(|n| n.to_string()).collect()).unwrap_or_default();
                            let contigs = set.contigs.clone();
                            let map = move |r: usize| cnames.iter().position(|n| n == &contigs[r]);
                            let lab = Labels { ix: "csi", via: "memory", geometry: (ms, d), ref_names: &set.contigs, index_rid: &map, indexed: false, base_order: 5 + k as u64 };
                            check_index(&b, &items, &scan, &cx, &lab, &regions, &mut rng, &mut o, &mut st, &mut fps);
                            let ip = ctx.work.join(format!("c04-{idx}.{k}.vcf.gz.csi"));
                            match guard::catch(|| csi::fs::write(&ip, &cx).and_then(|_| csi::fs::read(&ip))) {
                                Ok(Ok(cx2)) => {
                                    let lab = Labels { via: "file", base_order: lab.base_order + 1, ..lab };
                                    check_index(&b, &items, &scan, &cx2, &lab, &regions, &mut rng, &mut o, &mut st, &mut fps);
                                    o.count("index_file_round_trips[csi]", 1);
                                }
                                Ok(Err(e)) => o.violation("index-file:csi:write-read-failed", format!("csi::fs::write + read failed: {e}")),
                                Err(p) => o.violation(format!("index-file:csi:panic:{}", p.sig), p.message),
                            }
                        }
                        Ok(Err(e)) => o.count(&format!("indexing_refused[vcf.gz+csi-indexer:{}]", guard::normalise_message(&e.to_string())), 1),
                        Err(p) => o.violation(format!("indexing:vcf-csi-panic:{}", p.sig), p.message),
                    }
                }
                finish_stats(&mut o, "vcf.gz", &st);
                total_regions += st.regions;
            }
            Ok(Ok(_)) => o.inconclusive.push("sequential scan of the written VCF.gz does not give back the written IDs in order (C09)".into()),
            Ok(Err(e)) => o.inconclusive.push(format!("sequential scan of the written VCF.gz failed: {e}")),
            Err(p) => o.inconclusive.push(format!("sequential scan of the written VCF.gz panicked: {}", p.sig)),
        },
        Ok(Err(e)) => o.count(&format!("writer_rejections[vcf.gz:{}]", guard::normalise_message(&e.to_string())), 1),
        Err(p) => o.inconclusive.push(format!("VCF writer panicked (C09's business): {}", p.sig)),
    }
    fps.sort_unstable();
    fps.dedup();
    o.fps = fps;
    o.evaluations = total_regions.max(1);
    o
}

fn main() {
    let ctx = Ctx::from_args();
    let ctx = vcore::cases::replay_request(&ctx).map(|r| r.1).unwrap_or(ctx);
    let mut rep = Report::new(
        "case = one generated coordinate-sorted record set (layout motifs: bin-edge straddlers at 16kb/128kb/1Mb/8Mb/64Mb, long-before-short \
         in one 16 kb window, dense, sparse, range ends, placed/unplaced unmapped, several references incl. empty ones; flush plan and fat \
         records decide BGZF block boundaries) written as BAM resp. BCF + VCF.gz; per file every index variant (BAI | CSI default | CSI \
         non-default geometry | tabix) x (in memory | after fs::write+fs::read) serves, on ONE reused reader per access path (Reader::query for every variant; IndexedReader::query for the primary index), a whole call sequence: ~100 regions in ascending / descending / shuffled order (rotating per variant) with inserted blocks — a region followed by the span of a record shortly BEFORE it in the same BGZF block (after a full and after a stopped query), the same region twice, a stopped and dropped query iterator followed by another query, query_unmapped, a sequential re-scan after seeking back; a wrong answer (and every 7th call) is repeated on a fresh reader: a differing fresh answer gives `reused-reader-differs-from-fresh-reader:after-<previous call>`, otherwise the fresh answer is diagnosed; regions (own span, +-1, points, bin-aligned \
         windows, whole reference, unbounded start/end, nothing, empty reference); evaluations = region queries compared with the scan \
         filter over the generator's description; distinct = distinct (format, index, memory/file, default geometry?, region class, \
         answer size class 0/1/2/3+, min_offset>0) plus distinct set shapes; a fixed corpus (4 layouts x 2 formats) precedes the seeded part",
    );
    rep.assumptions.push("oracle = generator description: SAM span = POS..POS+max(sum M/D/N/=/X,1)-1; VCF<4.5 span = POS..END if INFO/END else POS+len(REF)-1; VCF 4.5: max of REF length, SVLEN (both POS+SVLEN-1 and POS+SVLEN accepted as end; pairs separated by that base are not judged) and FORMAT/LEN (POS+LEN-1); the ALT column is never consulted (generated independently: missing, plain bases, symbolic, breakend, mixed lists)".into());
    rep.assumptions.push("a sequential read of each written file with the noodles reader must give back the written names in order, else the case is inconclusive (C05/C09/C10 territory)".into());
    rep.assumptions.push("query_unmapped may additionally yield placed unmapped reads (flagged 0x4): the statement only forbids records not flagged unmapped".into());
    rep.assumptions.push("a query that returns Err for a region on which the scan keeps nothing (e.g. tabix: contig without records is not in the index) is counted, not alarmed on".into());
    let cases = gen_cases(&ctx);
    let f = |i: u64| -> CaseOut {
        let mut o = match &cases[i as usize] {
            Case::Aln { seed, size, coord_max, corpus } => run_aln(&ctx, i, *seed, *size, *coord_max, *corpus),
            Case::Var { seed, size, coord_max, corpus } => run_var(&ctx, i, *seed, *size, *coord_max, *corpus),
        };
        if i % 23 == 0 {
            o.sample = Some(case_json(&cases[i as usize]));
        }
        o
    };
    run_cases(&ctx, &mut rep, cases.len() as u64, 120.0, &f, &|i| case_json(&cases[i as usize]));
    if ctx.replay.is_none() {
        for fmt in ["bam", "bcf", "vcf.gz"] {
            let files = rep.counters.get(&format!("files[{fmt}]")).copied().unwrap_or(0);
            rep.floor(&format!("files[{fmt}]"), files, 20);
            let ne = rep.counters.get(&format!("nonempty_answers[{fmt}]")).copied().unwrap_or(0);
            rep.floor(&format!("nonempty_answers[{fmt}]"), ne, 1000);
            let pr = rep.counters.get(&format!("answers_with_min_offset_above_zero[{fmt}]")).copied().unwrap_or(0);
            rep.floor(&format!("answers_with_min_offset_above_zero[{fmt}]"), pr, 200);
        }
        for ix in ["bai", "csi", "tabix"] {
            let n = rep.counters.get(&format!("index_file_round_trips[{ix}]")).copied().unwrap_or(0);
            rep.floor(&format!("index_file_round_trips[{ix}]"), n, 20);
        }
    }
    rep.finish(&ctx);
}
