//! C04 — stub (to be implemented).

fn main() {
    eprintln!("c04: not implemented");
    std::process::exit(2);
}
