//! C06 — SAM text records and headers round-trip, and SAM and BAM carry the same content.
//!
//! Monitor, per batch of generated records (gensam `Level::SamText`: everything SAM text can carry)
//! over a generated header (any mix of @HD/@SQ/@RG/@PG/@CO, standard and user tags):
//!  (i)   `parse(write(x)) == x`: noodles' SAM text is read back by `read_record_buf`, by the lazy
//!        `sam::Record` (trait view and `RecordBuf::try_from_alignment_record`) and compared with the
//!        expected value computed from the description (integers by numeric value);
//!  (ii)  fixed point: the parsed header and records (eager and lazy) written again reproduce the
//!        text byte for byte;
//!  (iii) third opinion: each emitted line is split at TABs and compared with gensam's independent
//!        rendering (11 mandatory columns and every aux field whose text is canonical byte for
//!        byte; float fields by value through Rust's std parser), the header text is parsed by a
//!        dumb reader and compared with the description;
//!  (iv)  the same record set written as BAM reads back as equal header and equal records (BAM
//!        alphabet normal form on bases, integers by value); SAM→BAM→SAM reproduces the text (SEQ
//!        column in BAM normal form) and BAM→SAM→BAM the records, both with lazy records handed
//!        directly to the other format's writer and through `RecordBuf::try_from_alignment_record`.
//! Every SAM text and every BAM file is additionally read the way users read: many records through
//! ONE reader with ONE reused `RecordBuf` / lazy record (`read_record_buf` loop, `record_bufs()`,
//! `read_record` loop, `records()`, `try_clone_from_alignment_record` into one target), with
//! deliberately generated "rich record followed by stripped record" neighbours, each compared with
//! the expected value from the description (history-dependent reader state).
//! Header-only cases do (i)–(iv) for headers, plus the binary reference list of the BAM header.

use std::io::Write;

use gensam::{
    adjacency_corpus, gen_record_batch, Cmp, HeaderDesc, HeaderOpts, Level, RecDesc, RecOpts, aux_text_is_canonical, bam_bases, bam_normal_form, boundary_records,
    describe_alignment_record, describe_header, describe_record, diff_records, gen_header, gen_record, header_text, parse_header_text,
    parse_sam_line, rec_class, sam_columns, sam_normal_form, split_bam_stream, summary, to_header, to_record_buf,
};
use noodles_bam as bam;
use noodles_sam::{self as sam, alignment::RecordBuf, alignment::io::Write as _};
use serde_json::json;
use vcore::{CaseOut, Ctx, Report, Rng, guard, rng::fnv1a, run_cases};

#[derive(Clone, Debug)]
struct Case {
    /// "boundary" | "adjacency" | "witness" | "records" | "huge" | "headers"
    kind: &'static str,
    n: usize,
    cseed: u64,
}

fn case_json(c: &Case) -> serde_json::Value {
    json!({"kind": c.kind, "n": c.n, "cseed": c.cseed})
}

fn gen_cases(ctx: &Ctx) -> Vec<Case> {
    let mut v = vec![Case { kind: "boundary", n: 0, cseed: 0 }, Case { kind: "boundary", n: 0, cseed: 1 }, Case { kind: "witness", n: 1, cseed: 2 }];
    // deterministic rich -> missing -> rich / long -> short -> long neighbours (reused reader buffers)
    for i in 0..4 {
        v.push(Case { kind: "adjacency", n: 0, cseed: 100 + i });
    }
    let per_case = ctx.budget("per_case", 200, 250) as usize;
    let records = ctx.budget("records", 20_000, 1_000_000) as usize;
    for i in 0..records.div_ceil(per_case) {
        v.push(Case { kind: "records", n: per_case, cseed: ctx.seed.wrapping_mul(1_000_003).wrapping_add(i as u64) });
    }
    for i in 0..ctx.budget("huge_cases", 3, 30) {
        v.push(Case { kind: "huge", n: 4, cseed: ctx.seed.wrapping_mul(7_000_003).wrapping_add(i) });
    }
    let headers = ctx.budget("headers", 2_000, 50_000) as usize;
    let per_h = 100;
    for i in 0..headers.div_ceil(per_h) {
        v.push(Case { kind: "headers", n: per_h, cseed: ctx.seed.wrapping_mul(9_000_011).wrapping_add(i as u64) });
    }
    v
}

fn reason(e: &std::io::Error) -> String {
    fn level(m: String) -> String {
        match m.split_once(": ") {
            Some((head, rest)) if !rest.starts_with("expected") => head.to_string(),
            _ => m,
        }
    }
    let mut s = level(e.to_string());
    let mut src: Option<&(dyn std::error::Error + 'static)> = e.get_ref().and_then(|r| r.source());
    while let Some(x) = src {
        s.push_str(" / ");
        s.push_str(&level(x.to_string()));
        src = x.source();
    }
    guard::normalise_message(&s).chars().take(100).collect()
}

fn lossy(b: &[u8]) -> String {
    let s = String::from_utf8_lossy(&b[..b.len().min(300)]).replace('\t', "\\t").replace('\n', "\\n");
    if b.len() > 300 { format!("{s}… ({} bytes)", b.len()) } else { s }
}

/// Runs `f` under the panic monitor; a panic becomes a violation and `None`.
fn guarded<T>(out: &mut CaseOut, what: &str, f: impl FnOnce() -> T) -> Option<T> {
    match guard::catch(f) {
        Ok(v) => Some(v),
        Err(p) => {
            out.violation(format!("panic:{}", p.sig), format!("{what} panicked: {} at {}:{}", p.message, p.file, p.line));
            None
        }
    }
}

// ------------------------------------------------------------------------------------------------
// small I/O helpers over noodles

fn sam_header_text(h: &sam::Header) -> std::io::Result<Vec<u8>> {
    let mut w = sam::io::Writer::new(Vec::new());
    w.write_header(h)?;
    Ok(w.into_inner())
}

fn sam_line<R: sam::alignment::Record + ?Sized>(h: &sam::Header, r: &R) -> std::io::Result<Vec<u8>> {
    let mut w = sam::io::Writer::new(Vec::new());
    sam::alignment::io::Write::write_alignment_record(&mut w, h, &RecAdapter(r))?;
    Ok(w.into_inner())
}

/// `write_alignment_record` takes `&dyn Record`; this forwards any `R: Record + ?Sized`.
struct RecAdapter<'a, R: ?Sized>(&'a R);

impl<R: sam::alignment::Record + ?Sized> sam::alignment::Record for RecAdapter<'_, R> {
    fn name(&self) -> Option<&bstr::BStr> {
        self.0.name()
    }
    fn flags(&self) -> std::io::Result<sam::alignment::record::Flags> {
        self.0.flags()
    }
    fn reference_sequence_id<'r, 'h: 'r>(&'r self, header: &'h sam::Header) -> Option<std::io::Result<usize>> {
        self.0.reference_sequence_id(header)
    }
    fn alignment_start(&self) -> Option<std::io::Result<noodles_core::Position>> {
        self.0.alignment_start()
    }
    fn mapping_quality(&self) -> Option<std::io::Result<sam::alignment::record::MappingQuality>> {
        self.0.mapping_quality()
    }
    fn cigar(&self) -> Box<dyn sam::alignment::record::Cigar + '_> {
        self.0.cigar()
    }
    fn mate_reference_sequence_id<'r, 'h: 'r>(&'r self, header: &'h sam::Header) -> Option<std::io::Result<usize>> {
        self.0.mate_reference_sequence_id(header)
    }
    fn mate_alignment_start(&self) -> Option<std::io::Result<noodles_core::Position>> {
        self.0.mate_alignment_start()
    }
    fn template_length(&self) -> std::io::Result<i32> {
        self.0.template_length()
    }
    fn sequence(&self) -> Box<dyn sam::alignment::record::Sequence + '_> {
        self.0.sequence()
    }
    fn quality_scores(&self) -> Box<dyn sam::alignment::record::QualityScores + '_> {
        self.0.quality_scores()
    }
    fn data(&self) -> Box<dyn sam::alignment::record::Data<'_> + '_> {
        self.0.data()
    }
    fn cigar_ref(&self) -> sam::alignment::record::CigarRef<'_> {
        self.0.cigar_ref()
    }
    fn sequence_ref(&self) -> sam::alignment::record::SequenceRef<'_> {
        self.0.sequence_ref()
    }
    fn quality_scores_ref(&self) -> sam::alignment::record::QualityScoresRef<'_> {
        self.0.quality_scores_ref()
    }
    fn data_ref(&self) -> sam::alignment::record::DataRef<'_> {
        self.0.data_ref()
    }
}

struct SamFile {
    header: sam::Header,
    eager: Vec<RecordBuf>,
}

fn read_sam_eager(text: &[u8]) -> Result<SamFile, String> {
    let mut r = sam::io::Reader::new(text);
    let header = r.read_header().map_err(|e| format!("read_header: {}", reason(&e)))?;
    let mut eager = Vec::new();
    loop {
        let mut rb = RecordBuf::default();
        match r.read_record_buf(&header, &mut rb) {
            Ok(0) => break,
            Ok(_) => eager.push(rb),
            Err(e) => return Err(format!("read_record_buf #{}: {}", eager.len(), reason(&e))),
        }
    }
    Ok(SamFile { header, eager })
}

fn read_sam_lazy(text: &[u8]) -> Result<Vec<sam::Record>, String> {
    let mut r = sam::io::Reader::new(text);
    r.read_header().map_err(|e| format!("read_header: {}", reason(&e)))?;
    let mut v = Vec::new();
    loop {
        let mut rec = sam::Record::default();
        match r.read_record(&mut rec) {
            Ok(0) => break,
            Ok(_) => v.push(rec),
            Err(e) => return Err(format!("read_record #{}: {}", v.len(), reason(&e))),
        }
    }
    Ok(v)
}

/// Writes a BAM file (BGZF or raw); per record Ok / rejection reason.
fn write_bam<R: sam::alignment::Record>(bgzf: bool, h: &sam::Header, recs: &[R]) -> Result<(Vec<u8>, Vec<Result<(), String>>), String> {
    fn go<W: Write, R: sam::alignment::Record>(w: &mut bam::io::Writer<W>, h: &sam::Header, recs: &[R]) -> Result<Vec<Result<(), String>>, String> {
        w.write_header(h).map_err(|e| format!("write_header: {}", reason(&e)))?;
        Ok(recs.iter().map(|r| w.write_alignment_record(h, r).map_err(|e| reason(&e))).collect())
    }
    if bgzf {
        let mut w = bam::io::Writer::new(Vec::new());
        let res = go(&mut w, h, recs)?;
        let file = w.into_inner().finish().map_err(|e| format!("finish: {e}"))?;
        Ok((file, res))
    } else {
        let mut w = bam::io::Writer::from(Vec::new());
        let res = go(&mut w, h, recs)?;
        Ok((w.into_inner(), res))
    }
}

fn read_bam_eager(bgzf: bool, file: &[u8]) -> Result<(sam::Header, Vec<RecordBuf>), String> {
    fn go<R: std::io::Read>(mut r: bam::io::Reader<R>) -> Result<(sam::Header, Vec<RecordBuf>), String> {
        let h = r.read_header().map_err(|e| format!("read_header: {}", reason(&e)))?;
        let mut v = Vec::new();
        loop {
            let mut rb = RecordBuf::default();
            match r.read_record_buf(&h, &mut rb) {
                Ok(0) => break,
                Ok(_) => v.push(rb),
                Err(e) => return Err(format!("read_record_buf #{}: {}", v.len(), reason(&e))),
            }
        }
        Ok((h, v))
    }
    if bgzf { go(bam::io::Reader::new(file)) } else { go(bam::io::Reader::from(file)) }
}

fn read_bam_lazy(bgzf: bool, file: &[u8]) -> Result<Vec<bam::Record>, String> {
    fn go<R: std::io::Read>(mut r: bam::io::Reader<R>) -> Result<Vec<bam::Record>, String> {
        r.read_header().map_err(|e| format!("read_header: {}", reason(&e)))?;
        let mut v = Vec::new();
        loop {
            let mut rec = bam::Record::default();
            match r.read_record(&mut rec) {
                Ok(0) => break,
                Ok(_) => v.push(rec),
                Err(e) => return Err(format!("read_record #{}: {}", v.len(), reason(&e))),
            }
        }
        Ok(v)
    }
    if bgzf { go(bam::io::Reader::new(file)) } else { go(bam::io::Reader::from(file)) }
}

// ------------------------------------------------------------------------------------------------
// reading the way users do: ONE reader, ONE reused buffer

type Listed<T> = Result<Vec<T>, (usize, String)>;

/// Per path, what each record looked like right after it was read.
struct Reused {
    /// `read_record_buf(&header, &mut same_buf)` in a loop
    loop_buf: Listed<RecDesc>,
    /// `reader.record_bufs(&header)`
    iter_buf: Listed<RecDesc>,
    /// `read_record(&mut same_record)` in a loop, described through the `Record` trait
    loop_lazy: Listed<Result<RecDesc, String>>,
    /// `reader.records()`
    iter_lazy: Listed<Result<RecDesc, String>>,
    /// `same_buf.try_clone_from_alignment_record(&header, &lazy)` over the lazy records in order
    clone_into: Listed<RecDesc>,
}

macro_rules! read_reused_impl {
    ($mk:expr, $lazy:ty) => {{
        let loop_buf: Listed<RecDesc> = (|| {
            let mut r = $mk;
            let h = r.read_header().map_err(|e| (0usize, format!("read_header: {e}")))?;
            let mut same = RecordBuf::default();
            let mut v = Vec::new();
            loop {
                match r.read_record_buf(&h, &mut same) {
                    Ok(0) => break,
                    Ok(_) => v.push(describe_record(&same)),
                    Err(e) => return Err((v.len(), reason(&e))),
                }
            }
            Ok(v)
        })();
        let iter_buf: Listed<RecDesc> = (|| {
            let mut r = $mk;
            let h = r.read_header().map_err(|e| (0usize, format!("read_header: {e}")))?;
            let mut v = Vec::new();
            for x in r.record_bufs(&h) {
                match x {
                    Ok(rb) => v.push(describe_record(&rb)),
                    Err(e) => return Err((v.len(), reason(&e))),
                }
            }
            Ok(v)
        })();
        let mut clone_into: Listed<RecDesc> = Ok(Vec::new());
        let loop_lazy: Listed<Result<RecDesc, String>> = (|| {
            let mut r = $mk;
            let h = r.read_header().map_err(|e| (0usize, format!("read_header: {e}")))?;
            let mut same = <$lazy>::default();
            let mut target = RecordBuf::default();
            let mut v = Vec::new();
            loop {
                match r.read_record(&mut same) {
                    Ok(0) => break,
                    Ok(_) => {
                        v.push(describe_alignment_record(&same, &h));
                        if let Ok(list) = clone_into.as_mut() {
                            match target.try_clone_from_alignment_record(&h, &same) {
                                Ok(()) => list.push(describe_record(&target)),
                                Err(e) => clone_into = Err((list.len(), reason(&e))),
                            }
                        }
                    }
                    Err(e) => return Err((v.len(), reason(&e))),
                }
            }
            Ok(v)
        })();
        let iter_lazy: Listed<Result<RecDesc, String>> = (|| {
            let mut r = $mk;
            let h = r.read_header().map_err(|e| (0usize, format!("read_header: {e}")))?;
            let mut v = Vec::new();
            for x in r.records() {
                match x {
                    Ok(rec) => v.push(describe_alignment_record(&rec, &h)),
                    Err(e) => return Err((v.len(), reason(&e))),
                }
            }
            Ok(v)
        })();
        Reused { loop_buf, iter_buf, loop_lazy, iter_lazy, clone_into }
    }};
}

fn read_sam_reused(text: &[u8]) -> Reused {
    read_reused_impl!(sam::io::Reader::new(text), sam::Record)
}

fn read_bam_reused(bgzf: bool, file: &[u8]) -> Reused {
    if bgzf { read_reused_impl!(bam::io::Reader::new(file), bam::Record) } else { read_reused_impl!(bam::io::Reader::from(file), bam::Record) }
}

/// Judges the five reused-buffer paths of one file. `exp[k]` is the expected description of record
/// `k`; `written(k)` / `prev(k)` render the record and its predecessor; `tolerate(k, diff field)`
/// names differences that another check already reports under its own signature.
#[allow(clippy::too_many_arguments)]
fn judge_reused(
    out: &mut CaseOut,
    fmt: &str,
    ru: &Reused,
    exp: &[RecDesc],
    cmp: &Cmp,
    show: &dyn Fn(usize) -> String,
    skip_lazy: &dyn Fn(usize) -> bool,
    tolerate: &dyn Fn(usize, &str) -> bool,
) {
    let prev = |k: usize| if k == 0 { "<first record>".to_string() } else { show(k - 1) };
    let eager: [(&str, &Listed<RecDesc>); 3] = [("read_record_buf", &ru.loop_buf), ("record_bufs", &ru.iter_buf), ("try_clone_from_alignment_record", &ru.clone_into)];
    for (path, res) in eager {
        match res {
            Err((at, e)) => {
                if !(path == "try_clone_from_alignment_record" && skip_lazy(*at)) {
                    out.violation(format!("reused-buffer:{fmt}:{path}:fails"), format!("{fmt} {path} through one reused buffer fails at record #{at}: {e}; record: {}", show((*at).min(exp.len().saturating_sub(1)))));
                }
            }
            Ok(v) if v.len() != exp.len() => out.violation(format!("reused-buffer:{fmt}:{path}:record-count"), format!("{} written, {} read", exp.len(), v.len())),
            Ok(v) => {
                for (k, got) in v.iter().enumerate() {
                    out.count(&format!("compared_reused[{fmt}:{path}]"), 1);
                    if let Some(df) = diff_records(&exp[k], got, cmp) {
                        if tolerate(k, &df.field) {
                            continue;
                        }
                        out.violation(
                            format!("reused-buffer:{fmt}:{path}:{}", df.field),
                            format!(
                                "a {fmt} record read with {path} into a REUSED buffer differs from what was written in {}: {}; written: {}; the record read just before: {}",
                                df.field,
                                df.detail,
                                show(k),
                                prev(k)
                            ),
                        );
                    }
                }
            }
        }
    }
    for (path, res) in [("read_record", &ru.loop_lazy), ("records", &ru.iter_lazy)] {
        match res {
            Err((at, e)) => out.violation(format!("reused-record:{fmt}:{path}:fails"), format!("{fmt} {path} through one reused record fails at record #{at}: {e}")),
            Ok(v) if v.len() != exp.len() => out.violation(format!("reused-record:{fmt}:{path}:record-count"), format!("{} written, {} read", exp.len(), v.len())),
            Ok(v) => {
                for (k, got) in v.iter().enumerate() {
                    if skip_lazy(k) {
                        continue;
                    }
                    out.count(&format!("compared_reused[{fmt}:{path}]"), 1);
                    match got {
                        Err(msg) => out.violation(
                            format!("reused-record:{fmt}:{path}:accessor-fails:{}", msg.split(':').next().unwrap_or("?")),
                            format!("lazy view of a {fmt} record read with {path} into a reused record fails: {msg}; record: {}", show(k)),
                        ),
                        Ok(l) => {
                            if let Some(df) = diff_records(&exp[k], l, cmp) {
                                if tolerate(k, &df.field) {
                                    continue;
                                }
                                out.violation(
                                    format!("reused-record:{fmt}:{path}:{}", df.field),
                                    format!(
                                        "a {fmt} record read with {path} into a REUSED lazy record differs from what was written in {}: {}; written: {}; the record read just before: {}",
                                        df.field,
                                        df.detail,
                                        show(k),
                                        prev(k)
                                    ),
                                );
                            }
                        }
                    }
                }
            }
        }
    }
}

// ------------------------------------------------------------------------------------------------
// headers

/// All header checks for one description. Returns the noodles text (None if the writer rejected it).
fn check_header(out: &mut CaseOut, hd: &HeaderDesc, bgzf: bool) -> Option<Vec<u8>> {
    let h = to_header(hd);
    let text = match guarded(out, "sam write_header", || sam_header_text(&h))? {
        Ok(t) => t,
        Err(e) => {
            out.count(&format!("header_rejected_by_sam_writer[{}]", reason(&e)), 1);
            return None;
        }
    };
    out.count("headers_written", 1);
    // (iii) third opinion: text against the independent rendering / the dumb reader
    match parse_header_text(&text) {
        Err(e) => out.violation("header:independent-reader-rejects-text", format!("dumb header reader: {e}; text: {}", lossy(&text))),
        Ok(d) if d != *hd => out.violation(
            "header:text-ne-description",
            format!("the emitted header text does not say what the description says; text: {}; expected text: {}", lossy(&text), lossy(&header_text(hd))),
        ),
        Ok(_) => {}
    }
    if text != header_text(hd) {
        // same content in another (valid) layout is not a violation of the statement
        out.count("header_text_layout_differs_from_independent_rendering", 1);
    }
    // (i) parse back, through the reader and through FromStr
    let parsed = guarded(out, "sam read_header", || {
        let mut r = sam::io::Reader::new(&text[..]);
        r.read_header()
    })?;
    let parsed = match parsed {
        Ok(p) => p,
        Err(e) => {
            out.violation(format!("header:parse-fails:{}", reason(&e)), format!("noodles cannot parse its own header text: {e}; text: {}", lossy(&text)));
            return Some(text);
        }
    };
    if describe_header(&parsed) != *hd {
        out.violation("header:parse-write-ne", format!("parse(write(header)) != header; text: {}", lossy(&text)));
    }
    if let Ok(s) = std::str::from_utf8(&text) {
        match guarded(out, "Header::from_str", || s.parse::<sam::Header>())? {
            Ok(p2) => {
                if describe_header(&p2) != *hd {
                    out.violation("header:from_str-ne", format!("Header::from_str(write(header)) != header; text: {}", lossy(&text)));
                }
            }
            Err(e) => out.violation("header:from_str-fails", format!("Header::from_str fails on noodles' own text: {e}; text: {}", lossy(&text))),
        }
    }
    // (ii) fixed point
    match guarded(out, "sam write_header", || sam_header_text(&parsed))? {
        Ok(t2) if t2 == text => {}
        Ok(t2) => out.violation("header:not-a-fixed-point", format!("write(parse(text)) != text: {} vs {}", lossy(&t2), lossy(&text))),
        Err(e) => out.violation("header:rewrite-fails", format!("the parsed header cannot be written: {e}")),
    }
    // (iv) BAM rendering
    let res = guarded(out, "bam write_header", || write_bam::<RecordBuf>(bgzf, &h, &[]))?;
    let (file, _) = match res {
        Ok(x) => x,
        Err(e) => {
            out.count(&format!("header_rejected_by_bam_writer[{e}]"), 1);
            return Some(text);
        }
    };
    let stream = if bgzf {
        match vcore::bgzf::walk(&file) {
            Ok(w) => w.concat(),
            Err(e) => {
                out.violation("bam-header:bgzf-walk-failed", e);
                return Some(text);
            }
        }
    } else {
        file.clone()
    };
    match split_bam_stream(&stream) {
        Err(e) => out.violation("bam-header:split-failed", format!("independent splitter: {e}")),
        Ok(s) => {
            let want: Vec<(Vec<u8>, i32)> = hd.sq.iter().map(|q| (q.name.clone(), q.len as i32)).collect();
            if s.refs != want {
                out.violation("bam-header:reference-list", format!("binary reference list has {} entries, dictionary {}", s.refs.len(), want.len()));
            }
            match parse_header_text(&s.text) {
                Ok(d) if d == *hd => {}
                Ok(_) => out.violation("bam-header:text-ne-description", format!("header text stored in BAM: {}", lossy(&s.text))),
                Err(e) => out.violation("bam-header:independent-reader-rejects-text", format!("{e}; text: {}", lossy(&s.text))),
            }
        }
    }
    match guarded(out, "bam read_header", || read_bam_eager(bgzf, &file))? {
        Ok((hb, _)) => {
            out.count("headers_compared_sam_vs_bam", 1);
            if describe_header(&hb) != describe_header(&parsed) {
                out.violation("header:bam-ne-sam", format!("header read from BAM != header read from SAM; SAM text: {}", lossy(&text)));
            }
        }
        Err(e) => out.violation(format!("bam-header:read-fails:{}", e.chars().take(60).collect::<String>()), format!("BAM header cannot be read back: {e}; SAM text: {}", lossy(&text))),
    }
    Some(text)
}

fn header_class(h: &HeaderDesc) -> String {
    let b = |n: usize| match n {
        0 => "0",
        1 => "1",
        2..=9 => "few",
        _ => "many",
    };
    let user = |tags: &Vec<(gensam::Tag2, Vec<u8>)>| tags.iter().any(|t| t.0[0].is_ascii_lowercase()) as u8;
    format!(
        "hd{}{}|sq{}u{}|rg{}u{}|pg{}pp{}|co{}",
        h.hd.is_some() as u8,
        h.hd.as_ref().map(|x| format!("v{}.{}t{}", x.version.0.min(3), x.version.1.min(9), x.tags.len().min(3))).unwrap_or_default(),
        b(h.sq.len()),
        h.sq.iter().map(|s| user(&s.tags)).max().unwrap_or(0),
        b(h.rg.len()),
        h.rg.iter().map(|s| user(&s.tags)).max().unwrap_or(0),
        b(h.pg.len()),
        h.pg.iter().any(|p| p.tags.iter().any(|t| &t.0 == b"PP")) as u8,
        b(h.co.len()),
    )
}

// ------------------------------------------------------------------------------------------------
// records

/// Compares two SAM texts line by line; `norm_seq` puts column 10 of `a` into BAM normal form.
/// One entry per differing line: (line index, column index or usize::MAX for a column-count
/// difference, a, b).
fn text_diff(a: &[u8], b: &[u8], norm_seq: bool) -> Vec<(usize, usize, Vec<u8>, Vec<u8>)> {
    let la: Vec<&[u8]> = a.split(|c| *c == b'\n').collect();
    let lb: Vec<&[u8]> = b.split(|c| *c == b'\n').collect();
    let mut out = Vec::new();
    for i in 0..la.len().max(lb.len()) {
        let (x, y) = (la.get(i).copied().unwrap_or(b"<no line>"), lb.get(i).copied().unwrap_or(b"<no line>"));
        if x == y {
            continue;
        }
        let cx: Vec<&[u8]> = x.split(|c| *c == b'\t').collect();
        let cy: Vec<&[u8]> = y.split(|c| *c == b'\t').collect();
        if cx.len() != cy.len() {
            out.push((i, usize::MAX, x.to_vec(), y.to_vec()));
            continue;
        }
        for j in 0..cx.len() {
            let same = if j == 9 && norm_seq && !x.starts_with(b"@") && cx[j] != b"*" { bam_bases(cx[j]) == cy[j] } else { cx[j] == cy[j] };
            if !same {
                out.push((i, j, cx[j].to_vec(), cy[j].to_vec()));
                break;
            }
        }
    }
    out
}

/// `b` is `a` plus exactly one more column, a `CG:B:I` field.
fn only_extra_cg_column(a: &[u8], b: &[u8]) -> bool {
    let ca: Vec<&[u8]> = a.split(|c| *c == b'\t').collect();
    let cb: Vec<&[u8]> = b.split(|c| *c == b'\t').collect();
    let rest: Vec<&[u8]> = cb.iter().copied().filter(|c| !c.starts_with(b"CG:B:I")).collect();
    cb.len() == ca.len() + 1 && rest.len() == ca.len() && rest.iter().zip(&ca).enumerate().all(|(j, (x, y))| if j == 9 && **y != b"*"[..] { bam_bases(y) == **x } else { x == y })
}

const COLS: [&str; 11] = ["QNAME", "FLAG", "RNAME", "POS", "MAPQ", "CIGAR", "RNEXT", "PNEXT", "TLEN", "SEQ", "QUAL"];

fn col_name(j: usize) -> String {
    if j == usize::MAX {
        "column-count".into()
    } else if j < 11 {
        COLS[j].into()
    } else {
        "aux".into()
    }
}

fn run_records(c: &Case, idx: u64, out: &mut CaseOut) {
    let mut rng = Rng::new(c.cseed, 0xC06, 1);
    let ho = HeaderOpts { min_refs: if c.cseed % 6 == 0 { 0 } else { 1 }, max_refs: 12, big_refs: true, rich: c.cseed % 2 == 0, hd: None };
    let hd = gen_header(&mut rng, &ho);
    let bgzf = c.cseed % 2 == 1;
    let descs: Vec<RecDesc> = match c.kind {
        "boundary" => boundary_records(&hd, Level::SamText, true),
        "adjacency" => adjacency_corpus(&hd),
        // deterministic witness of a known finding: a long CIGAR and an empty array as the *last*
        // field (the lazy SAM view reads it; after a BAM hop the retained CG field follows it)
        "witness" => vec![RecDesc {
            name: Some(b"long-cigar-empty-array-last".to_vec()),
            flags: 0,
            pos: Some(7),
            ref_id: if hd.sq.is_empty() { None } else { Some(0) },
            mapq: Some(1),
            cigar: (0..65_536).map(|j| (b"MI"[j % 2], 1u32)).collect(),
            seq: vec![b'A'; 65_536],
            aux: vec![(*b"NM", gensam::AuxDesc::U8(0)), (*b"XB", gensam::AuxDesc::BI16(vec![]))],
            ..Default::default()
        }],
        "huge" => {
            let mut o = RecOpts::sam_text();
            o.huge_cigar_permille = 1000;
            (0..c.n).map(|_| gen_record(&mut rng, &hd, &o)).collect()
        }
        _ => {
            let mut o = RecOpts::sam_text();
            if c.cseed % 3 == 0 {
                o.max_seq_len = 1500;
                o.max_array_len = 2000;
            }
            // with deliberate "rich followed by stripped" neighbours
            gen_record_batch(&mut rng, &hd, &o, c.n)
        }
    };
    out.evaluations = descs.len() as u64;
    let Some(htext) = check_header(out, &hd, bgzf) else {
        out.inconclusive.push("the SAM writer rejected the generated header".into());
        return;
    };
    let h = to_header(&hd);
    let rbs: Vec<RecordBuf> = descs.iter().map(|d| to_record_buf(d, &hd)).collect();

    // write every record on its own (a rejected record may leave a partial line behind)
    let mut acc: Vec<usize> = Vec::new();
    let mut lines: Vec<Vec<u8>> = Vec::new();
    for (i, rb) in rbs.iter().enumerate() {
        let Some(res) = guarded(out, "sam write_alignment_record", || sam_line(&h, rb)) else { return };
        match res {
            Ok(l) => {
                acc.push(i);
                lines.push(l);
            }
            Err(e) => out.count(&format!("rejected_by_sam_writer[{}]", reason(&e)), 1),
        }
    }
    out.count("records_written_as_sam", acc.len() as u64);
    for &i in &acc {
        out.fps.push(fnv1a(rec_class(&descs[i]).as_bytes()));
        for a in gensam::aux_classes(&descs[i]) {
            out.fps.push(fnv1a(a.as_bytes()));
        }
    }
    let mut text = htext.clone();
    for l in &lines {
        text.extend_from_slice(l);
    }
    // the whole file written through one writer must be the same bytes
    let whole = guarded(out, "sam writer", || -> std::io::Result<Vec<u8>> {
        let mut w = sam::io::Writer::new(Vec::new());
        w.write_header(&h)?;
        for &i in &acc {
            w.write_alignment_record(&h, &rbs[i])?;
        }
        Ok(w.into_inner())
    });
    match whole {
        None => return,
        Some(Ok(t)) if t == text => {}
        Some(Ok(_)) => out.violation("sam:file-ne-concatenated-lines", "one writer over the whole file emits other bytes than record-wise writers"),
        Some(Err(e)) => out.violation("sam:file-write-fails", format!("records accepted one by one are rejected in sequence: {e}")),
    }

    // (iii) third opinion on every line
    for (k, &i) in acc.iter().enumerate() {
        let d = &descs[i];
        let line = &lines[k];
        let Some(body) = line.strip_suffix(b"\n") else {
            out.violation("line:no-newline", format!("record line does not end with LF: {}", lossy(line)));
            continue;
        };
        if body.contains(&b'\n') || body.contains(&b'\r') {
            out.violation("line:inner-newline", format!("record line contains a line break: {}", lossy(line)));
            continue;
        }
        let cols: Vec<&[u8]> = body.split(|b| *b == b'\t').collect();
        let want = sam_columns(d, &hd);
        out.count("lines_checked_independently", 1);
        if cols.len() != want.len() {
            out.violation_with(
                "line:column-count",
                format!("{} columns, expected {} ({}): {}", cols.len(), want.len(), summary(d), lossy(line)),
                json!({"record": i}),
            );
            continue;
        }
        for j in 0..want.len() {
            if j >= 11 && !aux_text_is_canonical(&d.aux[j - 11].1) {
                continue; // floats: judged by value below
            }
            let mut ok = cols[j] == &want[j][..];
            if !ok && j == 6 && d.mate_ref_id.is_some() && d.mate_ref_id == d.ref_id {
                // "=" is optional: the full name says the same
                ok = cols[j] == cols[2];
                out.count("rnext_spelled_out", 1);
            }
            if !ok {
                let t = if j >= 11 { format!("aux:{}", d.aux[j - 11].1.type_code()) } else { COLS[j].to_string() };
                out.violation_with(
                    format!("line:column:{t}"),
                    format!("column {} is {:?}, the description says {:?}; record: {}", j + 1, lossy(cols[j]), lossy(&want[j]), summary(d)),
                    json!({"record": i}),
                );
            }
        }
        match parse_sam_line(line, &hd) {
            Err(e) => out.violation_with("line:independent-reader-rejects", format!("dumb SAM reader: {e}; line: {}", lossy(line)), json!({"record": i})),
            Ok(p) => {
                if let Some(df) = diff_records(&sam_normal_form(d), &p, &Cmp::TEXT) {
                    out.violation_with(
                        format!("line:independent-reader:{}", df.field),
                        format!("the emitted line says something else in {}: {}; line: {}", df.field, df.detail, lossy(line)),
                        json!({"record": i}),
                    );
                }
            }
        }
    }

    // (i) parse back eagerly
    let Some(sf) = guarded(out, "sam reader", || read_sam_eager(&text)) else { return };
    let sf = match sf {
        Ok(x) => x,
        Err(e) => {
            out.violation(format!("sam:parse-fails:{}", e.split('#').next().unwrap_or("?").trim()), format!("noodles cannot parse its own SAM text: {e}"));
            return;
        }
    };
    if describe_header(&sf.header) != hd {
        out.violation("header:parse-write-ne:in-file", "header read from the SAM file != header written");
    }
    if sf.eager.len() != acc.len() {
        out.violation("sam:record-count", format!("{} records written, {} parsed", acc.len(), sf.eager.len()));
        return;
    }
    let sdescs: Vec<RecDesc> = sf.eager.iter().map(describe_record).collect();
    for (k, &i) in acc.iter().enumerate() {
        out.count("compared_parse_write", 1);
        if let Some(df) = diff_records(&sam_normal_form(&descs[i]), &sdescs[k], &Cmp::TEXT) {
            out.violation_with(
                format!("parse-write-ne:{}", df.field),
                format!("parse(write(record)) differs in {}: {}; line: {}", df.field, df.detail, lossy(&lines[k])),
                json!({"record": i}),
            );
        }
    }
    // (i) lazily
    let Some(lz) = guarded(out, "sam lazy reader", || read_sam_lazy(&text)) else { return };
    let lz = match lz {
        Ok(v) if v.len() == acc.len() => v,
        Ok(v) => {
            out.violation("lazy-sam:record-count", format!("{} records written, {} read lazily", acc.len(), v.len()));
            return;
        }
        Err(e) => {
            out.violation(format!("lazy-sam:read-fails:{}", e.split('#').next().unwrap_or("?").trim()), format!("read_record fails on noodles' own text: {e}"));
            return;
        }
    };
    // records whose lazy view is unusable are left out of the pipelines below
    let mut lazy_ok = vec![true; lz.len()];
    for (k, rec) in lz.iter().enumerate() {
        let i = acc[k];
        out.count("compared_lazy_sam", 1);
        let views = [
            ("trait", guard::catch(|| describe_alignment_record(rec, &sf.header))),
            ("try_from_alignment_record", guard::catch(|| RecordBuf::try_from_alignment_record(&sf.header, rec).map(|rb| describe_record(&rb)).map_err(|e| format!("convert: {e}")))),
        ];
        for (path, v) in views {
            match v {
                Err(p) => {
                    lazy_ok[k] = false;
                    out.violation_with(format!("panic:{}", p.sig), format!("lazy sam::Record ({path}) panicked: {}", p.message), json!({"record": i}));
                }
                Ok(Err(msg)) => {
                    lazy_ok[k] = false;
                    // diagnostic class: an empty B array followed by another field
                    let d = &descs[i];
                    let empty_not_last = d.aux.iter().enumerate().any(|(j, a)| a.1.array_len() == Some(0) && j + 1 < d.aux.len());
                    let sig = if msg.contains("invalid delimiter") && empty_not_last {
                        "lazy-sam:data-fails:empty-array-followed-by-field".to_string()
                    } else {
                        format!("lazy-sam:{path}:accessor-fails:{}", msg.split(':').next().unwrap_or("?"))
                    };
                    out.violation_with(sig, format!("lazy sam::Record ({path}) of noodles' own line fails: {msg}; line: {}", lossy(&lines[k])), json!({"record": i}));
                }
                Ok(Ok(l)) => {
                    if let Some(df) = diff_records(&sam_normal_form(&descs[i]), &l, &Cmp::TEXT) {
                        out.violation_with(
                            format!("lazy-sam:{path}:{}", df.field),
                            format!("lazy sam::Record ({path}) differs from the written record in {}: {}; line: {}", df.field, df.detail, lossy(&lines[k])),
                            json!({"record": i}),
                        );
                    }
                }
            }
        }
    }

    // (i-b) the same text read through ONE reader with ONE reused buffer / lazy record
    if let Some(ru) = guarded(out, "sam reader (reused buffer)", || read_sam_reused(&text)) {
        let exp: Vec<RecDesc> = acc.iter().map(|&i| sam_normal_form(&descs[i])).collect();
        judge_reused(out, "sam", &ru, &exp, &Cmp::TEXT, &|k| lossy(&lines[k]), &|k| !lazy_ok.get(k).copied().unwrap_or(true), &|_, _| false);
    }

    // (ii) fixed point, eager and lazy
    for (k, rb) in sf.eager.iter().enumerate() {
        out.count("fixed_point_checked", 1);
        match guarded(out, "sam writer", || sam_line(&sf.header, rb)) {
            None => return,
            Some(Ok(l2)) if l2 == lines[k] => {}
            Some(Ok(l2)) => {
                let (_, j, a, b) = text_diff(&lines[k], &l2, false).into_iter().next().unwrap_or((0, usize::MAX, Vec::new(), Vec::new()));
                let (a, b) = (lossy(&a), lossy(&b));
                let t = if j != usize::MAX && j >= 11 { format!("aux:{}", descs[acc[k]].aux.get(j - 11).map(|a| a.1.type_code()).unwrap_or("?")) } else { col_name(j) };
                out.violation_with(format!("not-a-fixed-point:{t}"), format!("write(parse(line)) != line in column {}: {a:?} became {b:?}", j.wrapping_add(1)), json!({"record": acc[k]}));
            }
            Some(Err(e)) => out.violation_with(format!("rewrite-fails:{}", reason(&e)), format!("a parsed record cannot be written again: {e}; line: {}", lossy(&lines[k])), json!({"record": acc[k]})),
        }
        if !lazy_ok[k] {
            continue;
        }
        let l3 = guarded(out, "sam writer (lazy record)", || {
            let mut w = sam::io::Writer::new(Vec::new());
            w.write_record(&sf.header, &lz[k]).map(|_| w.into_inner())
        });
        match l3 {
            None => return,
            Some(Ok(l3)) if l3 == lines[k] => {}
            Some(Ok(l3)) => {
                let (_, j, a, b) = text_diff(&lines[k], &l3, false).into_iter().next().unwrap_or((0, usize::MAX, Vec::new(), Vec::new()));
                let (a, b) = (lossy(&a), lossy(&b));
                out.violation_with(format!("lazy-sam:not-a-fixed-point:{}", col_name(j)), format!("write_record(lazy(line)) != line in column {}: {a:?} became {b:?}", j.wrapping_add(1)), json!({"record": acc[k]}));
            }
            Some(Err(e)) => out.violation_with(format!("lazy-sam:rewrite-fails:{}", reason(&e)), format!("a lazy record cannot be written again: {e}; line: {}", lossy(&lines[k])), json!({"record": acc[k]})),
        }
    }

    // (iv) the same record set as BAM
    let acc_rbs: Vec<RecordBuf> = acc.iter().map(|&i| rbs[i].clone()).collect();
    let Some(wb) = guarded(out, "bam writer", || write_bam(bgzf, &h, &acc_rbs)) else { return };
    let (bfile, bres) = match wb {
        Ok(x) => x,
        Err(e) => {
            out.count(&format!("bam_writer_rejects_header[{e}]"), 1);
            out.inconclusive.push(format!("BAM writer rejects the header: {e}"));
            return;
        }
    };
    // positions (into acc) of the records both formats accepted
    let both: Vec<usize> = (0..acc.len()).filter(|&k| bres[k].is_ok()).collect();
    for r in bres.iter().filter_map(|r| r.as_ref().err()) {
        out.count(&format!("rejected_by_bam_writer[{r}]"), 1);
    }
    let Some(rb) = guarded(out, "bam reader", || read_bam_eager(bgzf, &bfile)) else { return };
    let (hb, brecs) = match rb {
        Ok(x) => x,
        Err(e) => {
            let long = descs.iter().any(|d| d.cigar.len() > 65_535);
            out.violation(format!("bam:read-fails:{}{}", e.split('#').next().unwrap_or("?").trim(), if long { ":long-cigar-batch" } else { "" }), format!("the BAM rendering cannot be read back: {e}"));
            return;
        }
    };
    if describe_header(&hb) != describe_header(&sf.header) {
        out.violation("header:bam-ne-sam:in-file", "header read from BAM != header read from SAM");
    }
    if brecs.len() != both.len() {
        out.violation("bam:record-count", format!("{} accepted by the BAM writer, {} read back", both.len(), brecs.len()));
        return;
    }
    let bdescs: Vec<RecDesc> = brecs.iter().map(describe_record).collect();
    for (j, &k) in both.iter().enumerate() {
        out.count("compared_sam_vs_bam", 1);
        // QUAL of the single score 9 is '*' in SAM text: the BAM side is put into the same normal form
        if let Some(df) = diff_records(&bam_normal_form(&sdescs[k]), &sam_normal_form(&bdescs[j]), &Cmp::TEXT) {
            out.violation_with(
                format!("sam-ne-bam:{}", df.field),
                format!("the record read from BAM differs from the one read from SAM in {}: {}; SAM line: {}", df.field, df.detail, lossy(&lines[k])),
                json!({"record": acc[k]}),
            );
        }
    }

    // (iv-b) the BAM file read through ONE reader with ONE reused buffer / lazy record
    if let Some(ru) = guarded(out, "bam reader (reused buffer)", || read_bam_reused(bgzf, &bfile)) {
        let exp: Vec<RecDesc> = both.iter().map(|&k| bam_normal_form(&descs[acc[k]])).collect();
        // the CG carrier a lazy long-CIGAR record keeps is reported by the pipelines (known finding)
        let long_cg = |j: usize, field: &str| field == "aux:count" && exp[j].cigar.len() > 65_535;
        judge_reused(out, "bam", &ru, &exp, &Cmp::EXACT, &|j| summary(&exp[j]), &|_| false, &long_cg);
    }

    // pipelines. The reference text: the lines both writers accepted and whose lazy view works.
    let pipe: Vec<usize> = both.iter().copied().filter(|&k| lazy_ok[k]).collect();
    let mut ref_text = htext.clone();
    for &k in &pipe {
        ref_text.extend_from_slice(&lines[k]);
    }
    // the BAM rendering of exactly these records (eager values, declared widths)
    let pipe_rbs: Vec<RecordBuf> = pipe.iter().map(|&k| rbs[acc[k]].clone()).collect();
    let Some(Ok((pfile, _))) = guarded(out, "bam writer", || write_bam(bgzf, &h, &pipe_rbs)) else { return };
    let Some(Ok((_, precs))) = guarded(out, "bam reader", || read_bam_eager(bgzf, &pfile)) else {
        out.inconclusive.push("pipeline BAM file unreadable (already reported by the BAM comparison)".into());
        return;
    };
    let pdescs: Vec<RecDesc> = precs.iter().map(describe_record).collect();
    for via_buf in [false, true] {
        let tag = if via_buf { "via-record-buf" } else { "direct" };
        // SAM -> BAM -> SAM
        let r = guarded(out, "SAM->BAM->SAM", || -> Result<Vec<u8>, String> {
            let bfile = if via_buf {
                let v: Vec<RecordBuf> = pipe.iter().map(|&k| RecordBuf::try_from_alignment_record(&sf.header, &lz[k]).map_err(|e| format!("convert sam->buf: {e}"))).collect::<Result<_, _>>()?;
                let (f, res) = write_bam(bgzf, &sf.header, &v)?;
                if let Some(e) = res.iter().find_map(|r| r.as_ref().err()) {
                    return Err(format!("bam writer rejects a converted record: {e}"));
                }
                f
            } else {
                let v: Vec<&sam::Record> = pipe.iter().map(|&k| &lz[k]).collect();
                let (f, res) = write_bam(bgzf, &sf.header, &v.iter().map(|r| RecAdapter(*r)).collect::<Vec<_>>())?;
                if let Some(e) = res.iter().find_map(|r| r.as_ref().err()) {
                    return Err(format!("bam writer rejects a lazy SAM record: {e}"));
                }
                f
            };
            let (hb, _) = read_bam_eager(bgzf, &bfile).or_else(|e| {
                // the header alone, if a record is unreadable
                if bgzf { bam::io::Reader::new(&bfile[..]).read_header() } else { bam::io::Reader::from(&bfile[..]).read_header() }.map(|h| (h, Vec::new())).map_err(|_| e)
            })?;
            let lb = read_bam_lazy(bgzf, &bfile)?;
            let mut t = sam_header_text(&hb).map_err(|e| format!("write header: {e}"))?;
            for rec in &lb {
                let l = if via_buf {
                    let b = RecordBuf::try_from_alignment_record(&hb, rec).map_err(|e| format!("convert bam->buf: {e}"))?;
                    sam_line(&hb, &b)
                } else {
                    sam_line(&hb, rec)
                }
                .map_err(|e| format!("sam writer rejects a BAM record: {}", reason(&e)))?;
                t.extend_from_slice(&l);
            }
            Ok(t)
        });
        match r {
            None => return,
            Some(Err(e)) => out.violation(format!("sam-bam-sam:{tag}:fails:{}", guard::normalise_message(&e).chars().take(50).collect::<String>()), format!("SAM->BAM->SAM ({tag}) fails: {e}")),
            Some(Ok(t)) => {
                out.count(&format!("pipeline_sam_bam_sam[{tag}]"), pipe.len() as u64);
                for (ln, j, a, b) in text_diff(&ref_text, &t, true) {
                    let extra_cg = j == usize::MAX && a.split(|c| *c == b'\t').nth(5).map(|c| c.iter().filter(|x| !x.is_ascii_digit()).count() > 65_535).unwrap_or(false) && only_extra_cg_column(&a, &b);
                    let sig = if extra_cg { "sam-bam-sam:extra-CG-field-of-long-cigar".to_string() } else { format!("sam-bam-sam:{tag}:{}", col_name(j)) };
                    out.violation(sig, format!("SAM->BAM->SAM ({tag}) changes line {ln}, {}: {:?} became {:?}", col_name(j), lossy(&a), lossy(&b[b.len().saturating_sub(300)..])));
                }
            }
        }
        // BAM -> SAM -> BAM
        let r = guarded(out, "BAM->SAM->BAM", || -> Result<Vec<RecordBuf>, String> {
            let lb = read_bam_lazy(bgzf, &pfile)?;
            let mut t = sam_header_text(&hb).map_err(|e| format!("write header: {e}"))?;
            for rec in &lb {
                let l = if via_buf {
                    let b = RecordBuf::try_from_alignment_record(&hb, rec).map_err(|e| format!("convert bam->buf: {e}"))?;
                    sam_line(&hb, &b)
                } else {
                    sam_line(&hb, rec)
                }
                .map_err(|e| format!("sam writer rejects a BAM record: {}", reason(&e)))?;
                t.extend_from_slice(&l);
            }
            let h2 = sam::io::Reader::new(&t[..]).read_header().map_err(|e| format!("read sam header: {e}"))?;
            let ls = read_sam_lazy(&t)?;
            let (f2, res) = if via_buf {
                let v: Vec<RecordBuf> = ls.iter().map(|r| RecordBuf::try_from_alignment_record(&h2, r).map_err(|e| format!("convert sam->buf: {e}"))).collect::<Result<_, _>>()?;
                write_bam(!bgzf, &h2, &v)?
            } else {
                write_bam(!bgzf, &h2, &ls)?
            };
            if let Some(e) = res.iter().find_map(|r| r.as_ref().err()) {
                return Err(format!("bam writer rejects a record that came from BAM: {e}"));
            }
            let (h3, v) = read_bam_eager(!bgzf, &f2)?;
            if describe_header(&h3) != describe_header(&hb) {
                return Err("header changed".into());
            }
            Ok(v)
        });
        match r {
            None => return,
            Some(Err(e)) => {
                let long = pipe.iter().any(|&k| descs[acc[k]].cigar.len() > 65_535);
                // an empty array that is followed by a field in the SAM rendering of the BAM record:
                // by the next generated field, or by the CG field a long CIGAR leaves behind
                let empty_arr = pipe.iter().any(|&k| {
                    let d = &descs[acc[k]];
                    d.aux.iter().enumerate().any(|(j, a)| a.1.array_len() == Some(0) && (j + 1 < d.aux.len() || d.cigar.len() > 65_535))
                });
                let class = if e.contains("invalid delimiter") && empty_arr {
                    "lazy-sam-empty-array".to_string()
                } else if long && e.contains("duplicate tag") {
                    "long-cigar-duplicate-CG".to_string()
                } else {
                    guard::normalise_message(&e).chars().take(50).collect()
                };
                let sig = if class == "lazy-sam-empty-array" { format!("bam-sam-bam:fails:{class}") } else { format!("bam-sam-bam:{tag}:fails:{class}") };
                out.violation(sig, format!("BAM->SAM->BAM ({tag}) fails: {e}"));
            }
            Some(Ok(v)) => {
                out.count(&format!("pipeline_bam_sam_bam[{tag}]"), v.len() as u64);
                if v.len() != precs.len() {
                    out.violation(format!("bam-sam-bam:{tag}:record-count"), format!("{} records became {}", precs.len(), v.len()));
                } else {
                    for (j, rb2) in v.iter().enumerate() {
                        if let Some(df) = diff_records(&sam_normal_form(&pdescs[j]), &describe_record(rb2), &Cmp::TEXT) {
                            let long = pdescs[j].cigar.len() > 65_535;
                            let sig = if long && df.field == "aux:count" { "bam-sam-bam:extra-CG-field-of-long-cigar".to_string() } else { format!("bam-sam-bam:{tag}:{}", df.field) };
                            out.violation_with(sig, format!("BAM->SAM->BAM ({tag}) changes {}: {}; record: {}", df.field, df.detail, summary(&pdescs[j])), json!({"record": acc[pipe[j]]}));
                        }
                    }
                }
            }
        }
    }
    if idx % 23 == 0 {
        out.sample = Some(json!({"case": case_json(c), "header_lines": htext.iter().filter(|b| **b == b'\n').count(),
            "records": descs.len(), "first_line": lines.first().map(|l| lossy(l))}));
    }
}

fn run_headers(c: &Case, idx: u64, out: &mut CaseOut) {
    let mut rng = Rng::new(c.cseed, 0xC06, 2);
    out.evaluations = c.n as u64;
    for k in 0..c.n {
        let mut o = HeaderOpts::full();
        if k % 25 == 0 {
            o.max_refs = 400;
        }
        let hd = gen_header(&mut rng, &o);
        out.fps.push(fnv1a(header_class(&hd).as_bytes()));
        let t = check_header(out, &hd, k % 2 == 0);
        if idx % 29 == 0 && k == 0 {
            out.sample = Some(json!({"case": case_json(c), "header_text": t.map(|t| lossy(&t))}));
        }
    }
}

fn main() {
    let ctx = Ctx::from_args();
    let ctx = vcore::cases::replay_request(&ctx).map(|r| r.1).unwrap_or(ctx);
    let mut rep = Report::new(
        "record case = generated header + batch of records of gensam's SAM-text model (names over [!-?A-~] 1..254 or *, 12 flag bits, POS up to \
         2^31-1, MAPQ 0..255, CIGARs of 0..2000 and 65535..70000 operations over 9 kinds, SEQ over [A-Za-z=.] or *, QUAL present/missing, '=' / \
         other / missing mate reference, aux A i(6 widths) f Z H B:cCsSiIf at range edges incl. empty arrays, -0, subnormals); header case = 100 \
         generated headers (0..400 @SQ, @HD versions, @RG/@PG with PP chains/@CO incl. TABs and UTF-8, standard + user tags); deterministic \
         boundary corpus and adjacency corpus (rich -> missing -> rich, long -> short -> long neighbours for every optional part) + \
         VERIF_SEED-seeded random part in which every ~6th record is followed by a stripped variant; every SAM and BAM file is also read \
         through ONE reader with ONE reused buffer (read_record_buf loop, record_bufs(), read_record loop, records(), \
         try_clone_from_alignment_record into one target); evaluation = one record or one header; distinct = distinct gensam::rec_class / aux \
         type class of a record the SAM writer accepted, plus distinct header classes (line kinds present, counts 0/1/few/many, user tags, PP); \
         non-trivial = all (every accepted value is parsed back eagerly and lazily, re-written, checked against the independent rendering, \
         and pushed through BAM)",
    );
    rep.assumptions.push("oracles: the generator's description; gensam's SAM line/header renderer and dumb readers written from SAMv1 1.3-1.5 (floats through Rust's std parser); noodles' own inverse implementation".into());
    rep.assumptions.push("tolerances, all format-inherent: integers compared by value (SAM has one integer type); MAPQ 255 = missing; QUAL of the single score 9 prints as '*' and reads as missing; bases compared in BAM 4-bit normal form (upper case, non-alphabet -> N) whenever a BAM hop is involved; RNEXT may be '=' or the spelled-out RNAME; header equality is ordered (lines per kind and tags per line in order), the relative order of line kinds is not part of the typed header".into());
    rep.assumptions.push("not generated: non-finite floats, TAB/LF in strings, tag CG, CIGAR lengths >= 2^28 (no BAM encoding), duplicate tags".into());
    let cases = gen_cases(&ctx);
    let f = |i: u64| -> CaseOut {
        let c = &cases[i as usize];
        let mut out = CaseOut::new();
        if c.kind == "headers" { run_headers(c, i, &mut out) } else { run_records(c, i, &mut out) }
        out
    };
    run_cases(&ctx, &mut rep, cases.len() as u64, 120.0, &f, &|i| case_json(&cases[i as usize]));
    if ctx.replay.is_none() {
        let counters = rep.counters.clone();
        let g = |k: &str| counters.get(k).copied().unwrap_or(0);
        let want = ctx.budget("records", 20_000, 1_000_000) * 8 / 10;
        rep.floor("records_written_as_sam", g("records_written_as_sam"), want);
        rep.floor("compared_parse_write", g("compared_parse_write"), want);
        rep.floor("compared_lazy_sam", g("compared_lazy_sam"), want);
        rep.floor("fixed_point_checked", g("fixed_point_checked"), want);
        rep.floor("lines_checked_independently", g("lines_checked_independently"), want);
        rep.floor("compared_sam_vs_bam", g("compared_sam_vs_bam"), want);
        for f in ["sam", "bam"] {
            for p in ["read_record_buf", "record_bufs", "read_record", "records", "try_clone_from_alignment_record"] {
                rep.floor(&format!("compared_reused[{f}:{p}]"), g(&format!("compared_reused[{f}:{p}]")), want);
            }
        }
        rep.floor("pipeline_sam_bam_sam[direct]", g("pipeline_sam_bam_sam[direct]"), want / 2);
        rep.floor("pipeline_bam_sam_bam[direct]", g("pipeline_bam_sam_bam[direct]"), want / 2);
        rep.floor("headers_written", g("headers_written"), ctx.budget("headers", 2_000, 50_000) * 8 / 10);
        rep.floor("headers_compared_sam_vs_bam", g("headers_compared_sam_vs_bam"), ctx.budget("headers", 2_000, 50_000) * 8 / 10);
    }
    rep.finish(&ctx);
}
