//! C06 — stub (to be implemented).

fn main() {
    eprintln!("c06: not implemented");
    std::process::exit(2);
}
