//! tokio runtimes (current-thread and 4-worker multi-thread), panic capture on whatever thread polls the future, and a
//! generous wall-clock timeout whose firing is inconclusive.

use std::{
    future::Future,
    pin::Pin,
    task::{Context, Poll},
    time::Duration,
};

use vcore::guard::{self, PanicInfo};

#[derive(Clone, Copy, Debug, PartialEq, Eq)]
pub enum Flavor {
    /// `new_current_thread`; the future is driven by `block_on` on the case thread
    Ct,
    /// `new_multi_thread().worker_threads(4)`; the future is `spawn`ed, i.e. polled by (and migrating between) the workers
    Mt4,
}

impl Flavor {
    pub fn name(self) -> &'static str {
        match self {
            Flavor::Ct => "ct",
            Flavor::Mt4 => "mt4",
        }
    }
}

#[derive(Debug)]
pub enum RunErr {
    Panic(PanicInfo),
    Timeout,
    Runtime(String),
}

/// Catches a panic raised by any single poll, on the thread that polls.
struct Guarded<F>(Pin<Box<F>>);

impl<F: Future> Future for Guarded<F> {
    type Output = Result<F::Output, PanicInfo>;
    fn poll(mut self: Pin<&mut Self>, cx: &mut Context<'_>) -> Poll<Self::Output> {
        let inner = &mut self.0;
        match guard::catch(|| inner.as_mut().poll(cx)) {
            Ok(Poll::Ready(v)) => Poll::Ready(Ok(v)),
            Ok(Poll::Pending) => Poll::Pending,
            Err(p) => Poll::Ready(Err(p)),
        }
    }
}

pub fn timeout_s() -> u64 {
    static T: std::sync::OnceLock<u64> = std::sync::OnceLock::new();
    *T.get_or_init(|| std::env::var("C16_TIMEOUT_S").ok().and_then(|s| s.parse().ok()).unwrap_or(120))
}

/// Runs a `Send + 'static` future to completion on a fresh runtime of the given flavour.
pub fn run<T, F>(flavor: Flavor, fut: F) -> Result<T, RunErr>
where
    F: Future<Output = T> + Send + 'static,
    T: Send + 'static,
{
    let limit = Duration::from_secs(timeout_s());
    let rt = match flavor {
        Flavor::Ct => tokio::runtime::Builder::new_current_thread().enable_time().build(),
        Flavor::Mt4 => tokio::runtime::Builder::new_multi_thread().worker_threads(4).enable_time().build(),
    };
    let rt = match rt {
        Ok(rt) => rt,
        Err(e) => return Err(RunErr::Runtime(format!("cannot build runtime: {e}"))),
    };
    let res = match flavor {
        Flavor::Ct => match guard::catch(|| rt.block_on(async { tokio::time::timeout(limit, Guarded(Box::pin(fut))).await })) {
            Err(p) => Err(RunErr::Panic(p)),
            Ok(Err(_elapsed)) => Err(RunErr::Timeout),
            Ok(Ok(Err(p))) => Err(RunErr::Panic(p)),
            Ok(Ok(Ok(v))) => Ok(v),
        },
        Flavor::Mt4 => {
            let r = guard::catch(|| rt.block_on(async { tokio::time::timeout(limit, tokio::spawn(Guarded(Box::pin(fut)))).await }));
            match r {
                Err(p) => Err(RunErr::Panic(p)),
                Ok(Err(_elapsed)) => Err(RunErr::Timeout),
                Ok(Ok(Err(join))) => Err(RunErr::Runtime(format!("join error: {join}"))),
                Ok(Ok(Ok(Err(p)))) => Err(RunErr::Panic(p)),
                Ok(Ok(Ok(Ok(v)))) => Ok(v),
            }
        }
    };
    // blocking tasks that were started are waited for (they only sleep for the planned delays)
    rt.shutdown_timeout(Duration::from_secs(10));
    res
}

/// For futures that are not `Send` (the async record writers hold a `&dyn Record` across an await): the future is
/// driven by `block_on` on the case thread in both flavours; on the multi-thread runtime the blocking pool and the
/// wake-ups still come from other threads.
pub fn run_local<T, F>(flavor: Flavor, fut: F) -> Result<T, RunErr>
where
    F: Future<Output = T>,
{
    let limit = Duration::from_secs(timeout_s());
    let rt = match flavor {
        Flavor::Ct => tokio::runtime::Builder::new_current_thread().enable_time().build(),
        Flavor::Mt4 => tokio::runtime::Builder::new_multi_thread().worker_threads(4).enable_time().build(),
    };
    let rt = match rt {
        Ok(rt) => rt,
        Err(e) => return Err(RunErr::Runtime(format!("cannot build runtime: {e}"))),
    };
    let res = match guard::catch(|| rt.block_on(async { tokio::time::timeout(limit, Guarded(Box::pin(fut))).await })) {
        Err(p) => Err(RunErr::Panic(p)),
        Ok(Err(_elapsed)) => Err(RunErr::Timeout),
        Ok(Ok(Err(p))) => Err(RunErr::Panic(p)),
        Ok(Ok(Ok(v))) => Ok(v),
    };
    rt.shutdown_timeout(Duration::from_secs(10));
    res
}
