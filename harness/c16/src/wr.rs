//! Async write histories: call-for-call mirrors of `corpus::write::write_prepared` over the async writers, finished
//! with `shutdown()`.

use std::io;

use corpus::{BgzfOp, Kind, Model, Prepared};
use noodles_bam as bam;
use noodles_bcf as bcf;
use noodles_bgzf as bgzf;
use noodles_cram as cram;
use noodles_csi as csi;
use noodles_fasta as fasta;
use noodles_fastq as fastq;
use noodles_sam as sam;
use noodles_tabix as tabix;
use noodles_vcf as vcf;
use tokio::io::{AsyncWrite, AsyncWriteExt};
use vcore::aadv::PollWrite;

use crate::rd::nz;

/// Kinds that have an async writer.
pub fn has_async_writer(kind: Kind) -> bool {
    !matches!(kind, Kind::Gff | Kind::Gtf | Kind::Bed | Kind::FastqFai)
}

/// The async writer of this kind sits on a BGZF writer whose worker count (and level) can be chosen.
pub fn has_worker_count(kind: Kind) -> bool {
    matches!(kind, Kind::Bgzf | Kind::Bam | Kind::Bcf | Kind::SamGz | Kind::VcfGz)
}

/// Output is compressed (BGZF members / gzip / CRAM blocks): compare what it decodes to, not the bytes.
pub fn output_is_compressed(kind: Kind) -> bool {
    matches!(kind, Kind::Bgzf | Kind::Bam | Kind::Bcf | Kind::SamGz | Kind::VcfGz | Kind::Csi | Kind::Tbi | Kind::Cram | Kind::Crai)
}

pub fn level(l: u8) -> bgzf::io::writer::CompressionLevel {
    bgzf::io::writer::CompressionLevel::new(l).unwrap()
}

pub fn bgzf_writer<W: AsyncWrite + Unpin>(sink: W, workers: usize, lvl: Option<u8>) -> bgzf::r#async::io::Writer<W> {
    let mut b = bgzf::r#async::io::writer::Builder::default().set_worker_count(nz(workers));
    if let Some(l) = lvl {
        b = b.set_compression_level(level(l));
    }
    b.build_from_writer(sink)
}

/// Sync twin for `Kind::Bgzf` at an explicit level (the corpus history uses the default level only).
pub fn sync_bgzf_history(payload: &[u8], ops: &[BgzfOp], lvl: Option<u8>) -> io::Result<Vec<u8>> {
    use std::io::Write;
    let mut b = bgzf::io::writer::Builder::default();
    if let Some(l) = lvl {
        b = b.set_compression_level(level(l));
    }
    let mut w = b.build_from_writer(Vec::new());
    let mut off = 0usize;
    for op in ops {
        match *op {
            BgzfOp::Write(n) => {
                let end = (off + n).min(payload.len());
                w.write_all(&payload[off..end])?;
                off = end;
            }
            BgzfOp::Flush => w.flush()?,
        }
    }
    if off < payload.len() {
        w.write_all(&payload[off..])?;
    }
    w.finish()
}

pub async fn write_async(p: &Prepared, sink: PollWrite, workers: usize, lvl: Option<u8>) -> io::Result<()> {
    let every = p.flush_every;
    let due = |i: usize| every > 0 && (i + 1) % every == 0;

    match (&p.model, p.kind) {
        (Model::Alignment { header, records }, Kind::Bam) => {
            let mut w = bam::r#async::io::Writer::from(bgzf_writer(sink, workers, lvl));
            w.write_header(header).await?;
            for (i, r) in records.iter().enumerate() {
                w.write_alignment_record(header, r).await?;
                if due(i) {
                    w.get_mut().flush().await?;
                }
            }
            w.shutdown().await
        }
        (Model::Alignment { header, records }, Kind::BamRaw) => {
            let mut w = bam::r#async::io::Writer::from(sink);
            w.write_header(header).await?;
            for r in records {
                w.write_alignment_record(header, r).await?;
            }
            w.shutdown().await
        }
        (Model::Alignment { header, records }, Kind::Cram) => {
            let mut w = cram::r#async::io::writer::Builder::default().set_reference_sequence_repository(p.repository.clone()).build_from_writer(sink);
            w.write_header(header).await?;
            for r in records {
                w.write_alignment_record(header, r).await?;
            }
            w.shutdown(header).await?;
            w.get_mut().shutdown().await
        }
        (Model::Alignment { header, records }, Kind::Sam) => {
            let mut w = sam::r#async::io::Writer::new(sink);
            w.write_header(header).await?;
            for r in records {
                w.write_alignment_record(header, r).await?;
            }
            w.get_mut().shutdown().await
        }
        (Model::Alignment { header, records }, Kind::SamGz) => {
            let mut w = sam::r#async::io::Writer::new(bgzf_writer(sink, workers, lvl));
            w.write_header(header).await?;
            for (i, r) in records.iter().enumerate() {
                w.write_alignment_record(header, r).await?;
                if due(i) {
                    w.get_mut().flush().await?;
                }
            }
            w.get_mut().shutdown().await
        }
        (Model::Variant { header, records }, Kind::Vcf) => {
            let mut w = vcf::r#async::io::Writer::new(sink);
            w.write_header(header).await?;
            for r in records {
                w.write_variant_record(header, r).await?;
            }
            w.shutdown().await
        }
        (Model::Variant { header, records }, Kind::VcfGz) => {
            let mut w = vcf::r#async::io::Writer::new(bgzf_writer(sink, workers, lvl));
            w.write_header(header).await?;
            for (i, r) in records.iter().enumerate() {
                w.write_variant_record(header, r).await?;
                if due(i) {
                    w.get_mut().flush().await?;
                }
            }
            w.shutdown().await
        }
        (Model::Variant { header, records }, Kind::Bcf) => {
            let mut w = bcf::r#async::io::Writer::from(bgzf_writer(sink, workers, lvl));
            w.write_header(header).await?;
            for (i, r) in records.iter().enumerate() {
                w.write_variant_record(header, r).await?;
                if due(i) {
                    w.get_mut().flush().await?;
                }
            }
            w.get_mut().shutdown().await
        }
        (Model::Variant { header, records }, Kind::BcfRaw) => {
            let mut w = bcf::r#async::io::Writer::from(sink);
            w.write_header(header).await?;
            for r in records {
                w.write_variant_record(header, r).await?;
            }
            w.get_mut().shutdown().await
        }
        (Model::Bgzf { payload, ops }, Kind::Bgzf) => {
            let mut w = bgzf_writer(sink, workers, lvl);
            let mut off = 0usize;
            for op in ops {
                match *op {
                    BgzfOp::Write(n) => {
                        let end = (off + n).min(payload.len());
                        w.write_all(&payload[off..end]).await?;
                        off = end;
                    }
                    BgzfOp::Flush => w.flush().await?,
                }
            }
            if off < payload.len() {
                w.write_all(&payload[off..]).await?;
            }
            w.shutdown().await
        }
        (Model::Fasta(records), _) => {
            let mut w = fasta::r#async::io::Writer::new(sink);
            for r in records {
                w.write_record(r).await?;
            }
            w.get_mut().shutdown().await
        }
        (Model::Fastq(records), _) => {
            let mut w = fastq::r#async::io::Writer::new(sink);
            for r in records {
                w.write_record(r).await?;
            }
            w.get_mut().shutdown().await
        }
        (Model::Bai(index), _) => {
            let mut w = bam::bai::r#async::io::Writer::new(sink);
            w.write_index(index).await?;
            w.shutdown().await
        }
        (Model::Csi(index), _) => {
            let mut w = csi::r#async::io::Writer::new(sink);
            w.write_index(index).await?;
            w.shutdown().await
        }
        (Model::Tbi(index), _) => {
            let mut w = tabix::r#async::io::Writer::new(sink);
            w.write_index(index).await?;
            w.shutdown().await
        }
        (Model::Gzi(index), _) => {
            let mut w = bgzf::gzi::r#async::io::Writer::new(sink);
            w.write_index(index).await?;
            w.get_mut().shutdown().await
        }
        (Model::Fai(index), _) => {
            let mut w = fasta::fai::r#async::io::Writer::new(sink);
            w.write_index(index).await?;
            w.shutdown().await
        }
        (Model::Crai(index), _) => {
            let mut w = cram::crai::r#async::io::Writer::new(sink);
            w.write_index(index).await?;
            w.shutdown().await
        }
        _ => Err(io::Error::new(io::ErrorKind::Unsupported, "no async writer for this kind")),
    }
}
