//! Async transcript drivers: element-for-element mirrors of `corpus::read::drive` over the async readers.
//! Same rendering functions (`corpus::render`), same element order, same END / ERR:<kind> terminator.

use std::{io, num::NonZero};

use corpus::{
    BGZF_READ_PATTERN, BgzfReadOp, ByteDigest, Kind, Side, Variant,
    render::{self},
};
use futures::TryStreamExt;
use noodles_bam as bam;
use noodles_bcf as bcf;
use noodles_bgzf as bgzf;
use noodles_cram as cram;
use noodles_csi as csi;
use noodles_fasta as fasta;
use noodles_fastq as fastq;
use noodles_gff as gff;
use noodles_sam as sam;
use noodles_tabix as tabix;
use noodles_vcf as vcf;
use tokio::io::{AsyncBufRead, AsyncBufReadExt, AsyncRead, AsyncReadExt};
use vcore::aadv::PollRead;

pub struct T {
    pub out: Vec<String>,
}

impl T {
    pub fn new() -> Self {
        T { out: Vec::new() }
    }
    pub fn push(&mut self, s: String) {
        self.out.push(s);
    }
    pub fn end(mut self) -> Vec<String> {
        self.out.push("END".into());
        self.out
    }
    pub fn err(mut self, e: &io::Error) -> Vec<String> {
        // the message is kept after a separator that the comparison strips (diagnostics only)
        self.out.push(format!("ERR:{:?}\u{1e}{}", e.kind(), e));
        self.out
    }
}

/// Strips the diagnostic message from an `ERR:` element.
pub fn strip_msg(s: &str) -> &str {
    match s.find('\u{1e}') {
        Some(i) => &s[..i],
        None => s,
    }
}

pub fn nz(n: usize) -> NonZero<usize> {
    NonZero::new(n.max(1)).unwrap()
}

pub fn bgzf_reader<R: AsyncRead>(src: R, workers: usize) -> bgzf::r#async::io::Reader<R> {
    bgzf::r#async::io::reader::Builder::default().set_worker_count(nz(workers)).build_from_reader(src)
}

/// Which (kind, variant) pairs have an async reader.
pub fn async_variants(kind: Kind) -> &'static [Variant] {
    match kind {
        Kind::Bam | Kind::BamRaw | Kind::Cram | Kind::Sam | Kind::SamGz | Kind::Vcf | Kind::VcfGz | Kind::Fastq | Kind::Gff | Kind::Crai => {
            &[Variant::Primary, Variant::Eager]
        }
        Kind::Bgzf | Kind::Bcf | Kind::BcfRaw | Kind::Fasta | Kind::Bai | Kind::Csi | Kind::Tbi | Kind::Gzi | Kind::Fai => &[Variant::Primary],
        Kind::Gtf | Kind::Bed | Kind::FastqFai => &[],
    }
}

/// The async reader of this kind is built on a BGZF reader whose worker count can be chosen.
pub fn has_worker_count(kind: Kind) -> bool {
    matches!(kind, Kind::Bgzf | Kind::Bam | Kind::Bcf | Kind::SamGz | Kind::VcfGz)
}

/// BGZF inflate tasks run for this kind (CSI / tabix readers build their BGZF reader themselves).
pub fn uses_bgzf(kind: Kind) -> bool {
    has_worker_count(kind) || matches!(kind, Kind::Csi | Kind::Tbi)
}

pub const BUF_CAP: usize = corpus::DEFAULT_CAP;

pub async fn transcript(kind: Kind, variant: Variant, src: PollRead, side: Side, workers: usize) -> Vec<String> {
    match kind {
        Kind::Bgzf => drive_bgzf(src, workers).await,
        Kind::Bam => {
            let mut r = bam::r#async::io::Reader::from(bgzf_reader(src, workers));
            drive_bam(&mut r, |r| Some(u64::from(r.get_ref().virtual_position())), variant).await
        }
        Kind::BamRaw => {
            let mut r = bam::r#async::io::Reader::from(src);
            drive_bam(&mut r, |_| None, variant).await
        }
        Kind::Bcf => {
            let mut r = bcf::r#async::io::Reader::from(bgzf_reader(src, workers));
            drive_bcf(&mut r, |r| Some(u64::from(r.get_ref().virtual_position()))).await
        }
        Kind::BcfRaw => {
            let mut r = bcf::r#async::io::Reader::from(src);
            drive_bcf(&mut r, |_| None).await
        }
        Kind::Cram => drive_cram(src, side, variant).await,
        Kind::Sam => {
            let mut r = sam::r#async::io::Reader::new(tokio::io::BufReader::with_capacity(BUF_CAP, src));
            drive_sam(&mut r, |_| None, variant).await
        }
        Kind::SamGz => {
            let mut r = sam::r#async::io::Reader::new(bgzf_reader(src, workers));
            drive_sam(&mut r, |r| Some(u64::from(r.get_ref().virtual_position())), variant).await
        }
        Kind::Vcf => {
            let mut r = vcf::r#async::io::Reader::new(tokio::io::BufReader::with_capacity(BUF_CAP, src));
            drive_vcf(&mut r, |_| None, variant).await
        }
        Kind::VcfGz => {
            let mut r = vcf::r#async::io::Reader::new(bgzf_reader(src, workers));
            drive_vcf(&mut r, |r| Some(u64::from(r.get_ref().virtual_position())), variant).await
        }
        Kind::Fasta => drive_fasta(tokio::io::BufReader::with_capacity(BUF_CAP, src)).await,
        Kind::Fastq => drive_fastq(tokio::io::BufReader::with_capacity(BUF_CAP, src), variant).await,
        Kind::Gff => drive_gff(tokio::io::BufReader::with_capacity(BUF_CAP, src), variant).await,
        Kind::Bai => index_result(bam::bai::r#async::io::Reader::new(src).read_index().await),
        Kind::Csi => index_result(csi::r#async::io::Reader::new(src).read_index().await),
        Kind::Tbi => index_result(tabix::r#async::io::Reader::new(src).read_index().await),
        Kind::Gzi => index_result(bgzf::gzi::r#async::io::Reader::new(src).read_index().await),
        Kind::Fai => index_result(fasta::fai::r#async::io::Reader::new(tokio::io::BufReader::with_capacity(BUF_CAP, src)).read_index().await),
        Kind::Crai => match variant {
            Variant::Eager => index_result(cram::crai::r#async::io::Reader::new(src).read_index().await),
            _ => drive_crai_records(src).await,
        },
        Kind::Gtf | Kind::Bed | Kind::FastqFai => {
            let mut t = T::new();
            t.push("no async reader".into());
            t.end()
        }
    }
}

fn index_result<I: std::fmt::Debug>(r: io::Result<I>) -> Vec<String> {
    let mut t = T::new();
    match r {
        Ok(index) => {
            t.push(render::index_element(&index));
            t.end()
        }
        Err(e) => t.err(&e),
    }
}

async fn drive_bgzf(src: PollRead, workers: usize) -> Vec<String> {
    let mut t = T::new();
    let mut r = bgzf_reader(src, workers);
    let mut digest = ByteDigest::default();
    let mut buf = vec![0u8; 70000];
    let mut i = 0usize;
    let mut retries = 0usize;
    loop {
        let op = BGZF_READ_PATTERN[i % BGZF_READ_PATTERN.len()];
        let res: io::Result<usize> = match op {
            BgzfReadOp::Read(n) => r.read(&mut buf[..n]).await,
            BgzfReadOp::FillConsume(n) => match r.fill_buf().await {
                Ok(w) => {
                    let k = w.len().min(n);
                    buf[..k].copy_from_slice(&w[..k]);
                    r.consume(k);
                    Ok(k)
                }
                Err(e) => Err(e),
            },
        };
        match res {
            Ok(0) => return t.end(),
            Ok(n) => {
                retries = 0;
                i += 1;
                digest.update(&buf[..n]);
                t.push(digest.element());
                t.push(format!("V:{}", u64::from(r.virtual_position())));
            }
            Err(e) if e.kind() == io::ErrorKind::Interrupted && retries < 4096 => {
                retries += 1;
            }
            Err(e) => return t.err(&e),
        }
    }
}

async fn drive_bam<R: AsyncRead + Unpin>(
    r: &mut bam::r#async::io::Reader<R>,
    vpos: impl Fn(&bam::r#async::io::Reader<R>) -> Option<u64>,
    variant: Variant,
) -> Vec<String> {
    let mut t = T::new();
    let header = match r.read_header().await {
        Ok(h) => h,
        Err(e) => return t.err(&e),
    };
    t.push(format!("H:{}", render::sam_header(&header)));
    if let Some(v) = vpos(r) {
        t.push(format!("V:{v}"));
    }
    let mut lazy = bam::Record::default();
    let mut eager = sam::alignment::RecordBuf::default();
    loop {
        let res = match variant {
            Variant::Eager => r.read_record_buf(&header, &mut eager).await,
            _ => r.read_record(&mut lazy).await,
        };
        match res {
            Ok(0) => return t.end(),
            Ok(_) => {
                let s = match variant {
                    Variant::Eager => render::alignment_record(&header, &eager),
                    _ => render::alignment_record(&header, &lazy),
                };
                t.push(format!("R:{s}"));
                if let Some(v) = vpos(r) {
                    t.push(format!("V:{v}"));
                }
            }
            Err(e) => return t.err(&e),
        }
    }
}

async fn drive_sam<R: AsyncBufRead + Unpin>(
    r: &mut sam::r#async::io::Reader<R>,
    vpos: impl Fn(&sam::r#async::io::Reader<R>) -> Option<u64>,
    variant: Variant,
) -> Vec<String> {
    let mut t = T::new();
    let header = match r.read_header().await {
        Ok(h) => h,
        Err(e) => return t.err(&e),
    };
    t.push(format!("H:{}", render::sam_header(&header)));
    if let Some(v) = vpos(r) {
        t.push(format!("V:{v}"));
    }
    let mut lazy = sam::Record::default();
    let mut eager = sam::alignment::RecordBuf::default();
    loop {
        let res = match variant {
            Variant::Eager => r.read_record_buf(&header, &mut eager).await,
            _ => r.read_record(&mut lazy).await,
        };
        match res {
            Ok(0) => return t.end(),
            Ok(_) => {
                let s = match variant {
                    Variant::Eager => render::alignment_record(&header, &eager),
                    _ => render::alignment_record(&header, &lazy),
                };
                t.push(format!("R:{s}"));
                if let Some(v) = vpos(r) {
                    t.push(format!("V:{v}"));
                }
            }
            Err(e) => return t.err(&e),
        }
    }
}

async fn drive_vcf<R: AsyncBufRead + Unpin>(
    r: &mut vcf::r#async::io::Reader<R>,
    vpos: impl Fn(&vcf::r#async::io::Reader<R>) -> Option<u64>,
    variant: Variant,
) -> Vec<String> {
    let mut t = T::new();
    let header = match r.read_header().await {
        Ok(h) => h,
        Err(e) => return t.err(&e),
    };
    t.push(format!("H:{}", render::vcf_header(&header)));
    if let Some(v) = vpos(r) {
        t.push(format!("V:{v}"));
    }
    let mut lazy = vcf::Record::default();
    let mut eager = vcf::variant::RecordBuf::default();
    loop {
        let res = match variant {
            Variant::Eager => r.read_record_buf(&header, &mut eager).await,
            _ => r.read_record(&mut lazy).await,
        };
        match res {
            Ok(0) => return t.end(),
            Ok(_) => {
                let s = match variant {
                    Variant::Eager => render::variant_record(&header, &eager),
                    _ => render::variant_record(&header, &lazy),
                };
                t.push(format!("R:{s}"));
                if let Some(v) = vpos(r) {
                    t.push(format!("V:{v}"));
                }
            }
            Err(e) => return t.err(&e),
        }
    }
}

async fn drive_bcf<R: AsyncRead + Unpin>(r: &mut bcf::r#async::io::Reader<R>, vpos: impl Fn(&bcf::r#async::io::Reader<R>) -> Option<u64>) -> Vec<String> {
    let mut t = T::new();
    let header = match r.read_header().await {
        Ok(h) => h,
        Err(e) => return t.err(&e),
    };
    t.push(format!("H:{}", render::vcf_header(&header)));
    if let Some(v) = vpos(r) {
        t.push(format!("V:{v}"));
    }
    let mut lazy = bcf::Record::default();
    loop {
        match r.read_record(&mut lazy).await {
            Ok(0) => return t.end(),
            Ok(_) => {
                t.push(format!("R:{}", render::variant_record(&header, &lazy)));
                if let Some(v) = vpos(r) {
                    t.push(format!("V:{v}"));
                }
            }
            Err(e) => return t.err(&e),
        }
    }
}

pub fn repository(side: &Side) -> io::Result<fasta::Repository> {
    match &side.reference_fasta {
        None => Ok(fasta::Repository::default()),
        Some(text) => {
            let mut r = fasta::io::Reader::new(&text[..]);
            let records: Vec<fasta::Record> = r.records().collect::<io::Result<_>>()?;
            Ok(fasta::Repository::new(records))
        }
    }
}

/// Renders the records of one container exactly as the sync driver does (the slice decoding is synchronous code
/// shared by both readers; what the async reader contributes is the `Container` it filled).
fn cram_container_records(
    t: &mut T,
    container: &cram::io::reader::Container,
    repo: &fasta::Repository,
    header: &sam::Header,
) -> Result<(), io::Error> {
    let ch = container.compression_header()?;
    for slice in container.slices() {
        let slice = slice?;
        let (core, ext) = slice.decode_blocks()?;
        let records = slice.records(repo.clone(), header, &ch, &core, &ext)?;
        for rec in &records {
            t.push(format!("R:{}", render::alignment_record(header, rec)));
        }
    }
    Ok(())
}

async fn drive_cram(src: PollRead, side: Side, variant: Variant) -> Vec<String> {
    let mut t = T::new();
    let repo = match repository(&side) {
        Ok(r) => r,
        Err(e) => return t.err(&e),
    };
    let mut r = cram::r#async::io::reader::Builder::default().set_reference_sequence_repository(repo.clone()).build_from_reader(src);
    let header = match r.read_header().await {
        Ok(h) => h,
        Err(e) => return t.err(&e),
    };
    t.push(format!("H:{}", render::sam_header(&header)));
    match variant {
        Variant::Eager => {
            let mut records = r.records(&header);
            loop {
                match records.try_next().await {
                    Ok(Some(rec)) => t.push(format!("R:{}", render::alignment_record(&header, &rec))),
                    Ok(None) => return t.end(),
                    Err(e) => return t.err(&e),
                }
            }
        }
        _ => {
            let mut container = cram::io::reader::Container::default();
            loop {
                match r.read_container(&mut container).await {
                    Ok(0) => return t.end(),
                    Ok(n) => {
                        t.push(render::cram_container(n, &container));
                        if let Err(e) = cram_container_records(&mut t, &container, &repo, &header) {
                            return t.err(&e);
                        }
                    }
                    Err(e) => return t.err(&e),
                }
            }
        }
    }
}

async fn drive_fasta<R: AsyncBufRead + Unpin>(src: R) -> Vec<String> {
    let mut t = T::new();
    let mut r = fasta::r#async::io::Reader::new(src);
    let mut def = fasta::record::Definition::default();
    let mut seq = Vec::new();
    loop {
        match r.read_definition(&mut def).await {
            Ok(0) => return t.end(),
            Ok(_) => {}
            Err(e) => return t.err(&e),
        }
        seq.clear();
        match r.read_sequence(&mut seq).await {
            Ok(_) => t.push(render::fasta_element(def.name(), def.description().map(|d| -> &[u8] { d.as_ref() }), &seq)),
            Err(e) => return t.err(&e),
        }
    }
}

async fn drive_fastq<R: AsyncBufRead + Unpin>(src: R, variant: Variant) -> Vec<String> {
    let mut t = T::new();
    let mut r = fastq::r#async::io::Reader::new(src);
    match variant {
        Variant::Eager => {
            let mut records = r.records();
            loop {
                match records.try_next().await {
                    Ok(Some(rec)) => t.push(render::fastq_element(&rec)),
                    Ok(None) => return t.end(),
                    Err(e) => return t.err(&e),
                }
            }
        }
        _ => {
            let mut rec = fastq::Record::default();
            loop {
                match r.read_record(&mut rec).await {
                    Ok(0) => return t.end(),
                    Ok(_) => t.push(render::fastq_element(&rec)),
                    Err(e) => return t.err(&e),
                }
            }
        }
    }
}

async fn drive_gff<R: AsyncBufRead + Unpin>(src: R, variant: Variant) -> Vec<String> {
    let mut t = T::new();
    let mut r = gff::r#async::io::Reader::new(src);
    match variant {
        Variant::Eager => {
            let mut lines = r.line_bufs();
            loop {
                match lines.try_next().await {
                    Ok(Some(line)) => t.push(render::gff_line_buf(&line)),
                    Ok(None) => return t.end(),
                    Err(e) => return t.err(&e),
                }
            }
        }
        _ => {
            let mut line = gff::Line::default();
            loop {
                match r.read_line(&mut line).await {
                    Ok(0) => return t.end(),
                    Ok(_) => render::gff_line(&line, false, &mut t.out),
                    Err(e) => return t.err(&e),
                }
            }
        }
    }
}

async fn drive_crai_records(src: PollRead) -> Vec<String> {
    let mut t = T::new();
    let mut r = cram::crai::r#async::io::Reader::new(src);
    let mut rec = cram::crai::Record::default();
    loop {
        match r.read_record(&mut rec).await {
            Ok(0) => return t.end(),
            Ok(_) => t.push(render::index_element(&rec)),
            Err(e) => return t.err(&e),
        }
    }
}

// ------------------------------------------------------------------------------------------------
// the Stream-returning APIs (`records()`, `record_bufs()`, `lines()`): same elements as the call-by-call drivers
// minus the V: elements (a stream borrows the reader, positions cannot be asked in between)

/// (kind, variant) pairs whose async reader also has a `Stream` API that is not already what `transcript` drives.
pub fn stream_variants(kind: Kind) -> &'static [Variant] {
    match kind {
        Kind::Bam | Kind::BamRaw | Kind::Sam | Kind::SamGz | Kind::Vcf | Kind::VcfGz => &[Variant::Primary, Variant::Eager],
        Kind::Bcf | Kind::BcfRaw | Kind::Gff => &[Variant::Primary],
        _ => &[],
    }
}

macro_rules! drain {
    ($t:expr, $stream:expr, $render:expr) => {{
        let mut st = $stream;
        loop {
            match st.try_next().await {
                Ok(Some(rec)) => $t.push(format!("R:{}", $render(&rec))),
                Ok(None) => break Ok(()),
                Err(e) => break Err(e),
            }
        }
    }};
}

pub async fn transcript_stream(kind: Kind, variant: Variant, src: PollRead, workers: usize) -> Vec<String> {
    let mut t = T::new();
    let eager = matches!(variant, Variant::Eager);
    let res: io::Result<()> = match kind {
        Kind::Bam | Kind::BamRaw => {
            async fn go<R: AsyncRead + Unpin>(t: &mut T, mut r: bam::r#async::io::Reader<R>, eager: bool) -> io::Result<()> {
                let header = r.read_header().await?;
                t.push(format!("H:{}", render::sam_header(&header)));
                if eager {
                    drain!(t, r.record_bufs(&header), |rec| render::alignment_record(&header, rec))
                } else {
                    drain!(t, r.records(), |rec| render::alignment_record(&header, rec))
                }
            }
            if kind == Kind::Bam { go(&mut t, bam::r#async::io::Reader::from(bgzf_reader(src, workers)), eager).await } else { go(&mut t, bam::r#async::io::Reader::from(src), eager).await }
        }
        Kind::Bcf | Kind::BcfRaw => {
            async fn go<R: AsyncRead + Unpin>(t: &mut T, mut r: bcf::r#async::io::Reader<R>) -> io::Result<()> {
                let header = r.read_header().await?;
                t.push(format!("H:{}", render::vcf_header(&header)));
                drain!(t, r.records(), |rec| render::variant_record(&header, rec))
            }
            if kind == Kind::Bcf { go(&mut t, bcf::r#async::io::Reader::from(bgzf_reader(src, workers))).await } else { go(&mut t, bcf::r#async::io::Reader::from(src)).await }
        }
        Kind::Sam | Kind::SamGz => {
            async fn go<R: AsyncBufRead + Unpin>(t: &mut T, mut r: sam::r#async::io::Reader<R>, eager: bool) -> io::Result<()> {
                let header = r.read_header().await?;
                t.push(format!("H:{}", render::sam_header(&header)));
                if eager {
                    drain!(t, r.record_bufs(&header), |rec| render::alignment_record(&header, rec))
                } else {
                    drain!(t, r.records(), |rec| render::alignment_record(&header, rec))
                }
            }
            if kind == Kind::SamGz {
                go(&mut t, sam::r#async::io::Reader::new(bgzf_reader(src, workers)), eager).await
            } else {
                go(&mut t, sam::r#async::io::Reader::new(tokio::io::BufReader::with_capacity(BUF_CAP, src)), eager).await
            }
        }
        Kind::Vcf | Kind::VcfGz => {
            async fn go<R: AsyncBufRead + Unpin>(t: &mut T, mut r: vcf::r#async::io::Reader<R>, eager: bool) -> io::Result<()> {
                let header = r.read_header().await?;
                t.push(format!("H:{}", render::vcf_header(&header)));
                if eager {
                    drain!(t, r.record_bufs(&header), |rec| render::variant_record(&header, rec))
                } else {
                    drain!(t, r.records(), |rec| render::variant_record(&header, rec))
                }
            }
            if kind == Kind::VcfGz {
                go(&mut t, vcf::r#async::io::Reader::new(bgzf_reader(src, workers)), eager).await
            } else {
                go(&mut t, vcf::r#async::io::Reader::new(tokio::io::BufReader::with_capacity(BUF_CAP, src)), eager).await
            }
        }
        Kind::Gff => {
            let mut r = gff::r#async::io::Reader::new(tokio::io::BufReader::with_capacity(BUF_CAP, src));
            let mut st = r.lines();
            loop {
                match st.try_next().await {
                    Ok(Some(line)) => render::gff_line(&line, false, &mut t.out),
                    Ok(None) => break Ok(()),
                    Err(e) => break Err(e),
                }
            }
        }
        _ => {
            t.push("no stream API".into());
            Ok(())
        }
    };
    match res {
        Ok(()) => t.end(),
        Err(e) => t.err(&e),
    }
}
