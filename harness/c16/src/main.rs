//! C16 — async readers and writers behave exactly like their synchronous counterparts.
//!
//! Case kinds (every case is a small batch of *pairs* = (input or history, configuration); configuration = poll script of
//! the `PollRead` / `PollWrite` adversary × tokio runtime flavour × BGZF worker count × H1 delay plan):
//!   RD  reader: async transcript (c16::rd, element-for-element mirror of `corpus::transcript_read`, plus the
//!       Stream-returning APIs `records()` / `record_bufs()` / `lines()`) == sync transcript of the same bytes; valid
//!       corpus items, local witness items (one BGZF member per line; rich -> minimal -> rich record adjacency read through
//!       ONE reader with reused buffers), re-blocked BGZF layouts, truncated and one-bit-corrupt inputs. Judged: every
//!       difference on an input the sync reader reads to END, and on inputs it rejects a difference in what is yielded
//!       before the error as far as both sides get; kind / position of the final error on sync-rejected inputs is only
//!       measured (`observed_not_judged[...]`). Virtual positions are compared by the uncompressed offset they denote.
//!   SK  BGZF operation histories with `seek` / `seek_by_uncompressed_position` on both readers (every operation is
//!       compared; after a difference the state counts as tainted until the next seek).
//!   QY  region queries (BAM+BAI, SAM.gz+CSI, BCF+CSI, VCF.gz+tabix, csi::IndexedReader, CRAM+CRAI): one reader, a
//!       sequence of queries (with repeats and the unmapped query), every query compared on its own, async == sync.
//!   WR  writer: async write history (c16::wr, mirror of `corpus::write_prepared`, finished with `shutdown()`):
//!       uncompressed formats byte-identical to the sync output; compressed formats well-formed (independent BGZF
//!       walker, EOF marker), same inflated payload, and decoding (sync reader) to what the sync output decodes to.
//!   WB  the same for seeded BGZF write / flush histories (payload class, length around the staging limit, split
//!       pattern, flush pattern, every compression level).
//! Hook H1 delays individual inflate / deflate jobs inside the `spawn_blocking` closures; the event log yields the
//! completion inversions that were actually realised (floors per worker count 2..8).
//!
//! Signatures: `<kind>:<reader|writer|query|seek>:…:<difference class>`; difference classes name the RELATION of the two
//! transcripts (same-elements / async-stops-early / async-goes-on / diverges-at-<element>) and the two terminators, and a
//! few root causes are recognised by name (see `rd_signature`, findings/C16.known).
//!
//! Parameters: `only=rd,stream,sched,mal,sk,qy,wr,wb` (parts), `item=<substring>` (debugging), `tiny=1` (sanitizer-sized
//! workload whatever the tier), `cfgs`, `scale`, `seek_histories`, `query_seeds`, `bgzf_histories`, `pairs_per_case`;
//! environment `C16_TIMEOUT_S` (wall-clock timeout per pair, default 120 s, firing = inconclusive).

mod bread;
mod hook;
mod qy;
mod rj;
mod rd;
mod rt;
mod sk;
mod wr;

use std::sync::{Arc, OnceLock};

use corpus::{Item, Kind, Variant};
use serde_json::{Value, json};
use vcore::{
    CaseOut, Ctx, Report, Rng,
    aadv::{PollRead, PollScript, PollStats, PollWrite},
    bgzf as obgzf, guard,
    rng::fnv1a,
    run_cases,
};

use rt::{Flavor, RunErr};

// ------------------------------------------------------------------------------------------------
// configurations
// ------------------------------------------------------------------------------------------------

#[derive(Clone, Debug)]
struct Cfg {
    script: PollScript,
    flavor: Flavor,
    /// BGZF worker count (1..8); ignored by kinds without a builder for it
    workers: usize,
    plan: &'static str,
    /// the source is a `BoundaryRead`: Pending exactly at every BGZF member boundary (the script's max_chunk still applies)
    boundary: bool,
}

fn cfg_json(c: &Cfg) -> Value {
    json!({"script": if c.boundary { format!("Pending at every member boundary, chunk<={}", c.script.max_chunk) } else { c.script.describe() }, "runtime": c.flavor.name(), "workers": c.workers, "plan": c.plan})
}

/// Configurations for inputs with empty members: Pending exactly at every member boundary (whole members per transfer, or
/// small chunks inside them), worker counts 1, 2, 4, and delay plans that make the next inflate job slow.
fn cfgs_boundary(salt: u64, seed: u64, n: usize) -> Vec<Cfg> {
    let mut v = Vec::new();
    for (k, (w, plan)) in [(1usize, "none"), (1, "all_slow"), (2, "all_slow"), (4, "one_slow"), (2, "none"), (4, "all_slow"), (1, "reverse"), (4, "none")].into_iter().enumerate() {
        let mut script = PollScript::ready();
        script.seed = seed ^ salt.wrapping_mul(17) ^ k as u64;
        script.max_chunk = [0usize, 0, 7, 0, 1, 4096, 0, 3][k];
        v.push(Cfg { script, flavor: if (k + salt as usize) % 2 == 0 { Flavor::Ct } else { Flavor::Mt4 }, workers: w, plan, boundary: true });
    }
    let r = salt as usize % v.len();
    v.rotate_left(r);
    v.truncate(n.max(1));
    v
}

/// The 16 poll-script classes: always ready; fixed chunks 1,2,3,7,17,4096; random chunks; Pending with probability
/// 1/2, 1/3, 1/10 combined with chunking.
fn script_class(i: usize, seed: u64) -> PollScript {
    let s = |max_chunk, random, pending_num, pending_den| PollScript { max_chunk, random, pending_num, pending_den, seed };
    match i % 16 {
        0 => s(0, false, 0, 1),
        1 => s(1, false, 0, 1),
        2 => s(2, false, 0, 1),
        3 => s(3, false, 0, 1),
        4 => s(7, false, 0, 1),
        5 => s(17, false, 0, 1),
        6 => s(4096, false, 0, 1),
        7 => s(64, true, 0, 1),
        8 => s(5000, true, 0, 1),
        9 => s(0, false, 1, 2),
        10 => s(1, false, 1, 2),
        11 => s(3, false, 1, 3),
        12 => s(17, true, 1, 3),
        13 => s(7, false, 1, 10),
        14 => s(4096, true, 1, 10),
        _ => s(100, true, 1, 2),
    }
}

/// Tiny-chunk scripts on big inputs are scaled so that one pair needs at most ~`max_polls` transfers.
fn scale_script(mut s: PollScript, len: usize, max_polls: usize) -> PollScript {
    if s.max_chunk > 0 {
        let eff = if s.random { (s.max_chunk / 2).max(1) } else { s.max_chunk };
        if len / eff > max_polls {
            let f = len.div_ceil(max_polls);
            s.max_chunk = if s.random { 2 * f } else { f };
        }
    }
    s
}

const PLANS_ACTIVE: &[&str] = &["reverse", "random", "one_slow", "end_heavy"];

/// `n` configurations, rotating through script classes, flavours, worker counts and (for BGZF kinds) delay plans so
/// that the whole run covers the product evenly; `salt` de-correlates the rotation between inputs.
fn cfgs_rotating(n: usize, salt: u64, seed: u64, bgzf: bool, len: usize) -> Vec<Cfg> {
    (0..n)
        .map(|j| {
            let k = salt as usize + j;
            let script = scale_script(script_class(k, seed ^ salt.wrapping_mul(31) ^ j as u64), len, 400_000);
            let flavor = if (k / 16 + j) % 2 == 0 { Flavor::Ct } else { Flavor::Mt4 };
            let workers = 1 + (k * 3 + j / 2) % 8;
            let plan = if bgzf && j % 3 == 1 { PLANS_ACTIVE[(k / 3) % PLANS_ACTIVE.len()] } else { "none" };
            Cfg { script, flavor, workers, plan, boundary: false }
        })
        .collect()
}

/// Full product for the thorough tier: 16 scripts × 2 flavours × (8 worker counts | 8 script seeds).
fn cfgs_product(salt: u64, seed: u64, bgzf: bool, len: usize) -> Vec<Cfg> {
    let mut v = Vec::new();
    for sc in 0..16usize {
        for (fi, flavor) in [Flavor::Ct, Flavor::Mt4].into_iter().enumerate() {
            for w in 1..=8usize {
                let script = scale_script(script_class(sc, seed ^ salt.wrapping_mul(131) ^ ((sc * 16 + w) as u64)), len, 400_000);
                let plan = if bgzf && (sc + w + fi) % 3 == 0 { PLANS_ACTIVE[(sc + w) % PLANS_ACTIVE.len()] } else { "none" };
                v.push(Cfg { script, flavor, workers: w, plan, boundary: false });
            }
        }
    }
    v
}

/// Schedule exploration: every worker count 2..8 × every active plan, on a multi-block input.
fn cfgs_schedules(salt: u64, seed: u64, len: usize, per_plan: usize) -> Vec<Cfg> {
    let mut v = Vec::new();
    for w in 2..=8usize {
        for (pi, plan) in PLANS_ACTIVE.iter().enumerate().take(per_plan) {
            let k = salt as usize + w * 5 + pi;
            // mostly large transfers so that several frames are available at once
            let sc = [0usize, 6, 8, 14, 9][k % 5];
            let script = scale_script(script_class(sc, seed ^ k as u64), len, 400_000);
            v.push(Cfg { script, flavor: if k % 2 == 0 { Flavor::Mt4 } else { Flavor::Ct }, workers: w, plan, boundary: false });
        }
    }
    v
}

// ------------------------------------------------------------------------------------------------
// cases
// ------------------------------------------------------------------------------------------------

#[derive(Clone, Debug, PartialEq)]
enum Malform {
    None,
    /// the file is cut after `n` bytes
    Truncate(usize),
    /// byte `n` is XORed with 1
    Flip(usize),
}

impl Malform {
    fn class(&self) -> &'static str {
        match self {
            Malform::None => "valid",
            Malform::Truncate(_) => "truncated",
            Malform::Flip(_) => "corrupt",
        }
    }
}

#[derive(Clone, Debug)]
enum What {
    /// `stream`: drive the Stream-returning API (`records()`, `record_bufs()`, `lines()`) instead of the read_* calls
    Rd { item: usize, variant: Variant, reseal: usize, malform: Malform, stream: bool },
    Sk { item: usize, reseal: usize, hseed: u64 },
    Qy { data: usize, index: usize, mode: qy::Mode, qseed: u64 },
    Wr { item: usize, level: Option<u8> },
    /// seeded BGZF write / flush history (payload class, length, split pattern, flush after every n-th write, level)
    Wb { class: &'static str, len: usize, split: &'static str, flush_every: usize, level: u8, pseed: u64 },
    /// CRAM write history of `n` minimal records (short reads on a tiny reference): more than one container at the
    /// production layout (10 240 records per container) — the async CRAM writer has no layout override
    Wc { n: usize },
    /// reject-then-accept write history on one writer of `kind`, derived from the model of corpus item `base`
    Wj { base: usize, kind: Kind },
}

#[derive(Clone, Debug)]
struct Case {
    what: What,
    cfgs: Vec<Cfg>,
}

struct World {
    items: Vec<Item>,
    cases: Vec<Case>,
}

fn variant_name(v: Variant) -> &'static str {
    match v {
        Variant::Primary => "primary",
        Variant::Eager => "eager",
        Variant::Indexer => "indexer",
    }
}

fn case_json(w: &World, c: &Case) -> Value {
    let what = match &c.what {
        What::Rd { item, variant, reseal, malform, stream } => {
            json!({"kind": "RD", "item": w.items[*item].name, "variant": variant_name(*variant), "reseal_block_len": reseal, "malform": format!("{malform:?}"), "stream_api": stream})
        }
        What::Sk { item, reseal, hseed } => json!({"kind": "SK", "item": w.items[*item].name, "reseal_block_len": reseal, "hseed": hseed}),
        What::Qy { data, index, mode, qseed } => {
            json!({"kind": "QY", "data": w.items[*data].name, "index": w.items[*index].name, "mode": mode.name(), "qseed": qseed})
        }
        What::Wr { item, level } => json!({"kind": "WR", "item": w.items[*item].name, "level": level}),
        What::Wc { n } => json!({"kind": "WC", "records": n}),
        What::Wj { base, kind } => json!({"kind": "WJ", "model_of": w.items[*base].name, "writer": kind.name()}),
        What::Wb { class, len, split, flush_every, level, pseed } => {
            json!({"kind": "WB", "class": class, "len": len, "split": split, "flush_every": flush_every, "level": level, "pseed": pseed})
        }
    };
    json!({"what": what, "cfgs": c.cfgs.iter().map(cfg_json).collect::<Vec<_>>()})
}

fn chunked(what: What, cfgs: Vec<Cfg>, per_case: usize, out: &mut Vec<Case>) {
    for c in cfgs.chunks(per_case.max(1)) {
        out.push(Case { what: what.clone(), cfgs: c.to_vec() });
    }
}

/// Malformed versions of an item: cuts at / around structural boundaries and single-bit flips. XOR 1 keeps a damaged
/// length field close to its old value (a flipped high bit makes the sync readers allocate tens of GB: C15's business).
fn malforms(item: &Item, quick: bool) -> Vec<Malform> {
    let len = item.bytes.len();
    if len < 4 {
        return vec![];
    }
    let b = corpus::boundaries(item);
    let mid = b.get(b.len() / 2).copied().unwrap_or(len / 2);
    let mut v = vec![
        Malform::Truncate(len - 1),
        Malform::Truncate(mid),
        Malform::Truncate((mid + 5).min(len - 1)),
        Malform::Flip(len * 2 / 3),
        Malform::Flip(0),
    ];
    if !quick {
        v.push(Malform::Truncate(len / 2));
        v.push(Malform::Truncate(len.saturating_sub(14)));
        v.push(Malform::Truncate(mid.saturating_sub(1).max(1)));
        v.push(Malform::Flip(len / 2));
        v.push(Malform::Flip(len - 1));
        v.push(Malform::Flip(mid.min(len - 1)));
    }
    v.dedup();
    if item.kind == Kind::Gzi {
        // the leading u64 entry count: bit 0 of byte k >= 4 asks both readers for 2^(8k) * 16 bytes (abort: C15's business)
        v.retain(|m| !matches!(m, Malform::Flip(n) if (1..8).contains(n)));
    }
    v
}

fn apply_malform(bytes: &[u8], m: &Malform) -> Vec<u8> {
    let mut v = bytes.to_vec();
    match m {
        Malform::None => {}
        Malform::Truncate(n) => v.truncate(*n),
        Malform::Flip(n) => {
            if let Some(b) = v.get_mut(*n) {
                *b ^= 1;
            }
        }
    }
    v
}

/// Re-blocked layout of a BGZF-wrapped item: same inflated payload, members of `block_len` bytes (independent encoder).
fn resealed(item: &Item, block_len: usize) -> Vec<u8> {
    if block_len == 0 {
        return item.bytes.clone();
    }
    match corpus::inflated_payload(item) {
        Some(p) => obgzf::reseal(&p, block_len),
        None => item.bytes.clone(),
    }
}

/// Deterministic inputs of this monitor's own (seed independent witnesses of the [peek] findings): SAM.gz / VCF.gz
/// files with one BGZF member per line, whose records end with their last mandatory field — the case in which the
/// sync lazy readers call `fill_buf` once more after the line feed.
fn local_items() -> Vec<Item> {
    let member_per_line = |text: &str| -> Vec<u8> {
        let blocks: Vec<Vec<u8>> = text.split_inclusive('\n').map(|l| l.as_bytes().to_vec()).collect();
        obgzf::build_file(&blocks, obgzf::Enc::Deflate(6), 1)
    };
    let sam = "@HD\tVN:1.6\tSO:coordinate\n@SQ\tSN:sq0\tLN:1000\nr0\t0\tsq0\t1\t60\t4M\t*\t0\t0\tACGT\tIIII\nr1\t16\tsq0\t7\t30\t2M1I1M\t*\t0\t0\tTTGA\t*\nr2\t4\t*\t0\t0\t*\t*\t0\t0\tGG\t##\n";
    let vcf = "##fileformat=VCFv4.3\n##contig=<ID=sq0,length=1000>\n#CHROM\tPOS\tID\tREF\tALT\tQUAL\tFILTER\tINFO\nsq0\t5\t.\tA\tC\t.\t.\t.\nsq0\t9\trs1\tG\tT,<DEL>\t12.5\tPASS\t.\nsq0\t40\t.\tC\t.\t.\t.\t.\n";
    vec![
        Item { kind: Kind::SamGz, name: "samgz/c16-one-member-per-line-records-without-data".into(), bytes: member_per_line(sam), side: corpus::Side::default() },
        Item { kind: Kind::VcfGz, name: "vcfgz/c16-one-member-per-line-records-without-samples".into(), bytes: member_per_line(vcf), side: corpus::Side::default() },
        // empty members in front of data: EOF markers in the middle of concatenated files (the position a writer reports at
        // the end of the first part), flushes of nothing, runs of empty members
        Item {
            kind: Kind::Bgzf,
            name: "bgzf/c16-concatenated-files-eof-marker-mid-file".into(),
            bytes: {
                let t = |n: usize, c: u8| -> Vec<u8> { (0..n).map(|i| c + (i % 23) as u8).collect() };
                let mut v = obgzf::build_file(&[t(300, b'a'), t(41, b'A')], obgzf::Enc::Deflate(6), 1);
                v.extend(obgzf::build_file(&[t(7, b'0'), t(900, b'b'), t(2, b'x')], obgzf::Enc::Deflate(1), 1));
                v.extend(obgzf::build_file(&[t(120, b'c')], obgzf::Enc::Stored, 1));
                v
            },
            side: corpus::Side::default(),
        },
        Item {
            kind: Kind::Bgzf,
            name: "bgzf/c16-runs-of-empty-members-and-leading-empty-member".into(),
            bytes: {
                let t = |n: usize, c: u8| -> Vec<u8> { (0..n).map(|i| c + (i % 19) as u8).collect() };
                obgzf::build_file(&[vec![], t(50, b'a'), vec![], vec![], t(333, b'b'), vec![], t(1, b'c'), vec![], vec![], vec![], t(700, b'd'), t(64, b'e'), vec![], t(9, b'f')], obgzf::Enc::Deflate(6), 1)
            },
            side: corpus::Side::default(),
        },
        // a carriage return that is not followed by a line feed: the sync reader accepts the file and keeps it in the sequence
        Item {
            kind: Kind::Fasta,
            name: "fasta/c16-lone-carriage-return-in-sequence".into(),
            bytes: b">s0 lone carriage returns\r\nACGTAC\rGTACGT\r\nAC\rGT\rA\r\n>s1\nTT\rT\nGG\n".to_vec(),
            side: corpus::Side::default(),
        },
    ]
}

/// Reused-state witnesses: files in which rich and minimal records alternate (rich -> minimal -> rich), so that ONE
/// reader with ONE reused record / line buffer (every driver here reuses its buffers through the whole file, through
/// read_record(&mut same), read_record_buf(&mut same), records() / record_bufs() / lines()) meets a short record right
/// after a long one and vice versa; the same items drive ONE async writer with its reused encode buffer. Derived from the
/// corpus models by stripping every optional field of every third record, written with the sync writers.
fn adjacency_items(items: &[Item]) -> Vec<Item> {
    let mut out = Vec::new();
    let strip_sam = |text: &[u8]| -> Vec<u8> {
        let mut v = Vec::new();
        let mut i = 0;
        for line in String::from_utf8_lossy(text).split_inclusive('\n') {
            if line.starts_with('@') {
                v.extend_from_slice(line.as_bytes());
                continue;
            }
            let f: Vec<&str> = line.trim_end_matches('\n').split('\t').collect();
            if i % 3 == 1 && f.len() >= 11 {
                // minimal: no CIGAR, no bases, no qualities, no optional fields
                let m = [f[0], f[1], f[2], f[3], f[4], "*", f[6], f[7], f[8], "*", "*"];
                v.extend_from_slice(m.join("\t").as_bytes());
                v.push(b'\n');
            } else {
                v.extend_from_slice(line.as_bytes());
            }
            i += 1;
        }
        v
    };
    let strip_vcf = |text: &[u8]| -> Vec<u8> {
        let mut v = Vec::new();
        let mut i = 0;
        for line in String::from_utf8_lossy(text).split_inclusive('\n') {
            if line.starts_with('#') {
                v.extend_from_slice(line.as_bytes());
                continue;
            }
            let mut f: Vec<String> = line.trim_end_matches('\n').split('\t').map(|x| x.to_string()).collect();
            if i % 3 == 1 && f.len() >= 8 {
                // minimal: no ID, no QUAL, no FILTER, no INFO (sample columns stay: their number is fixed by the header)
                for k in [2, 5, 6, 7] {
                    f[k] = ".".into();
                }
                v.extend_from_slice(f.join("\t").as_bytes());
                v.push(b'\n');
            } else {
                v.extend_from_slice(line.as_bytes());
            }
            i += 1;
        }
        v
    };
    let mut written = |kind: Kind, name: String, model: Vec<u8>, flush_every: usize| {
        let mut item = Item { kind, name, bytes: Vec::new(), side: corpus::Side { model: Some(model), writable: true, flush_every, ..corpus::Side::default() } };
        let mut bytes = Vec::new();
        if let Ok(Ok(())) = guard::catch(|| corpus::write_history(&item, &mut bytes)) {
            item.bytes = bytes;
            out.push(item);
        }
    };
    for it in items {
        let Some(model) = &it.side.model else { continue };
        match (it.kind, it.name.as_str()) {
            (Kind::Sam, n) if n.ends_with("small-3refs-14recs") || n.ends_with("multiblock-3refs-64recs") => {
                let tail = n.rsplit('/').next().unwrap_or("x");
                let m = strip_sam(model);
                for kind in [Kind::Sam, Kind::SamGz, Kind::Bam, Kind::BamRaw] {
                    written(kind, format!("{}/c16-adjacency-rich-minimal-rich-{tail}", kind.name()), m.clone(), if matches!(kind, Kind::SamGz | Kind::Bam) { 5 } else { 0 });
                }
            }
            (Kind::Vcf, n) if n.ends_with("small-2contigs-12recs-2samples") || n.ends_with("nosamples-3contigs-25recs") => {
                let tail = n.rsplit('/').next().unwrap_or("x");
                let m = strip_vcf(model);
                for kind in [Kind::Vcf, Kind::VcfGz, Kind::Bcf, Kind::BcfRaw] {
                    written(kind, format!("{}/c16-adjacency-rich-minimal-rich-{tail}", kind.name()), m.clone(), if matches!(kind, Kind::VcfGz | Kind::Bcf) { 5 } else { 0 });
                }
            }
            _ => {}
        }
    }
    // text formats: hand-written (seed independent)
    let long = |n: usize, alphabet: &[u8]| -> String { (0..n).map(|i| alphabet[(i * 7 + i / 3) % alphabet.len()] as char).collect() };
    let mut fq = String::new();
    let mut fa = String::new();
    let mut gff = String::from("##gff-version 3\n");
    for i in 0..9 {
        if i % 3 == 1 {
            fq.push_str(&format!("@m{i}\nA\n+\nI\n"));
            fa.push_str(&format!(">m{i}\nA\n"));
            gff.push_str(&format!("sq0\t.\tregion\t{}\t{}\t.\t.\t.\t.\n", 5 + i, 6 + i));
        } else {
            let n = 150 + 37 * i;
            fq.push_str(&format!("@r{i} a fairly long description {i} with several words\n{}\n+\n{}\n", long(n, b"ACGTN"), long(n, b"IIHG?@#5")));
            fa.push_str(&format!(">r{i} a fairly long description {i}\n"));
            for chunk in long(n, b"ACGTNacgt").as_bytes().chunks(60) {
                fa.push_str(std::str::from_utf8(chunk).unwrap());
                fa.push('\n');
            }
            gff.push_str(&format!(
                "sq0\tsource{i}\tgene\t{}\t{}\t0.{i}5\t+\t0\tID=gene{i};Name=a long name {i};Dbxref=db:{i},db:{},db:x%2Cy;Note=rich%3Brecord\n",
                100 * i + 1,
                100 * i + 90,
                i + 1
            ));
        }
    }
    let plain = |kind: Kind, name: &str, text: String| {
        let mut item = Item { kind, name: name.into(), bytes: text.into_bytes(), side: corpus::Side::default() };
        // writable if the sync writer reproduces the bytes (then the async writer is driven with the same records)
        item.side.writable = true;
        let mut bytes = Vec::new();
        let same = matches!(guard::catch(|| corpus::write_history(&item, &mut bytes)), Ok(Ok(()))) && bytes == item.bytes;
        item.side.writable = same;
        item
    };
    out.push(plain(Kind::Fastq, "fastq/c16-adjacency-rich-minimal-rich", fq));
    out.push(plain(Kind::Fasta, "fasta/c16-adjacency-rich-minimal-rich", fa));
    out.push(plain(Kind::Gff, "gff/c16-adjacency-rich-minimal-rich", gff));
    out
}

/// Serialises an index built by a sync indexer into an index item that points at its data item.
fn index_item(kind: Kind, data_name: &str, write: impl FnOnce(&mut Vec<u8>) -> std::io::Result<()>) -> Option<Item> {
    let mut out = Vec::new();
    write(&mut out).ok()?;
    let tail = data_name.replace('/', "-");
    Some(Item { kind, name: format!("{}/c16-of-{tail}", kind.name()), bytes: out, side: corpus::Side { indexed_item: Some(data_name.to_string()), ..corpus::Side::default() } })
}

/// Builds the index of a BGZF-wrapped data item with the sync path-based indexer of its kind (scratch file).
fn index_of(data: &Item, scratch: &std::path::Path) -> Option<Item> {
    let ext = match data.kind {
        Kind::Bam => "bam",
        Kind::SamGz => "sam.gz",
        Kind::Bcf => "bcf",
        Kind::VcfGz => "vcf.gz",
        _ => return None,
    };
    let clean: String = data.name.chars().map(|c| if c.is_ascii_alphanumeric() || c == '-' { c } else { '_' }).collect();
    let path = scratch.join(format!("{clean}.{ext}"));
    std::fs::write(&path, &data.bytes).ok()?;
    let item = guard::catch(|| -> Option<Item> {
        match data.kind {
            Kind::Bam => {
                let index = noodles_bam::fs::index(&path).ok()?;
                index_item(Kind::Bai, &data.name, |out| noodles_bam::bai::io::Writer::new(out).write_index(&index))
            }
            Kind::SamGz | Kind::Bcf => {
                let index = if data.kind == Kind::SamGz { noodles_sam::fs::index(&path).ok()? } else { noodles_bcf::fs::index(&path).ok()? };
                index_item(Kind::Csi, &data.name, |out| {
                    let mut w = noodles_csi::io::Writer::new(out);
                    w.write_index(&index)?;
                    w.get_mut().try_finish()?;
                    let _ = w.into_inner().into_inner();
                    Ok(())
                })
            }
            _ => {
                let index = noodles_vcf::fs::index(&path).ok()?;
                index_item(Kind::Tbi, &data.name, |out| {
                    let mut w = noodles_tabix::io::Writer::new(out);
                    w.write_index(&index)?;
                    w.try_finish()?;
                    let _ = w.into_inner().into_inner();
                    Ok(())
                })
            }
        }
    })
    .ok()
    .flatten();
    let _ = std::fs::remove_file(&path);
    item
}

/// Indexed files for the query part, all deterministic in the seed:
/// * BGZF layouts of corpus BAM / SAM.gz / BCF / VCF.gz payloads built with the independent encoder so that members END
///   EXACTLY at record boundaries: `cyc123` (header alone in its member, then 1, 2, 3, 1, 2, 3 … records per member),
///   `binshift` (a member starts one record BEFORE the first record of every new 16 kb index window, so that the first
///   record of a bin / chunk sits at a non-zero offset of its member while the member before ends at a record end), and
///   `straddle` (211-byte members, records straddle members);
/// * BCF files whose record spans come from INFO END / SVLEN (fileformat 4.3 and 4.5), with records of another contig
///   inside a chunk, a record at POS 0 (if the writer and the indexer take it), and a copy whose `rlen` fields say
///   "length of REF" although INFO END says otherwise (as writers other than htslib emit it).
fn query_items(items: &[Item], scratch: &std::path::Path, quick: bool) -> Vec<Item> {
    let mut out = Vec::new();
    let push = |data: Item, out: &mut Vec<Item>| {
        if let Some(ix) = index_of(&data, scratch) {
            out.push(data);
            out.push(ix);
        } else if std::env::var_os("C16_DEBUG_ITEMS").is_some() {
            eprintln!("c16: cannot index {}", data.name);
        }
    };
    let split_header = |h: &[u8]| -> Vec<Vec<u8>> { h.chunks(60_000).map(|c| c.to_vec()).collect() };
    for it in items {
        if !matches!(it.kind, Kind::Bam | Kind::SamGz | Kind::Bcf | Kind::VcfGz) || it.name.contains("c16-") {
            continue;
        }
        let wanted = it.name.contains("multiblock") || (!quick && (it.name.contains("/small-") || it.name.contains("natural")));
        if !wanted {
            continue;
        }
        let (Some(payload), Some(mut b)) = (corpus::inflated_payload(it), corpus::record_boundaries_in_payload(it)) else { continue };
        if matches!(it.kind, Kind::SamGz | Kind::VcfGz) {
            let c = if it.kind == Kind::SamGz { b'@' } else { b'#' };
            b.retain(|&p| p >= payload.len() || payload[p] != c);
        }
        if b.len() < 4 {
            continue;
        }
        let tail = it.name.rsplit('/').next().unwrap_or("x").to_string();
        let mode = match it.kind {
            Kind::Bam => qy::Mode::BamBai,
            Kind::SamGz => qy::Mode::SamGzCsi,
            Kind::Bcf => qy::Mode::BcfCsi,
            _ => qy::Mode::VcfGzTbi,
        };
        let n_rec = b.len() - 1;
        let rec = |i: usize| payload[b[i]..b[i + 1]].to_vec();
        let group = |sizes: &mut dyn FnMut(usize) -> bool| -> Vec<Vec<u8>> {
            // `sizes(i)` = a member boundary lies before record i
            let mut blocks = split_header(&payload[..b[0]]);
            let mut cur = Vec::new();
            for i in 0..n_rec {
                if i > 0 && sizes(i) && !cur.is_empty() {
                    blocks.push(std::mem::take(&mut cur));
                }
                cur.extend_from_slice(&rec(i));
                if cur.len() > 50_000 {
                    blocks.push(std::mem::take(&mut cur));
                }
            }
            if !cur.is_empty() {
                blocks.push(cur);
            }
            blocks
        };
        // cyc123
        let mut next = 1usize;
        let mut k = 1usize;
        let blocks = group(&mut |i| {
            if i == next {
                k = k % 3 + 1;
                next = i + k;
                true
            } else {
                false
            }
        });
        push(Item { kind: it.kind, name: format!("{}/c16-q-cyc123-{tail}", it.kind.name()), bytes: obgzf::build_file(&blocks, obgzf::Enc::Deflate(6), 1), side: corpus::Side::default() }, &mut out);
        // empties: the cyc123 layout with empty members in between (one after every second member, a run of three now and
        // then): chunks of the index start / end at the position of an empty member
        {
            let mut with_empties = Vec::new();
            for (bi, bl) in blocks.iter().enumerate() {
                with_empties.push(bl.clone());
                if bi % 2 == 1 {
                    with_empties.push(Vec::new());
                }
                if bi % 5 == 4 {
                    with_empties.push(Vec::new());
                    with_empties.push(Vec::new());
                }
            }
            push(Item { kind: it.kind, name: format!("{}/c16-q-empties-{tail}", it.kind.name()), bytes: obgzf::build_file(&with_empties, obgzf::Enc::Deflate(6), 1), side: corpus::Side::default() }, &mut out);
        }
        // binshift
        if let Ok(Ok(spans)) = guard::catch(|| qy::record_spans(mode, &it.bytes, &it.side)) {
            let win = |i: usize| spans.get(i).map(|(n, s, _)| (n.clone(), (s.saturating_sub(1)) >> 14));
            let mut since = 0usize;
            let blocks = group(&mut |i| {
                since += 1;
                // boundary before record i when record i+1 opens a new window (member = [i, i+1, …]); else every 4 records
                let cut = (win(i + 1).is_some() && win(i + 1) != win(i)) || since >= 4;
                if cut {
                    since = 0;
                }
                cut
            });
            push(Item { kind: it.kind, name: format!("{}/c16-q-binshift-{tail}", it.kind.name()), bytes: obgzf::build_file(&blocks, obgzf::Enc::Deflate(6), 1), side: corpus::Side::default() }, &mut out);
        }
        // straddle
        push(Item { kind: it.kind, name: format!("{}/c16-q-straddle-{tail}", it.kind.name()), bytes: obgzf::reseal(&payload, 211), side: corpus::Side::default() }, &mut out);
    }

    // --- BCF: spans from INFO END / SVLEN
    let header = |ff: &str, svlen_number: &str| {
        format!(
            "##fileformat=VCFv{ff}\n##contig=<ID=sq0,length=200000>\n##contig=<ID=sq1,length=200000>\n##ALT=<ID=DEL,Description=\"Deletion\">\n##INFO=<ID=END,Number=1,Type=Integer,Description=\"End position\">\n##INFO=<ID=SVLEN,Number={svlen_number},Type=Integer,Description=\"SV length\">\n##INFO=<ID=SVTYPE,Number=1,Type=String,Description=\"SV type\">\n##INFO=<ID=DP,Number=1,Type=Integer,Description=\"Depth\">\n#CHROM\tPOS\tID\tREF\tALT\tQUAL\tFILTER\tINFO\n"
        )
    };
    let v43 = format!(
        "{}sq0\t100\t.\tA\t<DEL>\t.\t.\tSVTYPE=DEL;END=5000\nsq0\t300\t.\tACGT\tA\t.\t.\tDP=5\nsq0\t6000\t.\tN\t<DEL>\t.\t.\tSVTYPE=DEL;END=30000\nsq0\t7000\t.\tG\tT\t.\t.\t.\nsq0\t40000\t.\tC\t<DEL>\t.\t.\tSVTYPE=DEL;END=40500\nsq1\t50\t.\tA\t<DEL>\t.\t.\tSVTYPE=DEL;END=20000\nsq1\t70000\t.\tT\tG\t.\t.\tDP=1\n",
        header("4.3", ".")
    );
    let v45 = format!(
        "{}sq0\t100\t.\tA\t<DEL>\t.\t.\tSVTYPE=DEL;SVLEN=4901\nsq0\t300\t.\tACGT\tA\t.\t.\tDP=5\nsq0\t6000\t.\tN\t<DEL>\t.\t.\tSVTYPE=DEL;SVLEN=24001\nsq0\t7000\t.\tG\tT\t.\t.\t.\nsq0\t40000\t.\tC\t<DEL>\t.\t.\tSVTYPE=DEL;SVLEN=501\nsq1\t50\t.\tA\t<DEL>\t.\t.\tSVTYPE=DEL;SVLEN=19951\nsq1\t70000\t.\tT\tG\t.\t.\tDP=1\n",
        header("4.5", "A")
    );
    let vtel = format!("{}sq0\t0\t.\tN\t<DEL>\t.\t.\tSVTYPE=DEL;END=900\nsq0\t300\t.\tACGT\tA\t.\t.\tDP=5\nsq1\t0\t.\tN\tNA\t.\t.\t.\nsq1\t60\t.\tT\tG\t.\t.\tDP=1\n", header("4.3", "."));
    let written = |kind: Kind, name: &str, model: &str, flush_every: usize| -> Option<Item> {
        let mut item = Item { kind, name: name.into(), bytes: Vec::new(), side: corpus::Side { model: Some(model.as_bytes().to_vec()), writable: true, flush_every, ..corpus::Side::default() } };
        let mut bytes = Vec::new();
        match guard::catch(|| corpus::write_history(&item, &mut bytes)) {
            Ok(Ok(())) => {
                item.bytes = bytes;
                Some(item)
            }
            other => {
                if std::env::var_os("C16_DEBUG_ITEMS").is_some() {
                    eprintln!("c16: cannot write {name}: {:?}", other.map_err(|p| p.sig));
                }
                None
            }
        }
    };
    for (name, text) in [("bcf/c16-q-sv-spans-from-info-end-v4.3", &v43), ("bcf/c16-q-sv-spans-from-info-svlen-v4.5", &v45)] {
        if let Some(item) = written(Kind::Bcf, name, text, 2) {
            push(item, &mut out);
        }
    }
    // records at POS 0 (telomere): the sync BCF indexer rejects them, so the index is built over a twin file with the same
    // byte layout (POS 1 instead of POS 0, stored members) and paired with the POS-0 file
    {
        let twin = vtel.replace("\t0\t", "\t1\t");
        if let (Some(a), Some(b)) = (written(Kind::BcfRaw, "bcfraw/c16-tmp-tel0", &vtel, 0), written(Kind::BcfRaw, "bcfraw/c16-tmp-tel1", &twin, 0)) {
            if let (Some(ba), Some(bb)) = (corpus::record_boundaries_in_payload(&a), corpus::record_boundaries_in_payload(&b)) {
                if ba == bb && a.bytes.len() == b.bytes.len() {
                    let blocks = |bytes: &[u8]| -> Vec<Vec<u8>> {
                        let mut v = vec![bytes[..ba[0]].to_vec()];
                        for w in ba.windows(2) {
                            v.push(bytes[w[0]..w[1]].to_vec());
                        }
                        v
                    };
                    let data = Item { kind: Kind::Bcf, name: "bcf/c16-q-records-at-pos-0-telomere".into(), bytes: obgzf::build_file(&blocks(&a.bytes), obgzf::Enc::Stored, 1), side: corpus::Side::default() };
                    let twin_item = Item { kind: Kind::Bcf, name: data.name.clone(), bytes: obgzf::build_file(&blocks(&b.bytes), obgzf::Enc::Stored, 1), side: corpus::Side::default() };
                    if data.bytes.len() == twin_item.bytes.len() {
                        if let Some(ix) = index_of(&twin_item, scratch) {
                            out.push(data);
                            out.push(ix);
                        }
                    }
                }
            }
        }
    }
    // rlen = length of REF although INFO END says otherwise: patch the raw BCF, one member per record
    if let Some(raw) = written(Kind::BcfRaw, "bcfraw/c16-tmp", &v43, 0) {
        if let Some(b) = corpus::record_boundaries_in_payload(&raw) {
            let mut bytes = raw.bytes.clone();
            let ref_len = [1u32, 4, 1, 1, 1, 1, 1];
            for (i, w) in b.windows(2).enumerate() {
                // l_shared u32, l_indiv u32, chrom i32, pos i32, rlen i32
                if let (Some(slot), Some(l)) = (bytes.get_mut(w[0] + 16..w[0] + 20), ref_len.get(i)) {
                    slot.copy_from_slice(&l.to_le_bytes());
                }
            }
            let mut blocks = vec![bytes[..b[0]].to_vec()];
            for w in b.windows(2) {
                blocks.push(bytes[w[0]..w[1]].to_vec());
            }
            push(Item { kind: Kind::Bcf, name: "bcf/c16-q-sv-rlen-is-ref-length-info-end-says-more-v4.3".into(), bytes: obgzf::build_file(&blocks, obgzf::Enc::Deflate(6), 1), side: corpus::Side::default() }, &mut out);
        }
    }
    out
}

fn salt_of(name: &str, extra: u64) -> u64 {
    fnv1a(name.as_bytes()).wrapping_add(extra.wrapping_mul(0x9E37_79B9)) % 1_000_003
}

fn gen_world(ctx: &Ctx) -> World {
    // `tiny=1` (sanitizer / Miri stages, in-process): the smallest workload whatever the tier
    let tiny = ctx.param("tiny").is_some();
    let quick = ctx.quick() || tiny;
    let size = |key: &str, t: u64, q: u64, th: u64| -> u64 { if tiny { ctx.budget(key, t, t) } else { ctx.budget(key, q, th) } };
    let scale = size("scale", 0, 1, 2) as u8;
    let mut items = corpus::items(ctx.seed, scale);
    if !tiny {
        items.extend(local_items());
        let adj = adjacency_items(&items);
        items.extend(adj);
        let scratch = ctx.work.join(format!("c16-q-{}", std::process::id()));
        let _ = std::fs::create_dir_all(&scratch);
        let qi = query_items(&items, &scratch, quick);
        let _ = std::fs::remove_dir_all(&scratch);
        items.extend(qi);
    }
    let mut cases = Vec::new();
    let item_filter = ctx.param("item").map(|s| s.to_string());
    let per_case = size("pairs_per_case", 8, 8, 16) as usize;
    let n_rot = size("cfgs", 2, 10, 0) as usize; // 0 = full product
    let seed = ctx.seed;
    let only = ctx.param("only").map(|s| s.to_string());
    let want = |k: &str| only.as_deref().map(|o| o.split(',').any(|x| x == k)).unwrap_or(true);

    // --- RD: valid inputs
    if want("rd") {
        for (i, item) in items.iter().enumerate() {
            for &variant in rd::async_variants(item.kind) {
                let bgzf = rd::uses_bgzf(item.kind);
                let salt = salt_of(&item.name, variant as u64);
                let cfgs = if n_rot > 0 { cfgs_rotating(n_rot, salt, seed, bgzf, item.bytes.len()) } else { cfgs_product(salt, seed, bgzf, item.bytes.len()) };
                chunked(What::Rd { item: i, variant, reseal: 0, malform: Malform::None, stream: false }, cfgs, per_case, &mut cases);
            }
        }
    }
    // --- RD: the Stream-returning APIs on valid inputs and on one truncated version each
    if want("rd") || want("stream") {
        for (i, item) in items.iter().enumerate() {
            for &variant in rd::stream_variants(item.kind) {
                let bgzf = rd::uses_bgzf(item.kind);
                let salt = salt_of(&item.name, 300 + variant as u64);
                let n = if n_rot > 0 { (n_rot / 2).max(2) } else { 48 };
                chunked(What::Rd { item: i, variant, reseal: 0, malform: Malform::None, stream: true }, cfgs_rotating(n, salt, seed, bgzf, item.bytes.len()), per_case, &mut cases);
                if !tiny && item.bytes.len() >= 4 && item.bytes.len() <= 300_000 {
                    let m = Malform::Truncate(item.bytes.len() * 2 / 3);
                    chunked(What::Rd { item: i, variant, reseal: 0, malform: m, stream: true }, cfgs_rotating(2, salt + 1, seed, bgzf, item.bytes.len()), per_case, &mut cases);
                }
            }
        }
    }
    // --- RD: schedule exploration on re-blocked BGZF layouts (many small members => many jobs in flight)
    if want("sched") {
        let mut n_sched = 0;
        for (i, item) in items.iter().enumerate() {
            if !rd::has_worker_count(item.kind) || item.side.model.is_none() {
                continue;
            }
            let plen = corpus::inflated_payload(item).map(|p| p.len()).unwrap_or(0);
            if plen < 6_000 || (quick && plen > 200_000) {
                continue;
            }
            // quick: one multi-block item per kind; thorough: all of them
            if quick && !(item.name.contains("multiblock") || item.name.contains("mixed-flushes")) {
                continue;
            }
            let block_len = (plen / 48).clamp(150, 3000);
            let salt = salt_of(&item.name, 77);
            let cfgs = cfgs_schedules(salt, seed, item.bytes.len(), if quick { 3 } else { 4 });
            let variant = *rd::async_variants(item.kind).last().unwrap();
            chunked(What::Rd { item: i, variant, reseal: block_len, malform: Malform::None, stream: false }, cfgs, per_case, &mut cases);
            n_sched += 1;
            if tiny && n_sched >= 1 {
                break;
            }
        }
    }
    // --- RD: malformed inputs
    if want("mal") && !tiny {
        for (i, item) in items.iter().enumerate() {
            if quick && item.bytes.len() > 100_000 {
                continue;
            }
            if !quick && item.bytes.len() > 300_000 {
                continue;
            }
            for &variant in rd::async_variants(item.kind) {
                for (mi, m) in malforms(item, quick).into_iter().enumerate() {
                    let salt = salt_of(&item.name, 1000 + mi as u64 + 100 * variant as u64);
                    let n = if quick { 3 } else { 6 };
                    let cfgs = cfgs_rotating(n, salt, seed, rd::uses_bgzf(item.kind), item.bytes.len());
                    chunked(What::Rd { item: i, variant, reseal: 0, malform: m, stream: false }, cfgs, per_case, &mut cases);
                }
            }
        }
    }
    // --- SK: BGZF histories with seeks
    if want("sk") {
        let n_hist = size("seek_histories", 1, 4, 24);
        for (i, item) in items.iter().enumerate() {
            let eligible = item.kind == Kind::Bgzf || (item.kind == Kind::Bam && item.name.contains("multiblock")) || (!quick && matches!(item.kind, Kind::VcfGz | Kind::Bcf) && item.name.contains("manyblocks"));
            if !eligible || (quick && item.bytes.len() > 100_000) {
                continue;
            }
            for reseal in [0usize, 700] {
                if reseal > 0 && (item.side.model.is_none() || item.kind != Kind::Bgzf && quick) {
                    continue;
                }
                for h in 0..n_hist {
                    let salt = salt_of(&item.name, 5000 + h + reseal as u64);
                    let n = if quick { 3 } else { 8 };
                    let mut cfgs = cfgs_rotating(n, salt, seed, true, item.bytes.len());
                    for c in &mut cfgs {
                        // tiny chunks make a history with many re-reads expensive
                        c.script = scale_script(c.script.clone(), item.bytes.len(), 40_000);
                    }
                    // Pending exactly at member boundaries, worker counts 1 / 2 / 4, slow next inflate job: all of them on
                    // layouts with empty members in front of data, a sample elsewhere
                    let has_empties = reseal == 0 && item.name.contains("empty") || item.name.contains("concatenated") || item.name.contains("eof-markers");
                    cfgs.extend(cfgs_boundary(salt, seed, if has_empties { 8 } else if quick { 1 } else { 3 }));
                    chunked(What::Sk { item: i, reseal, hseed: seed.wrapping_mul(977).wrapping_add(h) }, cfgs, per_case, &mut cases);
                }
            }
        }
    }
    // --- QY: region queries
    if want("qy") && !tiny {
        let n_q = size("query_seeds", 1, 3, 12);
        for (ix, index) in items.iter().enumerate() {
            let Some(dname) = &index.side.indexed_item else { continue };
            let Some(dx) = items.iter().position(|d| &d.name == dname) else { continue };
            for mode in qy::Mode::for_kinds(items[dx].kind, index.kind) {
                for q in 0..n_q {
                    let salt = salt_of(&index.name, 9000 + q + mode.ordinal() * 17);
                    let n = if quick { 3 } else { 8 };
                    let mut cfgs = cfgs_rotating(n, salt, seed, mode.uses_bgzf(), items[dx].bytes.len());
                    for c in &mut cfgs {
                        c.script = scale_script(c.script.clone(), items[dx].bytes.len(), 60_000);
                    }
                    if mode.uses_bgzf() {
                        cfgs.extend(cfgs_boundary(salt, seed, if items[dx].name.contains("c16-q-empties") { if quick { 4 } else { 8 } } else { 1 }));
                    }
                    chunked(What::Qy { data: dx, index: ix, mode, qseed: seed.wrapping_mul(31).wrapping_add(q) }, cfgs, per_case, &mut cases);
                }
            }
        }
    }
    // --- WR: writers
    if want("wr") {
        for (i, item) in items.iter().enumerate() {
            if !item.writable() || !wr::has_async_writer(item.kind) {
                continue;
            }
            let bgzf = wr::has_worker_count(item.kind) || matches!(item.kind, Kind::Csi | Kind::Tbi);
            let model_len = item.side.model.as_ref().map(|m| m.len()).unwrap_or(item.bytes.len()).max(item.bytes.len());
            let levels: Vec<Option<u8>> = if item.kind == Kind::Bgzf && !tiny {
                if quick { vec![None, Some(0), Some(1), Some(9)] } else { (0..=9).map(Some).chain([None]).collect() }
            } else {
                vec![None]
            };
            for (li, level) in levels.into_iter().enumerate() {
                let salt = salt_of(&item.name, 20_000 + li as u64);
                let n = if n_rot > 0 { if tiny { 2 } else { 5 } } else { 48 };
                let mut cfgs = cfgs_rotating(n, salt, seed, bgzf, model_len);
                let multi_block = model_len > 100_000 || item.side.flush_every > 0 || item.name.contains("flushes") || item.name.contains("tinyblocks");
                if bgzf && multi_block && !tiny {
                    // several blocks: add schedule configurations (every worker count, active plans)
                    cfgs.extend(cfgs_schedules(salt, seed, model_len, if quick { 1 } else { 3 }));
                }
                chunked(What::Wr { item: i, level }, cfgs, per_case, &mut cases);
            }
        }
    }
    // --- WC: CRAM write histories that fill more than one (two) containers at the production layout
    if want("wc") && !tiny {
        let ns: &[usize] = if quick { &[10_277, 20_485] } else { &[10_239, 10_240, 10_241, 10_277, 20_481, 20_485, 25_000] };
        for (k, &n) in ns.iter().enumerate() {
            let salt = salt_of("cram-many-records", n as u64);
            let mut cfgs = cfgs_rotating(if quick { 2 } else { 4 }, salt + k as u64, seed, false, 400_000);
            for c in &mut cfgs {
                c.script = scale_script(c.script.clone(), 400_000, 20_000);
            }
            chunked(What::Wc { n }, cfgs, 2, &mut cases);
        }
    }
    // --- WJ: reject-then-accept write histories
    if want("wj") {
        for (i, item) in items.iter().enumerate() {
            let wanted = match item.kind {
                Kind::Sam | Kind::Vcf => item.side.model.is_some() && !item.name.contains("c16-") && (item.name.contains("/small-") || item.name.contains("/tiny-") || (!quick && item.name.contains("multiblock"))),
                Kind::Fastq => item.name.ends_with("small-6reads") || item.name.contains("tiny-") || (!quick && item.name.contains("many-300reads")),
                _ => false,
            };
            if !wanted {
                continue;
            }
            for &kind in rj::kinds_of(item.kind) {
                let salt = salt_of(&item.name, 60_000 + kind as u64);
                let cfgs = cfgs_rotating(if tiny { 1 } else if quick { 4 } else { 16 }, salt, seed, wr::has_worker_count(kind), item.bytes.len().max(1));
                chunked(What::Wj { base: i, kind }, cfgs, per_case, &mut cases);
            }
        }
    }
    // --- WB: seeded BGZF write histories (lengths around the staging limit, odd splits, flush patterns, every level)
    if want("wb") {
        let n_hist = size("bgzf_histories", 2, 30, 500) as usize;
        let mut rng = Rng::new(seed, 0xB7, 0);
        let boundary = vcore::payload::boundary_lengths();
        for h in 0..n_hist {
            let class = *rng.pick(&["text", "dna", "random", "runs", "skewed", "qualities", "random_with_repeats", "zeros", "cycle256"]);
            let len = match h % 5 {
                0 => *rng.pick(&boundary),
                1 => rng.urange(0, 3000),
                2 => rng.urange(60_000, 140_000),
                3 => rng.urange(3, 9) * 65280 + rng.urange(0, 2) * 65280 / 2,
                _ => rng.urange(200_000, if quick { 500_000 } else { 1_500_000 }),
            };
            let len = if tiny { len.min(2000) } else { len };
            let split = if len <= 3000 { *rng.pick(&["all", "ones", "small", "halves"]) } else { *rng.pick(&["all", "mixed", "blocks", "halves", "mixed"]) };
            let flush_every = *rng.pick(&[0usize, 0, 1, 2, 3, 7]);
            let level = rng.below(10) as u8;
            let pseed = seed.wrapping_mul(1_000_003).wrapping_add(h as u64);
            let salt = salt_of(class, 40_000 + h as u64);
            let mut cfgs = cfgs_rotating(if quick { 3 } else { 6 }, salt, seed, true, len.max(1));
            if len > 130_000 && !tiny {
                cfgs.extend(cfgs_schedules(salt, seed, len, 1).into_iter().skip(h % 3).step_by(3));
            }
            for c in &mut cfgs {
                c.script = scale_script(c.script.clone(), len.max(1), 150_000);
            }
            chunked(What::Wb { class, len, split, flush_every, level, pseed }, cfgs, per_case, &mut cases);
        }
    }
    if let Some(f) = &item_filter {
        // debugging aid: keep only the cases whose description mentions the given substring
        let probe = World { items, cases: Vec::new() };
        cases.retain(|c| case_json(&probe, c)["what"].to_string().contains(f.as_str()));
        return World { items: probe.items, cases };
    }
    World { items, cases }
}

// ------------------------------------------------------------------------------------------------
// running
// ------------------------------------------------------------------------------------------------

fn stats_fold(o: &mut CaseOut, module: &str, st: &PollStats) {
    o.count(&format!("polls[{module}]"), st.polls);
    o.count(&format!("pending_injections[{module}]"), st.pendings);
    o.count(&format!("partial_transfers[{module}]"), st.partial);
}

fn order_fold(o: &mut CaseOut, module: &str, what: &str, workers: Option<usize>, plan: &str, st: &hook::OrderStats) {
    if st.tasks == 0 {
        return;
    }
    // readers / writers that build their BGZF layer themselves use the default worker count (number of CPUs)
    let w = workers.map(|w| w.to_string()).unwrap_or_else(|| "default".into());
    o.count(&format!("{what}_tasks[{module}]"), st.tasks);
    o.count(&format!("{what}_inversions[{module}]"), st.inversions);
    o.count(&format!("{what}_tasks[w={w}]"), st.tasks);
    o.count(&format!("{what}_inversions[w={w}]"), st.inversions);
    o.max(&format!("max_{what}_in_flight[w={w}]"), st.max_in_flight);
    o.max(&format!("max_{what}_displacement"), st.max_displacement);
    if plan != "none" {
        o.count(&format!("{what}_scheduled_runs[w={w}]"), 1);
    }
    if st.inversions > 0 {
        o.fps.push(fnv1a(format!("{what}|{w}|{}", st.order_hash).as_bytes()));
    }
}

fn script_class_name(s: &PollScript) -> String {
    format!("c{}{}p{}/{}", s.max_chunk, if s.random { "r" } else { "" }, s.pending_num, s.pending_den)
}

fn cfg_fp(module: &str, sub: &str, c: &Cfg) -> u64 {
    fnv1a(format!("{module}|{sub}|{}|{}|{}|{}|{}", script_class_name(&c.script), c.flavor.name(), c.workers, c.plan, c.boundary).as_bytes())
}

fn pair_counters(o: &mut CaseOut, module: &str, part: &str, c: &Cfg, workers: Option<usize>) {
    o.count(&format!("pairs[{module}]"), 1);
    o.count(&format!("pairs_{part}"), 1);
    o.count(&format!("runtime_used[{}]", c.flavor.name()), 1);
    if let Some(w) = workers {
        o.count(&format!("workers_used[{w}]"), 1);
    }
}

/// The read adversary of a configuration over `data` (BGZF member starts = stall offsets of the boundary adversary).
fn make_src(data: &Arc<Vec<u8>>, cfg: &Cfg, member_starts: &Arc<Vec<u64>>) -> bread::Src {
    if cfg.boundary {
        bread::Src::Boundary(bread::BoundaryRead::new(data.clone(), member_starts.clone(), cfg.script.max_chunk))
    } else {
        bread::Src::Poll(PollRead::new(data.clone(), cfg.script.clone()))
    }
}

/// The independent walk of the longest prefix of complete, valid members. `vcore::bgzf::walk_prefix` refuses a file with a
/// MALFORMED member (a flipped bit); positions in front of that member still denote bytes, so the members before it are
/// walked (member boundaries from the BSIZE chain, binary search for the last boundary up to which the strict walker
/// agrees) and the offset of the malformed member becomes the end of the walk.
fn walk_valid_prefix(bytes: &[u8]) -> Option<(obgzf::Walk, usize)> {
    if let Ok(w) = obgzf::walk_prefix(bytes) {
        return Some(w);
    }
    let mut bounds = vec![0usize];
    let mut p = 0usize;
    while p + 18 <= bytes.len() {
        let size = u16::from_le_bytes([bytes[p + 16], bytes[p + 17]]) as usize + 1;
        if bytes[p] != 0x1f || bytes[p + 1] != 0x8b || size < 26 || p + size > bytes.len() {
            break;
        }
        p += size;
        bounds.push(p);
    }
    // largest k with bytes[..bounds[k]] walking cleanly (a prefix of valid members walks cleanly: monotone)
    let (mut lo, mut hi) = (0usize, bounds.len() - 1);
    while lo < hi {
        let mid = (lo + hi + 1) / 2;
        match obgzf::walk_prefix(&bytes[..bounds[mid]]) {
            Ok((_, end)) if end == bounds[mid] => lo = mid,
            _ => hi = mid - 1,
        }
    }
    match obgzf::walk_prefix(&bytes[..bounds[lo]]) {
        Ok((w, end)) if end == bounds[lo] => Some((w, end)),
        _ => None,
    }
}

fn member_starts_of(bytes: &[u8]) -> Arc<Vec<u64>> {
    let mut v: Vec<u64> = match obgzf::walk_prefix(bytes) {
        Ok((w, end)) => w.members.iter().map(|m| m.offset).chain([end as u64]).collect(),
        Err(_) => Vec::new(),
    };
    v.sort_unstable();
    v.dedup();
    Arc::new(v)
}

fn frames_of(bytes: &[u8]) -> Vec<Vec<u8>> {
    match obgzf::walk_prefix(bytes) {
        Ok((w, _)) => w.members.iter().map(|m| bytes[m.offset as usize..(m.offset + m.size) as usize].to_vec()).collect(),
        Err(_) => Vec::new(),
    }
}

fn elem_class(s: &str) -> &'static str {
    match s.as_bytes().first() {
        _ if s == "END" => "end",
        _ if s.starts_with("ERR:") => "error",
        _ if s.starts_with("QERR:") => "query-error",
        Some(b'H') => "header",
        Some(b'R') => "record",
        Some(b'V') => "virtual-position",
        Some(b'D') | Some(b'B') => "bytes",
        Some(b'C') => "container",
        Some(b'I') => "index",
        Some(b'Q') => "query",
        _ => "element",
    }
}

fn terminator(t: &[String]) -> (&[String], &str) {
    match t.last() {
        Some(l) if l == "END" || l.starts_with("ERR:") => (&t[..t.len() - 1], l.as_str()),
        _ => (t, "-"),
    }
}

/// Class of the difference between the sync (expected) and the async (got) transcript, and the index of the first
/// differing element. The class names the RELATION of the two element sequences (terminator set aside) and, if they
/// differ, the two terminators — not the element index, so that it is stable across seeds:
///   same-elements:<sync end>-><async end>      same elements, other terminator (error kind, spurious / missed error)
///   async-stops-early[:a->b]                   async elements are a proper prefix of the sync elements
///   async-goes-on[:a->b]                       sync elements are a proper prefix of the async elements
///   diverges-at-<element class>[:a->b]         the element sequences themselves differ
fn diff_class(expected: &[String], got: &[String]) -> Option<(usize, String)> {
    let i = (0..expected.len().max(got.len())).find(|&i| expected.get(i) != got.get(i))?;
    let (eb, et) = terminator(expected);
    let (gb, gt) = terminator(got);
    let relation = if eb == gb {
        "same-elements".to_string()
    } else if gb.len() < eb.len() && eb[..gb.len()] == *gb {
        "async-stops-early".to_string()
    } else if eb.len() < gb.len() && gb[..eb.len()] == *eb {
        "async-goes-on".to_string()
    } else {
        let j = (0..eb.len().max(gb.len())).find(|&j| eb.get(j) != gb.get(j)).unwrap_or(0);
        match (eb.get(j), gb.get(j)) {
            (Some(e), Some(g)) if elem_class(e) == elem_class(g) => format!("diverges-at-{}", elem_class(e)),
            (Some(e), Some(g)) => format!("diverges-at-{}-instead-of-{}", elem_class(g), elem_class(e)),
            (Some(e), None) => format!("diverges-at-missing-{}", elem_class(e)),
            (None, Some(g)) => format!("diverges-at-extra-{}", elem_class(g)),
            (None, None) => "diverges".to_string(),
        }
    };
    let class = if et == gt { relation } else { format!("{relation}:{et}->{gt}") };
    Some((i, class))
}

/// Where a truncated BGZF-wrapped input was cut, relative to its members (independent walker).
fn cut_class(bytes: &[u8]) -> &'static str {
    match obgzf::walk_prefix(bytes) {
        Ok((_, end)) => match bytes.len() - end {
            0 => "truncated-at-member-boundary",
            1..=17 => "truncated-in-member-header",
            _ => "truncated-in-member-body",
        },
        Err(_) => "truncated",
    }
}

/// Uncompressed data offset a virtual position denotes: `(offset of member i, u)` with `u <= len(member i)` denotes
/// `start(i) + u`; `(end of the walkable members, 0)` and `(file length, 0)` denote the end of the data. (End of member i,
/// start of member i+1 and — across empty members — start of the next non-empty member all denote the same byte.)
/// None if the position does not denote a byte boundary at all.
fn data_offset(walk: &obgzf::Walk, walked_end: usize, file_len: usize, v: u64) -> Option<u64> {
    let (c, u) = (v >> 16, v & 0xffff);
    if (c == file_len as u64 || c == walked_end as u64) && u == 0 {
        return Some(walk.total);
    }
    let i = walk.members.iter().position(|m| m.offset == c)?;
    if u as usize <= walk.members[i].data.len() { Some(walk.starts[i] + u) } else { None }
}

/// Chunk model of `csi::io::Query` written from the independent walk: can `output` be explained as, for every chunk
/// (start, end) in order, the payload from the offset the start denotes up to x, where x is
///  * the end of the member that contains the end offset, if that offset lies strictly inside a member (a Query hands out
///    whole block remainders), or
///  * the end offset itself OR the end of the next non-empty member, if the end offset is a member boundary: the Query
///    compares RAW virtual positions, so whether it reads one more member depends on which of the equivalent positions the
///    reader shows at that moment (across empty members: on the schedule, for the async reader).
/// Used when the sync and async outputs differ: both explained => measured, not judged.
fn chunk_model_explains(output: &[u8], chunks: &[(u64, u64)], walk: &obgzf::Walk, walked_end: usize, file_len: usize) -> bool {
    let payload = walk.concat();
    // non-empty members as (start, end) in the payload
    let spans: Vec<(u64, u64)> = walk.members.iter().zip(&walk.starts).filter(|(m, _)| !m.data.is_empty()).map(|(m, s)| (*s, *s + m.data.len() as u64)).collect();
    let cands = |at: u64| -> Vec<u64> {
        match spans.iter().find(|(s, e)| *s < at && at < *e) {
            Some((_, e)) => vec![*e],
            None => {
                let mut v = vec![at];
                if let Some((_, e)) = spans.iter().find(|(s, _)| *s == at) {
                    v.push(*e);
                }
                v
            }
        }
    };
    fn go(out: &[u8], k: usize, chunks: &[(u64, u64)], payload: &[u8], offs: &dyn Fn(u64) -> Option<u64>, cands: &dyn Fn(u64) -> Vec<u64>) -> bool {
        let Some((s, e)) = chunks.get(k) else { return out.is_empty() };
        let (Some(os), Some(oe)) = (offs(*s), offs(*e)) else { return true }; // not a byte boundary: the model has no opinion
        let xs: Vec<u64> = if oe > os {
            cands(oe)
        } else if e > s {
            // same byte, raw-greater end (empty members in between): nothing, or the next member
            cands(os).into_iter().chain([os]).collect()
        } else {
            vec![os]
        };
        xs.into_iter().any(|x| {
            let seg = &payload[os as usize..(x.max(os) as usize).min(payload.len())];
            // (a fill at the end of the data hands the consumer an empty window: it stops, whatever chunks are left)
            out.starts_with(seg) && (go(&out[seg.len()..], k + 1, chunks, payload, offs, cands) || (x as usize >= payload.len() && out.len() == seg.len()))
        })
    }
    go(output, 0, chunks, &payload, &|v| data_offset(walk, walked_end, file_len, v), &cands)
}

/// Replaces every `V:<raw virtual position>` element by `V@<denoted uncompressed offset>` (or `V?<raw>` when the value
/// denotes no byte boundary, which then has to agree raw).
fn normalise_positions(t: &mut [String], walk: &obgzf::Walk, walked_end: usize, file_len: usize) {
    for s in t.iter_mut() {
        for tag in ["V", "P"] {
            if let Some(raw) = s.strip_prefix(tag).and_then(|x| x.strip_prefix(':')).and_then(|x| x.parse::<u64>().ok()) {
                *s = match data_offset(walk, walked_end, file_len, raw) {
                    Some(o) => format!("{tag}@{o}"),
                    None => format!("{tag}?{}:{}", raw >> 16, raw & 0xffff),
                };
                break;
            }
        }
    }
}

fn short(s: &str) -> String {
    let s: String = s.chars().take(300).collect();
    s.replace('\u{1f}', "␟").replace('\u{1e}', " // ")
}

fn strip_all(v: Vec<String>) -> Vec<String> {
    v.into_iter().map(|s| rd::strip_msg(&s).to_string()).collect()
}

fn run_err(o: &mut CaseOut, sig_prefix: &str, what: &str, cfg: &Cfg, e: RunErr) {
    match e {
        RunErr::Panic(p) => o.violation(format!("{sig_prefix}:panic:{}", p.sig), format!("{what}: the async side panicked: {} [{}]", p.message, cfg_json(cfg))),
        RunErr::Timeout => o.inconclusive.push(format!("{what}: wall-clock timeout of {} s fired [{}]", rt::timeout_s(), cfg_json(cfg))),
        RunErr::Runtime(m) => o.inconclusive.push(format!("{what}: runtime problem: {m} [{}]", cfg_json(cfg))),
    }
}

fn run_rd(w: &World, o: &mut CaseOut, item: &Item, variant: Variant, reseal: usize, malform: &Malform, stream: bool, cfgs: &[Cfg]) {
    let kind = item.kind;
    let module = kind.name();
    let base = resealed(item, reseal);
    let bytes = apply_malform(&base, malform);
    let _ = w;
    let side = item.side.clone();
    let part = if stream { "reader_stream_api" } else if *malform != Malform::None { "reader_malformed" } else if reseal > 0 { "reader_reblocked" } else { "reader_valid" };
    // sync oracle
    let expected = match guard::catch(|| corpus::transcript_read_variant(kind, variant, &bytes[..], &side, false, corpus::DEFAULT_CAP)) {
        Ok(t) => t,
        Err(p) => {
            if *malform == Malform::None {
                o.inconclusive.push(format!("{}: the SYNC reader panicked on a valid item ({}): not a C16 matter", item.name, p.sig));
            }
            o.count("sync_reader_panicked_input_skipped", 1);
            return;
        }
    };
    let sync_msg = corpus::last_error_message();
    // a stream borrows the reader: no virtual positions in between
    let expected: Vec<String> = if stream { expected.into_iter().filter(|s| !s.starts_with("V:")).collect() } else { expected };
    if *malform == Malform::None && expected.last().map(|s| s.as_str()) != Some("END") {
        o.inconclusive.push(format!("{}: the sync transcript of a valid item ends with {:?}", item.name, expected.last()));
    }
    if expected.last().map(|s| s.starts_with("ERR:")).unwrap_or(false) {
        o.count(&format!("inputs_with_sync_error[{module}]"), 1);
    }
    let frames = if rd::uses_bgzf(kind) { frames_of(&bytes) } else { Vec::new() };
    // virtual positions are compared by the byte they denote (independent walker), not by their raw value
    let walked = if kind.is_bgzf_wrapped() { walk_valid_prefix(&bytes) } else { None };
    let mut expected = expected;
    if let Some((walk, end)) = &walked {
        normalise_positions(&mut expected, walk, *end, bytes.len());
    }
    let sync_rejects = expected.last().map(|s| s.starts_with("ERR:")).unwrap_or(false);
    let data = Arc::new(bytes);
    let api = if stream { "stream-" } else { "" };
    let sig_prefix = format!("{module}:reader:{api}{}:{}", variant_name(variant), malform.class());
    for cfg in cfgs {
        let wl = if rd::has_worker_count(kind) { Some(cfg.workers) } else { None };
        pair_counters(o, module, part, cfg, wl);
        let mut prng = Rng::new(cfg.script.seed, 0xD1, cfg.workers as u64);
        hook::arm(&frames, hook::make_delays(cfg.plan, frames.len(), cfg.workers, &mut prng));
        let src = PollRead::new(data.clone(), cfg.script.clone());
        let stats = src.stats.clone();
        let res = if stream { rt::run(cfg.flavor, rd::transcript_stream(kind, variant, src, cfg.workers)) } else { rt::run(cfg.flavor, rd::transcript(kind, variant, src, side.clone(), cfg.workers)) };
        let log = hook::disarm();
        stats_fold(o, module, &stats.lock().unwrap());
        if rd::uses_bgzf(kind) {
            let st = hook::analyse(&log, true);
            if wl == Some(1) {
                // a purely sequential read at worker count 1 has one inflate job at a time (a seek orphans jobs in flight:
                // the seek / query parts may show inversions at worker count 1)
                o.count("inflate_inversions_sequential_reader[w=1]", st.inversions);
            }
            order_fold(o, module, "inflate", wl, cfg.plan, &st);
        }
        o.fps.push(cfg_fp(module, &format!("rd|{}|{}|{}|{}", variant_name(variant), malform.class(), reseal > 0, stream), cfg));
        match res {
            Err(e) => run_err(o, &sig_prefix, &format!("{} ({:?})", item.name, malform), cfg, e),
            Ok(got_raw) => {
                let mut got = strip_all(got_raw.clone());
                if let Some((walk, end)) = &walked {
                    normalise_positions(&mut got, walk, *end, data.len());
                }
                if let Some((i, class)) = diff_class(&expected, &got) {
                    let mut sig = rd_signature(kind, variant, malform, &data, &expected, &got, i, &class);
                    if stream && !sig.starts_with("bgzf-layer:") {
                        sig = sig.replacen(":reader:", ":reader:stream-", 1);
                    }
                    // The quantifier ranges over inputs the sync path ACCEPTS. On an input the sync reader rejects, what is
                    // yielded BEFORE the error still has to agree as far as both sides get (a content difference is a
                    // difference in what is yielded); the kind of the final error and where it surfaces (one side stopping
                    // earlier / going on longer / not failing) are measured, not judged.
                    if sync_rejects {
                        let (eb, _) = terminator(&expected);
                        let (gb, _) = terminator(&got);
                        let n = eb.len().min(gb.len());
                        if eb[..n] == gb[..n] {
                            o.count(&format!("observed_not_judged[{sig}]"), 1);
                            o.count("reader_pairs_sync_rejects_input_prefix_agrees", 1);
                            continue;
                        }
                    }
                    o.violation_with(
                        sig,
                        format!(
                            "{} [{:?}, reseal {}]: element #{i}: sync reader: {:?}; async reader: {:?} (sync transcript {} elements, async {}; element before: {:?}; async continues with {:?}) [{}]",
                            item.name,
                            malform,
                            reseal,
                            expected.get(i).map(|s| short(s)),
                            got_raw.get(i).map(|s| short(s)),
                            expected.len(),
                            got.len(),
                            i.checked_sub(1).and_then(|j| expected.get(j)).map(|s| short(s)),
                            got_raw.get(i + 1..(i + 3).min(got_raw.len())).map(|v| v.iter().map(|s| short(s)).collect::<Vec<_>>()),
                            cfg_json(cfg)
                        ),
                        json!({"sync_error_message": sync_msg, "note": "V@n = uncompressed offset denoted by a virtual position"}),
                    );
                } else {
                    o.count("reader_pairs_equal", 1);
                }
            }
        }
    }
}

/// Signature of a reader difference: `<kind>:reader:<variant>:<input class>:<difference class>`. BGZF-wrapped truncated
/// inputs carry where they were cut (member boundary / header / body); one root cause is named: FASTA / FASTQ elements
/// that differ only in carriage returns.
#[allow(clippy::too_many_arguments)]
fn rd_signature(kind: Kind, variant: Variant, malform: &Malform, bytes: &[u8], expected: &[String], got: &[String], i: usize, class: &str) -> String {
    let mut input = malform.class();
    if kind.is_bgzf_wrapped() {
        if let Malform::Truncate(_) = malform {
            input = cut_class(bytes);
        }
    }
    if matches!(kind, Kind::Fasta | Kind::Fastq) && class.starts_with("diverges-at-record") {
        if let (Some(e), Some(g)) = (expected.get(i), got.get(i)) {
            // `corpus::render::esc` shows a carriage return as the two characters `\r`
            let (ne, ng) = (e.matches("\\r").count(), g.matches("\\r").count());
            if ne != ng && g.replace("\\r", "") == e.replace("\\r", "") {
                // the elements differ only in carriage returns: line-terminator handling depends on where the reads of
                // the underlying source end (CR | LF split => kept; a lone CR at the end of a read => dropped)
                let which = if ng > ne { "async-keeps-carriage-return" } else { "async-drops-lone-carriage-return" };
                return format!("{}:reader:{}:crlf-input:{which}", kind.name(), variant_name(variant));
            }
        }
    }
    format!("{}:reader:{}:{}:{}", kind.name(), variant_name(variant), input, class)
}

fn run_sk(o: &mut CaseOut, item: &Item, reseal: usize, hseed: u64, cfgs: &[Cfg], quick: bool) {
    let module = "bgzf-seek";
    let bytes = resealed(item, reseal);
    let Ok(walk) = obgzf::walk(&bytes) else {
        o.inconclusive.push(format!("{}: not walkable", item.name));
        return;
    };
    let mut rng = Rng::new(hseed, 0x5E, fnv1a(item.name.as_bytes()));
    let ops = sk::gen_ops(&mut rng, &walk, bytes.len(), if quick { 24 } else { 48 });
    let index = sk::gzi_of(&walk);
    let expected = match guard::catch(|| sk::drive_sync(&bytes, &index, &ops)) {
        Ok(t) => t,
        Err(p) => {
            o.inconclusive.push(format!("{}: the SYNC reader panicked on the seek history (C02 territory): {}", item.name, p.sig));
            return;
        }
    };
    let frames = frames_of(&bytes);
    // positions (after every operation, and the one a seek returns) are compared by the byte they denote
    let file_len = bytes.len();
    let denote = |obs: &[sk::Obs]| -> Vec<sk::Obs> {
        let d = |v: u64| data_offset(&walk, file_len, file_len, v).unwrap_or(v | 1 << 63);
        obs.iter().map(|x| if x.result == "ok" { sk::Obs { vpos: d(x.vpos), ret: x.ret.map(d), ..x.clone() } } else { x.clone() }).collect()
    };
    let expected_raw = expected;
    let expected = denote(&expected_raw);
    let member_starts = member_starts_of(&bytes);
    let data = Arc::new(bytes);
    for cfg in cfgs {
        pair_counters(o, module, "seek", cfg, Some(cfg.workers));
        o.count("seek_ops", ops.iter().filter(|x| x.is_seek()).count() as u64);
        o.count("poll_seek_ops", ops.iter().filter(|x| matches!(x, sk::Op::PollSeek(_) | sk::Op::Query(_))).count() as u64);
        let mut prng = Rng::new(cfg.script.seed, 0xD2, cfg.workers as u64);
        hook::arm(&frames, hook::make_delays(cfg.plan, frames.len(), cfg.workers, &mut prng));
        let src = make_src(&data, cfg, &member_starts);
        let stats = src.stats();
        let res = rt::run(cfg.flavor, sk::drive_async(src, cfg.workers, index.clone(), ops.clone()));
        let log = hook::disarm();
        stats_fold(o, module, &stats.lock().unwrap());
        order_fold(o, module, "inflate", Some(cfg.workers), cfg.plan, &hook::analyse(&log, true));
        o.fps.push(cfg_fp(module, &format!("sk|{}", reseal > 0), cfg));
        match res {
            Err(e) => run_err(o, "bgzf:seek", &item.name, cfg, e),
            Ok(got_raw) => {
                let got = denote(&got_raw);
                // every operation is compared; after an operation that differs, the reader state is tainted until the next
                // seek re-establishes it (consequences of one difference are not reported as further differences)
                let mut tainted = false;
                let mut sigs: Vec<String> = Vec::new();
                let mut compared = 0u64;
                for i in 0..expected.len().max(got.len()) {
                    let is_seek = ops.get(i).map(|x| x.is_seek()).unwrap_or(false);
                    // a history stops at its first error: if that happens on one side inside a tainted stretch, the rest of the
                    // two histories is not comparable
                    let stopped = |x: Option<&sk::Obs>| x.map(|x| x.result.starts_with("err")).unwrap_or(true);
                    if tainted && (stopped(expected.get(i)) || stopped(got.get(i))) {
                        break;
                    }
                    if is_seek {
                        tainted = false;
                    }
                    if tainted {
                        continue;
                    }
                    compared += 1;
                    let Some(mut class) = sk::obs_diff(expected.get(i), got.get(i)) else { continue };
                    tainted = true;
                    if let (Some(sk::Op::Query(chunks)), Some(e), Some(g)) = (ops.get(i), expected.get(i), got.get(i)) {
                        if let (Some(eb), Some(gb)) = (e.bytes.as_ref().filter(|b| Some(*b) != g.bytes.as_ref()), &g.bytes) {
                            // the outputs differ: judged against the chunk model
                            let ok = |b: &[u8]| chunk_model_explains(b, chunks, &walk, file_len, file_len);
                            match (ok(eb), ok(gb)) {
                                (true, true) => {
                                    o.count("observed_not_judged[bgzf:csi-query:how-far-past-a-chunk-end-on-a-member-boundary]", 1);
                                    continue;
                                }
                                (false, _) => {
                                    o.count("csi_query_model_does_not_explain_the_sync_output", 1);
                                    o.inconclusive.push(format!(
                                        "{}: the chunk model does not explain the SYNC csi Query output for {:?} ({} bytes; chunk offsets {:?}; payload {} bytes; member spans {:?}): no verdict on this operation",
                                        item.name,
                                        e.op,
                                        eb.len(),
                                        chunks.iter().map(|(s, e)| (data_offset(&walk, file_len, file_len, *s), data_offset(&walk, file_len, file_len, *e))).collect::<Vec<_>>(),
                                        walk.total,
                                        walk.members.iter().zip(&walk.starts).map(|(m, s)| (m.offset, *s, m.data.len())).collect::<Vec<_>>().iter().rev().take(8).collect::<Vec<_>>()
                                    ));
                                    continue;
                                }
                                (true, false) => class = "output-not-explained-by-its-chunks",
                            }
                        }
                    }
                    let op = match ops.get(i) {
                        Some(sk::Op::Seek(_)) => "seek",
                        Some(sk::Op::SeekU(_)) => "seek-uncompressed",
                        Some(sk::Op::PollSeek(_)) => "poll_seek",
                        Some(sk::Op::Query(_)) => "csi-query",
                        Some(_) => "read-after-seek",
                        None => "end",
                    };
                    let last_seek = ops[..=i.min(ops.len() - 1)].iter().rev().find_map(|x| match x {
                        sk::Op::Seek(v) | sk::Op::PollSeek(v) => Some(seek_target_class(&walk, data.len(), *v)),
                        sk::Op::Query(c) => c.last().map(|c| seek_target_class(&walk, data.len(), c.0)),
                        sk::Op::SeekU(_) => Some("uncompressed-offset"),
                        _ => None,
                    });
                    let sig = format!("bgzf:seek:{class}:{op}:{}", last_seek.unwrap_or("no-seek-before"));
                    if sigs.contains(&sig) {
                        continue;
                    }
                    sigs.push(sig.clone());
                    o.violation(
                        sig,
                        format!(
                            "{} (reseal {}): operation #{i} {:?}: sync reader observed {:?}, async reader {:?} (raw positions; compared by the uncompressed offset they denote); history: {:?} [{}]",
                            item.name,
                            reseal,
                            ops.get(i),
                            expected_raw.get(i),
                            got_raw.get(i),
                            &ops[i.saturating_sub(6)..=i.min(ops.len() - 1)],
                            cfg_json(cfg)
                        ),
                    );
                    if expected.get(i).map(|e| e.result.starts_with("err")).unwrap_or(true) || got.get(i).map(|g| g.result.starts_with("err")).unwrap_or(true) {
                        break; // one side stopped here
                    }
                }
                o.count("seek_ops_compared", compared);
                if sigs.is_empty() {
                    o.count("seek_pairs_equal", 1);
                }
            }
        }
    }
}

fn seek_target_class(walk: &obgzf::Walk, file_len: usize, v: u64) -> &'static str {
    let (c, u) = (v >> 16, v & 0xffff);
    if c == file_len as u64 {
        return "end-of-file";
    }
    match walk.members.iter().position(|m| m.offset == c) {
        Some(i) => {
            let m = &walk.members[i];
            if m.is_eof_marker {
                "eof-marker"
            } else if m.data.is_empty() {
                "empty-member"
            } else if u == 0 {
                "member-start"
            } else {
                "inside-member"
            }
        }
        None => "not-a-member",
    }
}

/// Record counts after which a sequential read sits exactly at the end of a BGZF member (see `qy::counts_at_block_ends`).
fn block_end_counts(item: &Item, mode: qy::Mode) -> Vec<usize> {
    let (Some(payload), Some(mut b), Ok(walk)) = (corpus::inflated_payload(item), corpus::record_boundaries_in_payload(item), obgzf::walk(&item.bytes)) else {
        return Vec::new();
    };
    if matches!(item.kind, Kind::SamGz | Kind::VcfGz) && mode != qy::Mode::GenericTbi {
        // line starts: drop the header lines (the generic indexed reader starts at position 0 and reads them too)
        let c = if item.kind == Kind::SamGz { b'@' } else { b'#' };
        b.retain(|&p| p >= payload.len() || payload[p] != c);
    }
    qy::counts_at_block_ends(&b, &walk.starts)
}

fn run_qy(o: &mut CaseOut, data: &Item, index: &Item, mode: qy::Mode, qseed: u64, cfgs: &[Cfg], quick: bool) {
    let module = format!("query-{}", mode.name());
    let refs = match guard::catch(|| qy::references(mode, &data.bytes)) {
        Ok(Ok(r)) => r,
        _ => {
            o.inconclusive.push(format!("{}: cannot read the header with the sync reader", data.name));
            return;
        }
    };
    let spans = match guard::catch(|| qy::record_spans(mode, &data.bytes, &data.side)) {
        Ok(Ok(s)) => s,
        _ => Vec::new(),
    };
    let at_block_end = if mode.supports_read() { block_end_counts(data, mode) } else { Vec::new() };
    let mut rng = Rng::new(qseed, 0x9E, fnv1a(index.name.as_bytes()));
    let queries = qy::gen_queries(&mut rng, mode, &refs, &spans, &at_block_end, if quick { 5 } else { 9 });
    let walked = if mode.uses_bgzf() { walk_valid_prefix(&data.bytes) } else { None };
    let norm = |mut t: Vec<String>| -> Vec<String> {
        if let Some((walk, end)) = &walked {
            normalise_positions(&mut t, walk, *end, data.bytes.len());
        }
        t
    };
    let expected = match guard::catch(|| qy::run_sync(mode, &data.bytes, &index.bytes, &data.side, &queries)) {
        Ok(Ok(t)) => norm(strip_all(t)),
        Ok(Err(e)) => {
            o.inconclusive.push(format!("{} + {}: the sync side cannot start the query history: {e}", data.name, index.name));
            return;
        }
        Err(p) => {
            o.inconclusive.push(format!("{} + {}: the SYNC query panicked: {}", data.name, index.name, p.sig));
            return;
        }
    };
    o.count(&format!("query_records_sync[{}]", mode.name()), expected.iter().filter(|s| s.starts_with("R:")).count() as u64);
    for q in &queries {
        o.count(&format!("query_ops[{}]", q.class()), 1);
    }
    // does the operation re-establish the reader position by seeking? (a sequential read does not, and neither does a
    // region query for which the index has no chunk: where they leave the reader depends on the operation before)
    let seeks: Vec<bool> = {
        let lists = if mode.uses_bgzf() { guard::catch(|| qy::chunk_lists(mode, &data.bytes, &index.bytes, &queries)).ok().and_then(|r| r.ok()) } else { None };
        queries
            .iter()
            .enumerate()
            .map(|(i, q)| match q {
                qy::Q::Read(_) => false,
                qy::Q::Rewind | qy::Q::Unmapped => true,
                _ => match &lists {
                    Some(l) => l.get(i).cloned().flatten().map(|c| !c.is_empty()).unwrap_or(false),
                    None => true,
                },
            })
            .collect()
    };
    let raw_chunks: Vec<Option<Vec<(u64, u64)>>> = if mode.is_raw() {
        match guard::catch(|| qy::chunk_lists(mode, &data.bytes, &index.bytes, &queries)) {
            Ok(Ok(l)) => l.into_iter().map(|c| c.map(|c| c.iter().map(|c| (u64::from(c.start()), u64::from(c.end()))).collect())).collect(),
            _ => Vec::new(),
        }
    } else {
        Vec::new()
    };
    let frames = if mode.uses_bgzf() { frames_of(&data.bytes) } else { Vec::new() };
    let member_starts = if mode.uses_bgzf() { member_starts_of(&data.bytes) } else { Arc::new(Vec::new()) };
    let bytes = Arc::new(data.bytes.clone());
    for cfg in cfgs {
        let wl = if mode.has_worker_count() { Some(cfg.workers) } else { None };
        pair_counters(o, &module, "query", cfg, wl);
        o.count("queries", queries.len() as u64);
        let mut prng = Rng::new(cfg.script.seed, 0xD3, cfg.workers as u64);
        hook::arm(&frames, hook::make_delays(cfg.plan, frames.len(), cfg.workers, &mut prng));
        let src = make_src(&bytes, cfg, &member_starts);
        let stats = src.stats();
        let res = rt::run(cfg.flavor, qy::run_async(mode, src, data.bytes.clone(), index.bytes.clone(), data.side.clone(), queries.clone(), cfg.workers));
        let log = hook::disarm();
        stats_fold(o, &module, &stats.lock().unwrap());
        if mode.uses_bgzf() {
            order_fold(o, &module, "inflate", wl, cfg.plan, &hook::analyse(&log, true));
        }
        o.fps.push(cfg_fp(&module, "qy", cfg));
        let sig_prefix = format!("{}:query", mode.name());
        match res {
            Err(e) => run_err(o, &sig_prefix, &format!("{} + {}", data.name, index.name), cfg, e),
            Ok(Err(e)) => o.violation(
                format!("{sig_prefix}:setup-error:{:?}", e.kind()),
                format!("{} + {}: the async side failed before the first query ({e}) where the sync side succeeded [{}]", data.name, index.name, cfg_json(cfg)),
            ),
            Ok(Ok(got_raw)) => {
                let got = norm(strip_all(got_raw.clone()));
                // every operation of the history is compared on its own: a query / rewind starts with a seek; a sequential
                // read (and a query without chunks) depends on where the previous operation left the reader, so after a
                // difference such operations count as tainted until the next seeking operation
                let (es, gs) = (segments(&expected), segments(&got));
                let mut sigs: Vec<String> = Vec::new();
                let mut tainted = false;
                for qi in 0..es.len().max(gs.len()) {
                    let (e, g) = (es.get(qi).copied().unwrap_or(&[]), gs.get(qi).copied().unwrap_or(&[]));
                    let q = queries.get(qi);
                    if seeks.get(qi).copied().unwrap_or(true) {
                        tainted = false;
                    }
                    if tainted {
                        continue;
                    }
                    o.count("query_segments_compared", 1);
                    // position after a QUERY: measured, not judged (see qy::Qt::pos); a difference taints what follows
                    let (pe, pg) = (e.iter().find(|s| s.starts_with('P')), g.iter().find(|s| s.starts_with('P')));
                    let position_differs = pe != pg && pe.is_some() && pg.is_some();
                    let (ev, gv): (Vec<String>, Vec<String>) = (e.iter().filter(|s| !s.starts_with('P')).cloned().collect(), g.iter().filter(|s| !s.starts_with('P')).cloned().collect());
                    let (e, g) = (&ev[..], &gv[..]);
                    if position_differs {
                        o.count("observed_not_judged[query:reader-position-after-a-query]", 1);
                        tainted = true;
                    }
                    let Some((i, mut class)) = diff_class(e, g) else { continue };
                    tainted = true;
                    if mode.is_raw() {
                        // raw csi Query bytes differ: judged against the chunk model (how far a Query runs past a chunk end
                        // that lies on a member boundary is schedule dependent)
                        let b = |t: &[String]| t.iter().find_map(|s| s.strip_prefix("B:").map(|x| x.chars().map(|c| c as u32 as u8).collect::<Vec<u8>>()));
                        if let (Some(eb), Some(gb), Some(Some(chunks)), Some((walk, end))) = (b(e), b(g), raw_chunks.get(qi), &walked) {
                            let ok = |x: &[u8]| chunk_model_explains(x, chunks, walk, *end, data.bytes.len());
                            match (ok(&eb), ok(&gb)) {
                                (true, true) => {
                                    o.count("observed_not_judged[csi-raw-query:how-far-past-a-chunk-end-on-a-member-boundary]", 1);
                                    continue;
                                }
                                (false, _) => {
                                    o.count("csi_query_model_does_not_explain_the_sync_output", 1);
                                    o.inconclusive.push(format!("{} + {}: the chunk model does not explain the SYNC raw csi Query output of {:?}: no verdict on this operation", data.name, index.name, q.map(|q| q.describe())));
                                    continue;
                                }
                                (true, false) => class = "output-not-explained-by-its-chunks".to_string(),
                            }
                        }
                    }
                    let qclass = q.map(|q| q.class()).unwrap_or("none");
                    // diagnosis: does the same operation, alone on a FRESH reader, agree with the sync answer?
                    let fresh = match q {
                        Some(q1 @ (qy::Q::Region(..) | qy::Q::Partial(..) | qy::Q::Unmapped)) => {
                            let one = vec![q1.clone()];
                            let se = guard::catch(|| qy::run_sync(mode, &data.bytes, &index.bytes, &data.side, &one)).ok().and_then(|r| r.ok()).map(|t| norm(strip_all(t)));
                            let src = make_src(&bytes, cfg, &member_starts);
                            let ae = rt::run(cfg.flavor, qy::run_async(mode, src, data.bytes.clone(), index.bytes.clone(), data.side.clone(), one, cfg.workers)).ok().and_then(|r| r.ok()).map(|t| norm(strip_all(t)));
                            match (se, ae) {
                                (Some(a), Some(b)) if a == b => "only-on-the-reused-reader",
                                (Some(_), Some(_)) => "also-on-a-fresh-reader",
                                _ => "fresh-reader-not-diagnosed",
                            }
                        }
                        _ => "state-dependent-operation",
                    };
                    let mut sig = format!("{sig_prefix}:{class}:{qclass}:{fresh}");
                    if mode == qy::Mode::BcfCsi {
                        // root cause: the async BCF query filter is a different function than the sync one. Recognised when
                        // the async answer is the sync answer minus some records; named after the first missing record
                        let recs = |t: &[String]| t.iter().filter(|s| s.starts_with("R:")).cloned().collect::<Vec<_>>();
                        let (er, gr) = (recs(e), recs(g));
                        // first record of the sync answer that the async answer lacks altogether, the async answer going on with a
                        // later record of the sync answer (a partially consumed stream yields the same NUMBER of records, shifted)
                        let j = (0..er.len()).find(|&j| gr.get(j) != Some(&er[j]));
                        let missing = j.filter(|&j| !gr.contains(&er[j]) && gr.get(j).map(|x| er[j + 1..].contains(x) || matches!(q, Some(qy::Q::Partial(..)))).unwrap_or(true)).map(|j| &er[j]);
                        {
                            if let Some(m) = missing {
                                let cols: Vec<&str> = m[2..].split('\t').collect();
                                let why = if cols.get(1) == Some(&"0") {
                                    Some("record-without-start-position")
                                } else if cols.get(7).map(|i| i.contains("END=") || i.contains("SVLEN=")).unwrap_or(false) {
                                    Some("record-span-from-info-end-or-svlen-not-rlen")
                                } else {
                                    None
                                };
                                if let Some(why) = why {
                                    sig = format!("{sig_prefix}:async-filter-misses-record:{why}");
                                }
                            }
                        }
                    }
                    if sigs.contains(&sig) {
                        continue;
                    }
                    sigs.push(sig.clone());
                    let chunks_note = if mode.is_raw() {
                        let one: Vec<qy::Q> = q.into_iter().cloned().collect();
                        match guard::catch(|| qy::chunk_lists(mode, &data.bytes, &index.bytes, &one)) {
                            Ok(Ok(l)) => format!(" chunks (compressed offset:in-block offset): {:?};", l.first().cloned().flatten().map(|c| c.iter().map(|c| format!("{}:{}-{}:{}", c.start().compressed(), c.start().uncompressed(), c.end().compressed(), c.end().uncompressed())).collect::<Vec<_>>())),
                            _ => String::new(),
                        }
                    } else {
                        String::new()
                    };
                    o.violation(
                        sig,
                        format!(
                            "{} + {}:{chunks_note} operation #{qi} {:?} of the history {:?}: element #{i} of its results: sync: {:?}; async: {:?} (sync {} elements, async {}; V@n = uncompressed offset denoted by the BGZF reader's virtual position after the operation) [{}]",
                            data.name,
                            index.name,
                            q.map(|q| q.describe()),
                            queries.iter().take(qi + 1).map(|q| q.describe()).collect::<Vec<_>>(),
                            e.get(i).map(|s| short(s)),
                            g.get(i).map(|s| short(s)),
                            e.len(),
                            g.len(),
                            cfg_json(cfg)
                        ),
                    );
                }
                if sigs.is_empty() {
                    o.count("query_pairs_equal", 1);
                }
            }
        }
    }
}

/// Splits a query transcript into one slice per query (each starts with its `Q:` element).
fn segments(t: &[String]) -> Vec<&[String]> {
    let mut v = Vec::new();
    let mut start = 0;
    for (i, s) in t.iter().enumerate() {
        if s.starts_with("Q:") && i > start {
            v.push(&t[start..i]);
            start = i;
        }
    }
    if start < t.len() {
        v.push(&t[start..]);
    }
    v
}

fn filter_elems(t: &[String], keep: &[&str]) -> Vec<String> {
    t.iter().filter(|s| *s == "END" || s.starts_with("ERR:") || keep.iter().any(|k| s.starts_with(k))).map(|s| if s.starts_with("C:") { container_structure(s) } else { s.clone() }).collect()
}

/// Structure of a CRAM container from its `C:` element: reference context, record count, record counter, base count and
/// number of slices — not its byte length / landmark offsets (the CRAM writer emits blocks in hash-map order).
fn container_structure(c: &str) -> String {
    let mut out = String::from("C:");
    for part in c[2..].split(';') {
        if ["ctx=", "records=", "counter=", "bases="].iter().any(|k| part.starts_with(k)) {
            out.push_str(part);
            out.push(';');
        } else if let Some(l) = part.strip_prefix("landmarks=") {
            out.push_str(&format!("slices={};", l.matches(',').count() + usize::from(l.trim_matches(|c| c == '[' || c == ']').trim() != "")));
        }
    }
    out
}

fn run_wr(o: &mut CaseOut, item: &Item, level: Option<u8>, cfgs: &[Cfg]) {
    let kind = item.kind;
    let module = format!("{}-writer", kind.name());
    let mut p = match guard::catch(|| corpus::prepare_write(item)) {
        Ok(Ok(p)) => p,
        _ => {
            o.inconclusive.push(format!("{}: prepare_write failed", item.name));
            return;
        }
    };
    // the async CRAM writer has no layout override (hook H3 is sync only): both sides use the production layout
    p.cram_layout = None;
    let sync_out: Vec<u8> = {
        let r = guard::catch(|| -> std::io::Result<Vec<u8>> {
            if let (corpus::Model::Bgzf { payload, ops }, Some(_)) = (&p.model, level) {
                wr::sync_bgzf_history(payload, ops, level)
            } else {
                let mut out = Vec::new();
                corpus::write_prepared(&p, &mut out)?;
                Ok(out)
            }
        });
        match r {
            Ok(Ok(v)) => v,
            Ok(Err(e)) => {
                o.count("sync_writer_rejected_history", 1);
                o.inconclusive.push(format!("{}: the sync writer rejected the history: {e}", item.name));
                return;
            }
            Err(pn) => {
                o.inconclusive.push(format!("{}: the SYNC writer panicked: {}", item.name, pn.sig));
                return;
            }
        }
    };
    let compressed = wr::output_is_compressed(kind);
    let sync_walk = if kind.is_bgzf_wrapped() { obgzf::walk(&sync_out).ok() } else { None };
    let blocks: Vec<Vec<u8>> = sync_walk.as_ref().map(|w| w.members.iter().filter(|m| !m.is_eof_marker).map(|m| m.data.clone()).collect()).unwrap_or_default();
    // CRAM: header, records and the container STRUCTURE (count, records per container, record counter, reference context)
    let keep: &[&str] = if kind == Kind::Cram { &["H:", "C:", "R:"] } else { &["H:", "R:", "I:", "D:"] };
    let side = item.side.clone();
    let sync_tr = if compressed && kind != Kind::Bgzf {
        match guard::catch(|| corpus::transcript_read(kind, &sync_out[..], &side, false)) {
            Ok(t) => Some(filter_elems(&t, keep)),
            Err(_) => None,
        }
    } else {
        None
    };
    let p = Arc::new(p);
    let sig_prefix = format!("{}:writer", kind.name());
    for cfg in cfgs {
        let wl = if wr::has_worker_count(kind) { Some(cfg.workers) } else { None };
        pair_counters(o, &module, "writer", cfg, wl);
        let mut prng = Rng::new(cfg.script.seed, 0xD4, cfg.workers as u64);
        hook::arm(&blocks, hook::make_delays(cfg.plan, blocks.len(), cfg.workers + 1, &mut prng));
        let sink = PollWrite::new(cfg.script.clone());
        let (out, stats) = (sink.out.clone(), sink.stats.clone());
        let p2 = p.clone();
        let (workers, lvl) = (cfg.workers, level);
        let res = rt::run_local(cfg.flavor, async move { wr::write_async(&p2, sink, workers, lvl).await });
        let log = hook::disarm();
        stats_fold(o, &module, &stats.lock().unwrap());
        if kind.is_bgzf_wrapped() {
            order_fold(o, &module, "deflate", wl, cfg.plan, &hook::analyse(&log, false));
        }
        o.fps.push(cfg_fp(&module, &format!("wr|{level:?}"), cfg));
        let what = format!("{} (level {:?})", item.name, level);
        match res {
            Err(e) => run_err(o, &sig_prefix, &what, cfg, e),
            Ok(Err(e)) => o.violation(
                format!("{sig_prefix}:error-on-healthy-sink:{:?}", e.kind()),
                format!("{what}: the async writer returned {:?} ({e}) on a sink that never fails; the sync writer accepts the same calls [{}]", e.kind(), cfg_json(cfg)),
            ),
            Ok(Ok(())) => {
                let a = out.lock().unwrap().clone();
                if !compressed {
                    if a != sync_out {
                        let i = a.iter().zip(&sync_out).position(|(x, y)| x != y).unwrap_or(a.len().min(sync_out.len()));
                        let class = if a.len() < sync_out.len() && sync_out.starts_with(&a) {
                            "output-truncated"
                        } else if a.len() > sync_out.len() && a.starts_with(&sync_out) {
                            "output-longer"
                        } else {
                            "bytes-differ"
                        };
                        o.violation(
                            format!("{sig_prefix}:{class}"),
                            format!(
                                "{what}: async output ({} bytes) != sync output ({} bytes) for the same calls; first difference at byte {i}: async {:?} vs sync {:?} [{}]",
                                a.len(),
                                sync_out.len(),
                                String::from_utf8_lossy(&a[i.saturating_sub(20)..(i + 20).min(a.len())]),
                                String::from_utf8_lossy(&sync_out[i.saturating_sub(20)..(i + 20).min(sync_out.len())]),
                                cfg_json(cfg)
                            ),
                        );
                    } else {
                        o.count("writer_pairs_byte_identical", 1);
                    }
                    continue;
                }
                // compressed output
                let mut ok = true;
                if kind.is_bgzf_wrapped() {
                    match obgzf::walk(&a) {
                        Err(why) => {
                            ok = false;
                            o.violation(format!("{sig_prefix}:malformed-bgzf"), format!("{what}: the independent walker rejects the async output ({} bytes): {why} [{}]", a.len(), cfg_json(cfg)));
                        }
                        Ok(wa) => {
                            if !wa.ends_with_eof_marker() {
                                ok = false;
                                o.violation(format!("{sig_prefix}:missing-eof-marker"), format!("{what}: the async output ({} bytes, {} members) does not end with the EOF marker after shutdown() [{}]", a.len(), wa.members.len(), cfg_json(cfg)));
                            }
                            if let Some(ws) = &sync_walk {
                                if wa.concat() != ws.concat() {
                                    ok = false;
                                    let ha: Vec<u64> = wa.members.iter().map(|m| fnv1a(&m.data)).collect();
                                    let hs: Vec<u64> = ws.members.iter().map(|m| fnv1a(&m.data)).collect();
                                    let (mut sa, mut ss) = (ha.clone(), hs.clone());
                                    sa.sort_unstable();
                                    ss.sort_unstable();
                                    let (pa, ps) = (wa.concat(), ws.concat());
                                    let d = pa.iter().zip(&ps).position(|(x, y)| x != y).unwrap_or(pa.len().min(ps.len()));
                                    let class = if sa == ss {
                                        "blocks-reordered".to_string()
                                    } else if pa.len() < ps.len() && pa[d..] == ps[d + (ps.len() - pa.len())..] {
                                        // (the number of bytes is in the description, not in the signature)
                                        "payload-misses-a-span".to_string()
                                    } else if pa.len() < ps.len() {
                                        "payload-shorter".to_string()
                                    } else if pa.len() > ps.len() {
                                        "payload-longer".to_string()
                                    } else {
                                        "payload-differs".to_string()
                                    };
                                    o.violation(
                                        format!("{sig_prefix}:{class}"),
                                        format!(
                                            "{what}: the async output inflates to {} bytes in {} members, the sync output to {} bytes in {} members, and the payloads differ from byte {d} on ({} bytes shorter / longer) (deflate inversions observed in this run: {}) [{}]",
                                            wa.total,
                                            wa.members.len(),
                                            ws.total,
                                            ws.members.len(),
                                            (ps.len() as i64 - pa.len() as i64).abs(),
                                            hook::analyse(&log, false).inversions,
                                            cfg_json(cfg)
                                        ),
                                    );
                                } else if a == sync_out {
                                    o.count("observed_async_bgzf_output_byte_identical_to_sync", 1);
                                } else {
                                    o.count("observed_async_bgzf_output_same_payload_other_bytes", 1);
                                }
                            }
                        }
                    }
                }
                if let (true, Some(st)) = (ok, &sync_tr) {
                    match guard::catch(|| corpus::transcript_read(kind, &a[..], &side, false)) {
                        Err(pn) => o.violation(format!("{sig_prefix}:output-unreadable:panic"), format!("{what}: the sync reader panics on the async writer's output: {} [{}]", pn.sig, cfg_json(cfg))),
                        Ok(t) => {
                            let at = filter_elems(&t, keep);
                            if let Some((i, class)) = diff_class(st, &at) {
                                ok = false;
                                o.violation(
                                    format!("{sig_prefix}:decodes-differently:{class}"),
                                    format!(
                                        "{what}: element #{i} of what the outputs decode to: sync writer: {:?}; async writer: {:?} [{}]",
                                        st.get(i).map(|s| short(s)),
                                        at.get(i).map(|s| short(s)),
                                        cfg_json(cfg)
                                    ),
                                );
                            }
                        }
                    }
                }
                if ok {
                    o.count("writer_pairs_decode_equal", 1);
                }
            }
        }
    }
}

fn run_wj(o: &mut CaseOut, base: &Item, kind: Kind, cfgs: &[Cfg]) {
    let module = format!("{}-writer", kind.name());
    let text = base.side.model.as_deref().unwrap_or(&base.bytes);
    let m = match guard::catch(|| rj::model(base.kind, text)) {
        Ok(Ok(m)) => m,
        _ => {
            o.inconclusive.push(format!("{}: cannot build the reject-then-accept history", base.name));
            return;
        }
    };
    let (sync_calls, sync_out) = match guard::catch(|| rj::run_sync(kind, &m)) {
        Ok(x) => x,
        Err(p) => {
            o.inconclusive.push(format!("{} -> {}: the SYNC writer panicked on the reject-then-accept history: {}", base.name, kind.name(), p.sig));
            return;
        }
    };
    let rejected = sync_calls.iter().filter(|c| c.contains(":err:")).count();
    o.count(&format!("reject_then_accept_calls_rejected_by_sync[{}]", kind.name()), rejected as u64);
    o.count(&format!("reject_then_accept_calls[{}]", kind.name()), sync_calls.len() as u64);
    // a rejected call must be followed by an accepted one somewhere, or the history shows nothing
    if let Some(i) = sync_calls.iter().position(|c| c.contains(":err:")) {
        if sync_calls[i + 1..].iter().any(|c| c.ends_with(":ok") && !c.starts_with("finish")) {
            o.count(&format!("reject_then_accept_histories_with_accept_after_reject[{}]", kind.name()), 1);
        }
    }
    let sync_walk = if kind.is_bgzf_wrapped() { obgzf::walk(&sync_out).ok() } else { None };
    // what the writer emits for the valid records alone: tells WHICH side kept something of a rejected record
    let clean: Option<Vec<u8>> = guard::catch(|| rj::run_sync(kind, &rj::valid_only(&m))).ok().map(|(_, out)| if kind.is_bgzf_wrapped() { obgzf::walk(&out).map(|w| w.concat()).unwrap_or_default() } else { out });
    let who = |async_payload: &[u8], sync_payload: &[u8]| -> &'static str {
        match &clean {
            Some(c) if c.as_slice() == async_payload && c.as_slice() != sync_payload => "sync-output-keeps-part-of-a-rejected-record",
            Some(c) if c.as_slice() == sync_payload && c.as_slice() != async_payload => "async-output-keeps-part-of-a-rejected-record",
            _ => "outputs-differ",
        }
    };
    let sig_prefix = format!("{}:writer:reject-then-accept", kind.name());
    for cfg in cfgs {
        let wl = if wr::has_worker_count(kind) { Some(cfg.workers) } else { None };
        pair_counters(o, &module, "writer_reject_then_accept", cfg, wl);
        hook::arm(&[], Vec::new());
        let sink = PollWrite::new(cfg.script.clone());
        let (out, stats) = (sink.out.clone(), sink.stats.clone());
        let workers = cfg.workers;
        let res = rt::run_local(cfg.flavor, rj::run_async(kind, &m, sink, workers));
        let _ = hook::disarm();
        stats_fold(o, &module, &stats.lock().unwrap());
        o.fps.push(cfg_fp(&module, "wj", cfg));
        let what = format!("{} written as {} with rejected records in between", base.name, kind.name());
        match res {
            Err(e) => run_err(o, &sig_prefix, &what, cfg, e),
            Ok(calls) => {
                if let Some(i) = (0..sync_calls.len().max(calls.len())).find(|&i| sync_calls.get(i) != calls.get(i)) {
                    let class = |c: Option<&String>| c.map(|c| c.split_once(':').map(|x| x.1.to_string()).unwrap_or_default()).unwrap_or_else(|| "missing".into());
                    let label = sync_calls.get(i).or(calls.get(i)).map(|c| c.split(':').next().unwrap_or("").to_string()).unwrap_or_default();
                    o.violation(
                        format!("{sig_prefix}:call-result-differs:{label}:{}->{}", class(sync_calls.get(i)), class(calls.get(i))),
                        format!("{what}: call #{i}: sync writer {:?}, async writer {:?}; calls so far (sync): {:?} [{}]", sync_calls.get(i), calls.get(i), &sync_calls[..i.min(sync_calls.len())], cfg_json(cfg)),
                    );
                    continue;
                }
                let a = out.lock().unwrap().clone();
                // which rejection class precedes the first difference (the record that left something behind)
                let after = |pos_hint: &str| pos_hint.to_string();
                let _ = after;
                if !kind.is_bgzf_wrapped() {
                    if a != sync_out {
                        let d = a.iter().zip(&sync_out).position(|(x, y)| x != y).unwrap_or(a.len().min(sync_out.len()));
                        o.violation(
                            format!("{sig_prefix}:{}", who(&a, &sync_out)),
                            format!("{what}: every call returned the same result on both sides ({rejected} rejected), but the async sink holds {} bytes and the sync sink {} bytes; first difference at byte {d} [{}]", a.len(), sync_out.len(), cfg_json(cfg)),
                        );
                    } else {
                        o.count("reject_then_accept_pairs_equal", 1);
                    }
                    continue;
                }
                match (obgzf::walk(&a), &sync_walk) {
                    (Err(why), _) => o.violation(format!("{sig_prefix}:malformed-bgzf"), format!("{what}: the independent walker rejects the async output: {why} [{}]", cfg_json(cfg))),
                    (Ok(wa), Some(ws)) => {
                        let (pa, ps) = (wa.concat(), ws.concat());
                        if !wa.ends_with_eof_marker() {
                            o.violation(format!("{sig_prefix}:missing-eof-marker"), format!("{what}: no EOF marker after shutdown() [{}]", cfg_json(cfg)));
                        } else if pa != ps {
                            let d = pa.iter().zip(&ps).position(|(x, y)| x != y).unwrap_or(pa.len().min(ps.len()));
                            o.violation(
                                format!("{sig_prefix}:{}", who(&pa, &ps)),
                                format!("{what}: every call returned the same result on both sides ({rejected} rejected), but the async output inflates to {} bytes and the sync output to {} bytes; first difference at byte {d} [{}]", pa.len(), ps.len(), cfg_json(cfg)),
                            );
                        } else {
                            o.count("reject_then_accept_pairs_equal", 1);
                        }
                    }
                    (Ok(_), None) => o.inconclusive.push(format!("{what}: the SYNC output is not walkable")),
                }
            }
        }
    }
}

fn run_case(ctx: &Ctx, w: &World, c: &Case) -> CaseOut {
    let mut o = CaseOut::new();
    o.evaluations = c.cfgs.len() as u64;
    match &c.what {
        What::Rd { item, variant, reseal, malform, stream } => run_rd(w, &mut o, &w.items[*item], *variant, *reseal, malform, *stream, &c.cfgs),
        What::Sk { item, reseal, hseed } => run_sk(&mut o, &w.items[*item], *reseal, *hseed, &c.cfgs, ctx.quick() || ctx.param("tiny").is_some()),
        What::Qy { data, index, mode, qseed } => run_qy(&mut o, &w.items[*data], &w.items[*index], *mode, *qseed, &c.cfgs, ctx.quick() || ctx.param("tiny").is_some()),
        What::Wr { item, level } => run_wr(&mut o, &w.items[*item], *level, &c.cfgs),
        What::Wj { base, kind } => run_wj(&mut o, &w.items[*base], *kind, &c.cfgs),
        What::Wc { n } => {
            let reference: String = (0..200).map(|i| b"ACGTTGCAAC"[(i * 7 + i / 11) % 10] as char).collect();
            let mut sam = format!("@HD\tVN:1.6\tSO:coordinate\n@SQ\tSN:sq0\tLN:{}\n", reference.len());
            for i in 0..*n {
                let pos = 1 + i * 190 / n;
                sam.push_str(&format!("r{i}\t0\tsq0\t{pos}\t60\t8M\t*\t0\t0\t{}\tIIIIIIII\n", &reference[pos - 1..pos + 7]));
            }
            let side = corpus::Side { reference_fasta: Some(format!(">sq0\n{reference}\n").into_bytes()), model: Some(sam.into_bytes()), writable: true, ..corpus::Side::default() };
            let item = Item { kind: Kind::Cram, name: format!("cram/c16-{n}-minimal-records"), bytes: Vec::new(), side };
            o.count("cram_many_record_histories", 1);
            run_wr(&mut o, &item, None, &c.cfgs)
        }
        What::Wb { class, len, split, flush_every, level, pseed } => {
            let mut rng = Rng::new(*pseed, 0xB8, 0);
            let payload = vcore::payload::make(class, *len, &mut rng);
            let pieces = vcore::payload::split_pattern(split, *len, &mut rng);
            let mut ops = Vec::new();
            for (i, n) in pieces.iter().enumerate() {
                ops.push(corpus::BgzfOp::Write(*n));
                if *flush_every > 0 && (i + 1) % flush_every == 0 {
                    ops.push(corpus::BgzfOp::Flush);
                }
            }
            let side = corpus::Side { model: Some(payload), writable: true, bgzf_ops: ops, ..corpus::Side::default() };
            let item = Item { kind: Kind::Bgzf, name: format!("bgzf/seeded-{class}-{len}B-{split}-flush{flush_every}"), bytes: Vec::new(), side };
            run_wr(&mut o, &item, Some(*level), &c.cfgs)
        }
    }
    if o.sample.is_none() && o.violations.is_empty() {
        o.sample = Some(case_json(w, c));
    }
    o
}

fn world(ctx: &Ctx) -> &'static World {
    static W: OnceLock<World> = OnceLock::new();
    W.get_or_init(|| gen_world(ctx))
}

fn main() {
    let ctx = Ctx::from_args();
    let ctx = vcore::cases::replay_request(&ctx).map(|r| r.1).unwrap_or(ctx);
    noodles_bgzf::verif::set_hook(hook::hook);
    let mut rep = Report::new(
        "pair = (input or call history, configuration); inputs = every corpus item of a kind with an async reader (valid, \
         re-blocked BGZF layout, truncated, one bit flipped; read_* calls and Stream APIs) + two local witness items, BGZF \
         seek histories, query sequences over data + index items, write histories of every writable item, seeded BGZF \
         write/flush histories; configuration = poll script class (always ready; chunk 1,2,3,7,17,4096; random chunks; \
         Pending 1/2, 1/3, 1/10 x chunking) x tokio runtime (current-thread / 4-worker, reader futures spawned on the \
         workers) x BGZF worker count 1..8 x H1 delay plan; oracle = the synchronous reader / writer on the same bytes / \
         calls; distinct = distinct (module, part, variant, input class, script class, runtime, worker count, plan) tuples \
         plus every distinct completion order with at least one inversion",
    );
    rep.assumptions.push("record values are compared through noodles' own text writers + typed aux values + a hash of Debug of the header (corpus::render), not through raw buffers".into());
    rep.assumptions.push("error MESSAGES are never compared".into());
    rep.assumptions.push("completion order is observed at the H1 sites inside the spawn_blocking closures; sampled orders, not every permutation".into());
    rep.assumptions.push("quantifier = inputs the sync path accepts: on inputs the sync reader rejects only the elements yielded before the error (common prefix) are judged; kind and position of the final error there are counted as observed_not_judged[...]".into());
    rep.assumptions.push("virtual positions (after every element / operation, and the value a seek returns) are compared by the uncompressed offset they denote according to the independent BGZF walker; a value that denotes no byte boundary has to agree raw".into());
    rep.assumptions.push("tiny-chunk poll scripts on large inputs are scaled so that one pair needs at most ~400k transfers".into());
    rep.assumptions.push("async CRAM writer is compared with the sync writer at the production layout (no layout override exists on the async side); CRAM / CRAI / BGZF outputs are compared by what they decode to".into());
    let w = world(&ctx);
    let f = |i: u64| -> CaseOut { run_case(&ctx, w, &w.cases[i as usize]) };
    // many pairs sleep (delay plans) or wait for blocking threads: oversubscribe a little
    let mut ctx_run = ctx.clone();
    ctx_run.jobs = (ctx.jobs + ctx.jobs / 2).min(48);
    run_cases(&ctx_run, &mut rep, w.cases.len() as u64, 300.0, &f, &|i| case_json(w, &w.cases[i as usize]));
    if ctx.replay.is_none() {
        let counters = rep.counters.clone();
        let get = |k: &str| counters.get(k).copied().unwrap_or(0);
        let only = ctx.param("only").is_some();
        let tiny = ctx.param("tiny").is_some();
        if !only {
            // every async module of the quantifier was driven
            for k in Kind::ALL {
                if !rd::async_variants(*k).is_empty() {
                    rep.floor(&format!("reader pairs of module {}", k.name()), get(&format!("pairs[{}]", k.name())), 1);
                }
                if wr::has_async_writer(*k) {
                    rep.floor(&format!("writer pairs of module {}", k.name()), get(&format!("pairs[{}-writer]", k.name())), 1);
                }
            }
            rep.floor("seek pairs", get("pairs_seek"), 1);
            if !tiny {
                rep.floor("query pairs", get("pairs_query"), 1);
                rep.floor("malformed reader pairs", get("pairs_reader_malformed"), 1);
                rep.floor("inputs on which the sync reader reports an error", counters.iter().filter(|(k, _)| k.starts_with("inputs_with_sync_error[")).map(|(_, v)| *v).sum(), 5);
            }
            rep.floor("Pending injections", counters.iter().filter(|(k, _)| k.starts_with("pending_injections[")).map(|(_, v)| *v).sum(), 100);
            rep.floor("partial transfers", counters.iter().filter(|(k, _)| k.starts_with("partial_transfers[")).map(|(_, v)| *v).sum(), 100);
            for fl in ["ct", "mt4"] {
                rep.floor(&format!("pairs on runtime {fl}"), get(&format!("runtime_used[{fl}]")), 1);
            }
            // schedules: a worker count >= 2 that was exercised with a delay plan but never showed an inversion is
            // inconclusive for that part
            for what in ["inflate", "deflate"] {
                if tiny {
                    // sanitizer-sized workload: a handful of scheduled runs per worker count; only the total is required
                    let total: u64 = (2..=8).map(|wk| get(&format!("{what}_inversions[w={wk}]"))).sum();
                    rep.floor(&format!("{what} completion inversions at worker counts 2..8 (tiny workload)"), total, 1);
                } else {
                    for wk in 2..=8 {
                        rep.floor(&format!("{what} completion inversions at worker count {wk}"), get(&format!("{what}_inversions[w={wk}]")), 1);
                    }
                }
                // deflate jobs are spawned when the block is handed over, before the ordered buffer: even at worker count
                // 1 two jobs can be in flight; inflate jobs at worker count 1 are strictly sequential
                if what == "inflate" && get("inflate_inversions_sequential_reader[w=1]") > 0 {
                    rep.inconclusive.push("worker count 1 showed inflate inversions: event attribution unreliable".to_string());
                }
            }
        }
        rep.extra.insert("cases".into(), json!(w.cases.len()));
    }
    rep.finish(&ctx);
}
