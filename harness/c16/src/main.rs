fn main() {
    let t = std::time::Instant::now();
    for scale in [1u8, 2] {
        let items = corpus::items(1, scale);
        eprintln!("scale {scale}: {} items in {:?}, total bytes {}", items.len(), t.elapsed(), items.iter().map(|i| i.bytes.len()).sum::<usize>());
        for i in &items { eprintln!("  {:?} {} {} writable={}", i.kind, i.name, i.bytes.len(), i.side.writable); }
    }
}
