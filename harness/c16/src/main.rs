//! C16 — stub (to be implemented).

fn main() {
    eprintln!("c16: not implemented");
    std::process::exit(2);
}
