//! "Reject-then-accept" write histories: on ONE writer, records the writer rejects (at different depths of its encoder:
//! early field invalid, late field invalid) are interleaved with valid records. The history goes on after an error.
//! Sync and async must agree per call on Ok / Err(kind), and on what has been written at the end.

use std::io::{self, Write};

use corpus::Kind;
use noodles_bam as bam;
use noodles_bcf as bcf;
use noodles_bgzf as bgzf;
use noodles_fastq as fastq;
use noodles_sam::{self as sam, alignment::RecordBuf};
use noodles_vcf::{self as vcf, variant::RecordBuf as VariantBuf};
use tokio::io::AsyncWriteExt;
use vcore::aadv::PollWrite;

use crate::wr::bgzf_writer;

pub enum Model {
    Alignment { header: sam::Header, records: Vec<(String, RecordBuf)> },
    Variant { header: vcf::Header, records: Vec<(String, VariantBuf)> },
    Fastq { records: Vec<(String, fastq::Record)> },
}

/// Which kinds have a reject-then-accept history.
pub fn kinds_of(base: Kind) -> &'static [Kind] {
    match base {
        Kind::Sam => &[Kind::Bam, Kind::BamRaw, Kind::Sam, Kind::SamGz],
        Kind::Vcf => &[Kind::Bcf, Kind::BcfRaw, Kind::Vcf, Kind::VcfGz],
        Kind::Fastq => &[Kind::Fastq],
        _ => &[],
    }
}

/// Builds the history from the model text of a corpus item: every valid record, and after every second one a record
/// derived from it that a writer may reject (label = rejection class).
pub fn model(base: Kind, text: &[u8]) -> io::Result<Model> {
    match base {
        Kind::Sam => {
            let (header, valid) = corpus::write::parse_sam(text)?;
            let n_ref = header.reference_sequences().len();
            let mut records = Vec::new();
            for (i, r) in valid.iter().enumerate() {
                records.push(("valid".to_string(), r.clone()));
                if i % 2 == 1 {
                    continue;
                }
                let mut bad = r.clone();
                let label = match (i / 2) % 6 {
                    // late: qualities do not match the bases
                    0 => {
                        let n = bad.sequence().len();
                        *bad.quality_scores_mut() = vec![30u8; n + 3].into();
                        "quality-score-count-ne-base-count"
                    }
                    // middle: mate reference sequence id not in the header
                    1 => {
                        *bad.mate_reference_sequence_id_mut() = Some(n_ref + 7);
                        "mate-reference-id-not-in-header"
                    }
                    // early: reference sequence id not in the header
                    2 => {
                        *bad.reference_sequence_id_mut() = Some(n_ref + 3);
                        "reference-id-not-in-header"
                    }
                    // early: over-long read name
                    3 => {
                        *bad.name_mut() = Some(vec![b'n'; 300].into());
                        "name-longer-than-254"
                    }
                    // late: CIGAR read length does not match the bases
                    4 => {
                        let n = bad.sequence().len();
                        *bad.sequence_mut() = vec![b'A'; n + 5].into();
                        *bad.quality_scores_mut() = vec![20u8; n + 5].into();
                        "base-count-ne-cigar-read-length"
                    }
                    // early: name with a forbidden character
                    _ => {
                        *bad.name_mut() = Some(b"bad name@".to_vec().into());
                        "name-with-space"
                    }
                };
                records.push((label.to_string(), bad));
            }
            Ok(Model::Alignment { header, records })
        }
        Kind::Vcf => {
            let (header, valid) = corpus::write::parse_vcf(text)?;
            let mut records = Vec::new();
            for (i, r) in valid.iter().enumerate() {
                records.push(("valid".to_string(), r.clone()));
                if i % 2 == 1 {
                    continue;
                }
                let mut bad = r.clone();
                let label = match (i / 2) % 5 {
                    // late: INFO key that the header does not define
                    0 => {
                        bad.info_mut().insert("ZZUNDEF".into(), Some(vcf::variant::record_buf::info::field::Value::Integer(5)));
                        "info-key-not-in-header"
                    }
                    // early: contig that the header does not define
                    1 => {
                        *bad.reference_sequence_name_mut() = "no-such-contig".into();
                        "contig-not-in-header"
                    }
                    // middle: FILTER that the header does not define
                    2 => {
                        *bad.filters_mut() = ["q99undef".to_string()].into_iter().collect();
                        "filter-not-in-header"
                    }
                    // middle: empty reference bases
                    3 => {
                        *bad.reference_bases_mut() = String::new();
                        "empty-reference-bases"
                    }
                    // early-ish: forbidden characters in the contig name
                    _ => {
                        *bad.reference_sequence_name_mut() = "sq 0\ttab".into();
                        "contig-name-with-whitespace"
                    }
                };
                records.push((label.to_string(), bad));
            }
            Ok(Model::Variant { header, records })
        }
        Kind::Fastq => {
            let valid: Vec<fastq::Record> = fastq::io::Reader::new(text).records().collect::<io::Result<_>>()?;
            let mut records = Vec::new();
            for (i, r) in valid.iter().enumerate().take(40) {
                records.push(("valid".to_string(), r.clone()));
                if i % 2 == 0 {
                    let mut bad = r.clone();
                    let label = if (i / 2) % 2 == 0 {
                        bad.quality_scores_mut().extend_from_slice(b"III");
                        "quality-score-count-ne-base-count"
                    } else {
                        bad.name_mut().clear();
                        "empty-name"
                    };
                    records.push((label.to_string(), bad));
                }
            }
            Ok(Model::Fastq { records })
        }
        _ => Err(io::Error::new(io::ErrorKind::Unsupported, "no reject-then-accept model")),
    }
}

/// The same history without the records derived to be rejected.
pub fn valid_only(m: &Model) -> Model {
    match m {
        Model::Alignment { header, records } => Model::Alignment { header: header.clone(), records: records.iter().filter(|r| r.0 == "valid").cloned().collect() },
        Model::Variant { header, records } => Model::Variant { header: header.clone(), records: records.iter().filter(|r| r.0 == "valid").cloned().collect() },
        Model::Fastq { records } => Model::Fastq { records: records.iter().filter(|r| r.0 == "valid").cloned().collect() },
    }
}

fn call(out: &mut Vec<String>, what: &str, r: io::Result<()>) {
    out.push(match r {
        Ok(()) => format!("{what}:ok"),
        Err(e) => format!("{what}:err:{:?}", e.kind()),
    });
}

/// Per-call results and the sink content of the SYNC writer.
pub fn run_sync(kind: Kind, m: &Model) -> (Vec<String>, Vec<u8>) {
    use sam::alignment::io::Write as _;
    use vcf::variant::io::Write as _;
    let mut calls = Vec::new();
    let out = match (m, kind) {
        (Model::Alignment { header, records }, Kind::Bam) => {
            let mut w = bam::io::Writer::new(Vec::new());
            call(&mut calls, "header", w.write_header(header));
            for (l, r) in records {
                call(&mut calls, l, w.write_alignment_record(header, r));
            }
            call(&mut calls, "finish", w.try_finish());
            w.into_inner().into_inner()
        }
        (Model::Alignment { header, records }, Kind::BamRaw) => {
            let mut w = bam::io::Writer::from(Vec::new());
            call(&mut calls, "header", w.write_header(header));
            for (l, r) in records {
                call(&mut calls, l, w.write_alignment_record(header, r));
            }
            call(&mut calls, "finish", Write::flush(w.get_mut()));
            w.into_inner()
        }
        (Model::Alignment { header, records }, Kind::Sam) => {
            let mut w = sam::io::Writer::new(Vec::new());
            call(&mut calls, "header", w.write_header(header));
            for (l, r) in records {
                call(&mut calls, l, w.write_alignment_record(header, r));
            }
            call(&mut calls, "finish", Write::flush(w.get_mut()));
            w.into_inner()
        }
        (Model::Alignment { header, records }, Kind::SamGz) => {
            let mut w = sam::io::Writer::new(bgzf::io::Writer::new(Vec::new()));
            call(&mut calls, "header", w.write_header(header));
            for (l, r) in records {
                call(&mut calls, l, w.write_alignment_record(header, r));
            }
            call(&mut calls, "finish", w.get_mut().try_finish());
            w.into_inner().into_inner()
        }
        (Model::Variant { header, records }, Kind::Vcf) => {
            let mut w = vcf::io::Writer::new(Vec::new());
            call(&mut calls, "header", w.write_header(header));
            for (l, r) in records {
                call(&mut calls, l, w.write_variant_record(header, r));
            }
            call(&mut calls, "finish", Write::flush(w.get_mut()));
            w.into_inner()
        }
        (Model::Variant { header, records }, Kind::VcfGz) => {
            let mut w = vcf::io::Writer::new(bgzf::io::Writer::new(Vec::new()));
            call(&mut calls, "header", w.write_header(header));
            for (l, r) in records {
                call(&mut calls, l, w.write_variant_record(header, r));
            }
            call(&mut calls, "finish", w.get_mut().try_finish());
            w.into_inner().into_inner()
        }
        (Model::Variant { header, records }, Kind::Bcf) => {
            let mut w = bcf::io::Writer::new(Vec::new());
            call(&mut calls, "header", w.write_header(header));
            for (l, r) in records {
                call(&mut calls, l, w.write_variant_record(header, r));
            }
            call(&mut calls, "finish", w.try_finish());
            w.into_inner().into_inner()
        }
        (Model::Variant { header, records }, Kind::BcfRaw) => {
            let mut w = bcf::io::Writer::from(Vec::new());
            call(&mut calls, "header", w.write_header(header));
            for (l, r) in records {
                call(&mut calls, l, w.write_variant_record(header, r));
            }
            call(&mut calls, "finish", Write::flush(w.get_mut()));
            w.into_inner()
        }
        (Model::Fastq { records }, Kind::Fastq) => {
            let mut w = fastq::io::Writer::new(Vec::new());
            for (l, r) in records {
                call(&mut calls, l, w.write_record(r));
            }
            call(&mut calls, "finish", Write::flush(w.get_mut()));
            w.into_inner()
        }
        _ => Vec::new(),
    };
    (calls, out)
}

/// Per-call results of the ASYNC writer (the sink content is read from the `PollWrite`'s shared buffer).
pub async fn run_async(kind: Kind, m: &Model, sink: PollWrite, workers: usize) -> Vec<String> {
    let mut calls = Vec::new();
    match (m, kind) {
        (Model::Alignment { header, records }, Kind::Bam) => {
            let mut w = bam::r#async::io::Writer::from(bgzf_writer(sink, workers, None));
            call(&mut calls, "header", w.write_header(header).await);
            for (l, r) in records {
                call(&mut calls, l, w.write_alignment_record(header, r).await);
            }
            call(&mut calls, "finish", w.shutdown().await);
        }
        (Model::Alignment { header, records }, Kind::BamRaw) => {
            let mut w = bam::r#async::io::Writer::from(sink);
            call(&mut calls, "header", w.write_header(header).await);
            for (l, r) in records {
                call(&mut calls, l, w.write_alignment_record(header, r).await);
            }
            call(&mut calls, "finish", w.shutdown().await);
        }
        (Model::Alignment { header, records }, Kind::Sam) => {
            let mut w = sam::r#async::io::Writer::new(sink);
            call(&mut calls, "header", w.write_header(header).await);
            for (l, r) in records {
                call(&mut calls, l, w.write_alignment_record(header, r).await);
            }
            call(&mut calls, "finish", w.get_mut().shutdown().await);
        }
        (Model::Alignment { header, records }, Kind::SamGz) => {
            let mut w = sam::r#async::io::Writer::new(bgzf_writer(sink, workers, None));
            call(&mut calls, "header", w.write_header(header).await);
            for (l, r) in records {
                call(&mut calls, l, w.write_alignment_record(header, r).await);
            }
            call(&mut calls, "finish", w.get_mut().shutdown().await);
        }
        (Model::Variant { header, records }, Kind::Vcf) => {
            let mut w = vcf::r#async::io::Writer::new(sink);
            call(&mut calls, "header", w.write_header(header).await);
            for (l, r) in records {
                call(&mut calls, l, w.write_variant_record(header, r).await);
            }
            call(&mut calls, "finish", w.shutdown().await);
        }
        (Model::Variant { header, records }, Kind::VcfGz) => {
            let mut w = vcf::r#async::io::Writer::new(bgzf_writer(sink, workers, None));
            call(&mut calls, "header", w.write_header(header).await);
            for (l, r) in records {
                call(&mut calls, l, w.write_variant_record(header, r).await);
            }
            call(&mut calls, "finish", w.shutdown().await);
        }
        (Model::Variant { header, records }, Kind::Bcf) => {
            let mut w = bcf::r#async::io::Writer::from(bgzf_writer(sink, workers, None));
            call(&mut calls, "header", w.write_header(header).await);
            for (l, r) in records {
                call(&mut calls, l, w.write_variant_record(header, r).await);
            }
            call(&mut calls, "finish", w.get_mut().shutdown().await);
        }
        (Model::Variant { header, records }, Kind::BcfRaw) => {
            let mut w = bcf::r#async::io::Writer::from(sink);
            call(&mut calls, "header", w.write_header(header).await);
            for (l, r) in records {
                call(&mut calls, l, w.write_variant_record(header, r).await);
            }
            call(&mut calls, "finish", w.get_mut().shutdown().await);
        }
        (Model::Fastq { records }, Kind::Fastq) => {
            let mut w = fastq::r#async::io::Writer::new(sink);
            for (l, r) in records {
                call(&mut calls, l, w.write_record(r).await);
            }
            call(&mut calls, "finish", w.get_mut().shutdown().await);
        }
        _ => {}
    }
    calls
}
