//! Region queries: the same sequence of queries on one sync reader (oracle) and on one async reader over the same
//! file and the same (sync-built) index.

use std::io::{self, Cursor};

use corpus::{Kind, Side, render};
use futures::TryStreamExt;
use noodles_bam as bam;
use noodles_bcf as bcf;
use noodles_core::{Position, Region};
use noodles_cram as cram;
use noodles_csi as csi;
use noodles_sam as sam;
use noodles_tabix as tabix;
use noodles_vcf as vcf;
use vcore::{Rng, aadv::PollRead};

use crate::rd::{bgzf_reader, repository};

#[derive(Clone, Debug)]
pub enum Q {
    /// whole reference sequence or an interval of it (1-based, closed)
    Region(String, Option<(usize, usize)>),
    Unmapped,
}

impl Q {
    pub fn describe(&self) -> String {
        match self {
            Q::Region(n, None) => n.clone(),
            Q::Region(n, Some((a, b))) => format!("{n}:{a}-{b}"),
            Q::Unmapped => "*unmapped*".into(),
        }
    }
    fn region(&self) -> Option<Region> {
        match self {
            Q::Region(n, None) => Some(Region::new(n.as_str(), ..)),
            Q::Region(n, Some((a, b))) => {
                let s = Position::new((*a).max(1))?;
                let e = Position::new((*b).max(1))?;
                Some(Region::new(n.as_str(), s..=e))
            }
            Q::Unmapped => None,
        }
    }
}

/// What a query monitor drives.
#[derive(Clone, Copy, Debug, PartialEq, Eq)]
pub enum Mode {
    BamBai,
    SamGzCsi,
    BcfCsi,
    VcfGzTbi,
    /// `csi::io::IndexedReader` / `csi::async::io::IndexedReader` with the tabix index of a VCF.gz
    GenericTbi,
    CramCrai,
}

impl Mode {
    pub fn name(self) -> &'static str {
        match self {
            Mode::BamBai => "bam",
            Mode::SamGzCsi => "samgz",
            Mode::BcfCsi => "bcf",
            Mode::VcfGzTbi => "vcfgz",
            Mode::GenericTbi => "csi-indexed",
            Mode::CramCrai => "cram",
        }
    }
    pub fn for_kinds(data: Kind, index: Kind) -> Vec<Mode> {
        match (data, index) {
            (Kind::Bam, Kind::Bai) => vec![Mode::BamBai],
            (Kind::SamGz, Kind::Csi) => vec![Mode::SamGzCsi],
            (Kind::Bcf, Kind::Csi) => vec![Mode::BcfCsi],
            (Kind::VcfGz, Kind::Tbi) => vec![Mode::VcfGzTbi, Mode::GenericTbi],
            (Kind::Cram, Kind::Crai) => vec![Mode::CramCrai],
            _ => vec![],
        }
    }
    pub fn supports_unmapped(self) -> bool {
        matches!(self, Mode::BamBai | Mode::SamGzCsi | Mode::CramCrai)
    }
    pub fn uses_bgzf(self) -> bool {
        !matches!(self, Mode::CramCrai)
    }
}

/// Reference names and lengths of the data file (through the sync reader: it is the oracle side).
pub fn references(mode: Mode, data: &[u8]) -> io::Result<Vec<(String, usize)>> {
    match mode {
        Mode::BamBai | Mode::SamGzCsi | Mode::CramCrai => {
            let header = match mode {
                Mode::BamBai => bam::io::Reader::new(data).read_header()?,
                Mode::SamGzCsi => sam::io::Reader::new(noodles_bgzf::io::Reader::new(data)).read_header()?,
                _ => cram::io::Reader::new(data).read_header()?,
            };
            Ok(header.reference_sequences().iter().map(|(n, m)| (n.to_string(), usize::from(m.length()))).collect())
        }
        Mode::BcfCsi | Mode::VcfGzTbi | Mode::GenericTbi => {
            let header = match mode {
                Mode::BcfCsi => bcf::io::Reader::new(data).read_header()?,
                _ => vcf::io::Reader::new(noodles_bgzf::io::Reader::new(data)).read_header()?,
            };
            Ok(header.contigs().iter().map(|(n, m)| (n.to_string(), m.length().unwrap_or(100_000))).collect())
        }
    }
}

/// A deterministic query sequence: whole references, sub-intervals, an unknown name, the unmapped query, and
/// REPEATED queries (a second query that starts at the same chunk as the previous one must seek again).
pub fn gen_queries(rng: &mut Rng, mode: Mode, refs: &[(String, usize)], n: usize) -> Vec<Q> {
    let mut qs = Vec::new();
    if refs.is_empty() {
        qs.push(Q::Region("nope".into(), None));
        if mode.supports_unmapped() {
            qs.push(Q::Unmapped);
        }
        return qs;
    }
    let interval = |rng: &mut Rng, len: usize| -> (usize, usize) {
        let len = len.max(2);
        let a = rng.urange(1, len);
        let span = match rng.below(4) {
            0 => 0,
            1 => rng.urange(1, 50),
            2 => rng.urange(1, len / 4 + 1),
            _ => rng.urange(1, len),
        };
        (a, (a + span).min(len + 10))
    };
    for i in 0..n {
        let (name, len) = &refs[rng.usize_below(refs.len())];
        let q = match (i, rng.below(10)) {
            (0, _) => Q::Region(refs[0].0.clone(), None),
            (1, _) => Q::Region(refs[0].0.clone(), None), // immediate repeat of the first query
            (_, 0) => Q::Region(name.clone(), None),
            (_, 1) if mode.supports_unmapped() => Q::Unmapped,
            (_, 2) => Q::Region("no-such-reference".into(), None),
            (_, 3) if !qs.is_empty() => qs[rng.usize_below(qs.len())].clone(), // repeat of an earlier query
            _ => Q::Region(name.clone(), Some(interval(rng, *len))),
        };
        qs.push(q);
    }
    // the last query repeats the one before it
    if let Some(last) = qs.last().cloned() {
        qs.push(last);
    }
    qs
}

pub struct Qt {
    pub out: Vec<String>,
}

impl Qt {
    fn start(&mut self, q: &Q) {
        self.out.push(format!("Q:{}", q.describe()));
    }
    fn qerr(&mut self, e: &io::Error) {
        self.out.push(format!("QERR:{:?}\u{1e}{}", e.kind(), e));
    }
    fn end(&mut self) {
        self.out.push("END".into());
    }
    fn err(&mut self, e: &io::Error) {
        self.out.push(format!("ERR:{:?}\u{1e}{}", e.kind(), e));
    }
}

macro_rules! sync_iter {
    ($t:expr, $it:expr, $render:expr) => {{
        let mut failed = false;
        for res in $it {
            match res {
                Ok(rec) => $t.out.push(format!("R:{}", $render(&rec))),
                Err(e) => {
                    $t.err(&e);
                    failed = true;
                    break;
                }
            }
        }
        if !failed {
            $t.end();
        }
        failed
    }};
}

macro_rules! async_stream {
    ($t:expr, $st:expr, $render:expr) => {{
        let mut failed = false;
        let mut st = $st;
        loop {
            match st.try_next().await {
                Ok(Some(rec)) => $t.out.push(format!("R:{}", $render(&rec))),
                Ok(None) => break,
                Err(e) => {
                    $t.err(&e);
                    failed = true;
                    break;
                }
            }
        }
        if !failed {
            $t.end();
        }
        failed
    }};
}

/// The history stops after the first error of a record stream (nothing is required of a reader after an error);
/// a query that cannot be *created* (unknown reference) is an element of its own and the history goes on.
pub fn run_sync(mode: Mode, data: &[u8], index_bytes: &[u8], side: &Side, queries: &[Q]) -> io::Result<Vec<String>> {
    let mut t = Qt { out: Vec::new() };
    match mode {
        Mode::BamBai => {
            let index = bam::bai::io::Reader::new(index_bytes).read_index()?;
            let mut r = bam::io::Reader::new(Cursor::new(data.to_vec()));
            let header = r.read_header()?;
            for q in queries {
                t.start(q);
                let failed = match q.region() {
                    Some(region) => match r.query(&header, &index, &region) {
                        Ok(qq) => sync_iter!(t, qq.records(), |rec| render::alignment_record(&header, rec)),
                        Err(e) => {
                            t.qerr(&e);
                            false
                        }
                    },
                    None => match r.query_unmapped(&index) {
                        Ok(it) => sync_iter!(t, it, |rec| render::alignment_record(&header, rec)),
                        Err(e) => {
                            t.qerr(&e);
                            false
                        }
                    },
                };
                if failed {
                    break;
                }
            }
        }
        Mode::SamGzCsi => {
            let index = csi::io::Reader::new(index_bytes).read_index()?;
            let mut r = sam::io::Reader::new(noodles_bgzf::io::Reader::new(Cursor::new(data.to_vec())));
            let header = r.read_header()?;
            for q in queries {
                t.start(q);
                let failed = match q.region() {
                    Some(region) => match r.query(&header, &index, &region) {
                        Ok(qq) => sync_iter!(t, qq.records(), |rec| render::alignment_record(&header, rec)),
                        Err(e) => {
                            t.qerr(&e);
                            false
                        }
                    },
                    None => match r.query_unmapped(&index) {
                        Ok(it) => sync_iter!(t, it, |rec| render::alignment_record(&header, rec)),
                        Err(e) => {
                            t.qerr(&e);
                            false
                        }
                    },
                };
                if failed {
                    break;
                }
            }
        }
        Mode::BcfCsi => {
            let index = csi::io::Reader::new(index_bytes).read_index()?;
            let mut r = bcf::io::Reader::new(Cursor::new(data.to_vec()));
            let header = r.read_header()?;
            for q in queries {
                t.start(q);
                let Some(region) = q.region() else { continue };
                let failed = match r.query(&header, &index, &region) {
                    Ok(qq) => sync_iter!(t, qq.records(), |rec| render::variant_record(&header, rec)),
                    Err(e) => {
                        t.qerr(&e);
                        false
                    }
                };
                if failed {
                    break;
                }
            }
        }
        Mode::VcfGzTbi => {
            let index = tabix::io::Reader::new(index_bytes).read_index()?;
            let mut r = vcf::io::Reader::new(noodles_bgzf::io::Reader::new(Cursor::new(data.to_vec())));
            let header = r.read_header()?;
            for q in queries {
                t.start(q);
                let Some(region) = q.region() else { continue };
                let failed = match r.query(&header, &index, &region) {
                    Ok(qq) => sync_iter!(t, qq.records(), |rec| render::variant_record(&header, rec)),
                    Err(e) => {
                        t.qerr(&e);
                        false
                    }
                };
                if failed {
                    break;
                }
            }
        }
        Mode::GenericTbi => {
            let index = tabix::io::Reader::new(index_bytes).read_index()?;
            let mut r = csi::io::IndexedReader::new(Cursor::new(data.to_vec()), index);
            for q in queries {
                t.start(q);
                let Some(region) = q.region() else { continue };
                let failed = match r.query(&region) {
                    Ok(it) => sync_iter!(t, it, |rec: &csi::io::indexed_records::Record| { let s: &str = rec.as_ref(); s.to_string() }),
                    Err(e) => {
                        t.qerr(&e);
                        false
                    }
                };
                if failed {
                    break;
                }
            }
        }
        Mode::CramCrai => {
            let index = cram::crai::io::Reader::new(index_bytes).read_index()?;
            let repo = repository(side)?;
            let mut r = cram::io::reader::Builder::default().set_reference_sequence_repository(repo).build_from_reader(Cursor::new(data.to_vec()));
            let header = r.read_header()?;
            for q in queries {
                t.start(q);
                let failed = match q.region() {
                    Some(region) => match r.query(&header, &index, &region) {
                        Ok(qq) => sync_iter!(t, qq.records(), |rec| render::alignment_record(&header, rec)),
                        Err(e) => {
                            t.qerr(&e);
                            false
                        }
                    },
                    None => match r.query_unmapped(&header, &index) {
                        Ok(it) => sync_iter!(t, it, |rec| render::alignment_record(&header, rec)),
                        Err(e) => {
                            t.qerr(&e);
                            false
                        }
                    },
                };
                if failed {
                    break;
                }
            }
        }
    }
    Ok(t.out)
}

/// The index is parsed with the SYNC index reader here too: the async index readers are compared separately, and
/// the statement compares query results on the same file + index.
pub async fn run_async(mode: Mode, src: PollRead, index_bytes: Vec<u8>, side: Side, queries: Vec<Q>, workers: usize) -> io::Result<Vec<String>> {
    let mut t = Qt { out: Vec::new() };
    match mode {
        Mode::BamBai => {
            let index = bam::bai::io::Reader::new(&index_bytes[..]).read_index()?;
            let mut r = bam::r#async::io::Reader::from(bgzf_reader(src, workers));
            let header = r.read_header().await?;
            for q in &queries {
                t.start(q);
                let failed = match q.region() {
                    Some(region) => match r.query(&header, &index, &region) {
                        Ok(qq) => async_stream!(t, qq.records(), |rec| render::alignment_record(&header, rec)),
                        Err(e) => {
                            t.qerr(&e);
                            false
                        }
                    },
                    None => match r.query_unmapped(&index).await {
                        Ok(st) => async_stream!(t, st, |rec| render::alignment_record(&header, rec)),
                        Err(e) => {
                            t.qerr(&e);
                            false
                        }
                    },
                };
                if failed {
                    break;
                }
            }
        }
        Mode::SamGzCsi => {
            let index = csi::io::Reader::new(&index_bytes[..]).read_index()?;
            let mut r = sam::r#async::io::Reader::new(bgzf_reader(src, workers));
            let header = r.read_header().await?;
            for q in &queries {
                t.start(q);
                let failed = match q.region() {
                    Some(region) => match r.query(&header, &index, &region) {
                        Ok(qq) => async_stream!(t, qq.records(), |rec| render::alignment_record(&header, rec)),
                        Err(e) => {
                            t.qerr(&e);
                            false
                        }
                    },
                    None => match r.query_unmapped(&index).await {
                        Ok(st) => async_stream!(t, st, |rec| render::alignment_record(&header, rec)),
                        Err(e) => {
                            t.qerr(&e);
                            false
                        }
                    },
                };
                if failed {
                    break;
                }
            }
        }
        Mode::BcfCsi => {
            let index = csi::io::Reader::new(&index_bytes[..]).read_index()?;
            let mut r = bcf::r#async::io::Reader::from(bgzf_reader(src, workers));
            let header = r.read_header().await?;
            for q in &queries {
                t.start(q);
                let Some(region) = q.region() else { continue };
                let failed = match r.query(&header, &index, &region) {
                    Ok(qq) => async_stream!(t, qq.records(), |rec| render::variant_record(&header, rec)),
                    Err(e) => {
                        t.qerr(&e);
                        false
                    }
                };
                if failed {
                    break;
                }
            }
        }
        Mode::VcfGzTbi => {
            let index = tabix::io::Reader::new(&index_bytes[..]).read_index()?;
            let mut r = vcf::r#async::io::Reader::new(bgzf_reader(src, workers));
            let header = r.read_header().await?;
            for q in &queries {
                t.start(q);
                let Some(region) = q.region() else { continue };
                let failed = match r.query(&header, &index, &region) {
                    Ok(qq) => async_stream!(t, qq.records(), |rec| render::variant_record(&header, rec)),
                    Err(e) => {
                        t.qerr(&e);
                        false
                    }
                };
                if failed {
                    break;
                }
            }
        }
        Mode::GenericTbi => {
            let index = tabix::io::Reader::new(&index_bytes[..]).read_index()?;
            // the async IndexedReader builds its BGZF reader itself (default worker count)
            let mut r = csi::r#async::io::IndexedReader::new(src, index);
            for q in &queries {
                t.start(q);
                let Some(region) = q.region() else { continue };
                let failed = match r.query(&region) {
                    Ok(st) => async_stream!(t, st, |rec: &csi::io::indexed_records::Record| { let s: &str = rec.as_ref(); s.to_string() }),
                    Err(e) => {
                        t.qerr(&e);
                        false
                    }
                };
                if failed {
                    break;
                }
            }
        }
        Mode::CramCrai => {
            let index = cram::crai::io::Reader::new(&index_bytes[..]).read_index()?;
            let repo = repository(&side)?;
            let mut r = cram::r#async::io::reader::Builder::default().set_reference_sequence_repository(repo).build_from_reader(src);
            let header = r.read_header().await?;
            for q in &queries {
                t.start(q);
                let failed = match q.region() {
                    Some(region) => match r.query(&header, &index, &region) {
                        Ok(qq) => async_stream!(t, qq.records(), |rec| render::alignment_record(&header, rec)),
                        Err(e) => {
                            t.qerr(&e);
                            false
                        }
                    },
                    None => match r.query_unmapped(&header, &index).await {
                        Ok(st) => async_stream!(t, st, |rec| render::alignment_record(&header, rec)),
                        Err(e) => {
                            t.qerr(&e);
                            false
                        }
                    },
                };
                if failed {
                    break;
                }
            }
        }
    }
    Ok(t.out)
}

/// For every query of the history: virtual positions (start of the first chunk, start of the last chunk) the index
/// yields for it, or None (no chunk / query cannot be created / unmapped query / CRAM). Used to recognise one root
/// cause: `poll_seek` of the async BGZF reader skipping a seek to the position of the previous `poll_seek`.
pub fn chunk_starts(mode: Mode, data: &[u8], index_bytes: &[u8], queries: &[Q]) -> io::Result<Vec<Option<(u64, u64)>>> {
    use csi::BinningIndex;
    fn starts<I: BinningIndex>(index: &I, id: Option<usize>, q: &Q) -> Option<(u64, u64)> {
        let region = q.region()?;
        let chunks = index.query(id?, region.interval()).ok()?;
        let first = chunks.first()?;
        let last = chunks.last()?;
        Some((u64::from(first.start()), u64::from(last.start())))
    }
    let name_of = |q: &Q| match q {
        Q::Region(n, _) => Some(n.clone()),
        Q::Unmapped => None,
    };
    Ok(match mode {
        Mode::BamBai => {
            let index = bam::bai::io::Reader::new(index_bytes).read_index()?;
            let header = bam::io::Reader::new(data).read_header()?;
            queries.iter().map(|q| starts(&index, name_of(q).and_then(|n| header.reference_sequences().get_index_of(n.as_bytes())), q)).collect()
        }
        Mode::SamGzCsi => {
            let index = csi::io::Reader::new(index_bytes).read_index()?;
            let header = sam::io::Reader::new(noodles_bgzf::io::Reader::new(data)).read_header()?;
            queries.iter().map(|q| starts(&index, name_of(q).and_then(|n| header.reference_sequences().get_index_of(n.as_bytes())), q)).collect()
        }
        Mode::BcfCsi => {
            let index = csi::io::Reader::new(index_bytes).read_index()?;
            let header = bcf::io::Reader::new(data).read_header()?;
            queries.iter().map(|q| starts(&index, name_of(q).and_then(|n| header.string_maps().contigs().get_index_of(&n)), q)).collect()
        }
        Mode::VcfGzTbi | Mode::GenericTbi => {
            let index = tabix::io::Reader::new(index_bytes).read_index()?;
            let names = index.header().map(|h| h.reference_sequence_names().clone()).unwrap_or_default();
            queries.iter().map(|q| starts(&index, name_of(q).and_then(|n| names.get_index_of(n.as_bytes())), q)).collect()
        }
        Mode::CramCrai => queries.iter().map(|_| None).collect(),
    })
}
