//! Region queries: the same HISTORY of operations on ONE sync reader (oracle) and on ONE async reader over the same file
//! and the same (sync-built) index. A history mixes region queries (whole reference, intervals, single records, the same
//! region twice, ascending / descending order), the unmapped query, partially consumed query streams that are dropped,
//! sequential reads of n records (so that the reader sits exactly at a BGZF block end before the next query) and rewinds.
//! After every operation the virtual position of the underlying BGZF reader is recorded (compared by the offset it
//! denotes). `Raw*` modes drive `csi::io::Query` / `csi::async::io::Query` directly on a FRESH BGZF reader with the chunk
//! lists of the index (bytes + position, no record parsing).

use std::io::{self, BufRead, Cursor};

use corpus::{Kind, Side, render};
use futures::TryStreamExt;
use noodles_bam as bam;
use noodles_bcf as bcf;
use noodles_bgzf as bgzf;
use noodles_core::{Position, Region};
use noodles_cram as cram;
use noodles_csi::{self as csi, BinningIndex, binning_index::index::reference_sequence::bin::Chunk};
use noodles_sam as sam;
use noodles_tabix as tabix;
use noodles_vcf as vcf;
use tokio::io::AsyncBufReadExt;
use vcore::Rng;

use crate::{
    bread::Src,
    rd::{bgzf_reader, repository},
};

#[derive(Clone, Debug)]
pub enum Q {
    /// whole reference sequence or an interval of it (1-based, closed)
    Region(String, Option<(usize, usize)>),
    Unmapped,
    /// the query stream is dropped after `take` records
    Partial(String, Option<(usize, usize)>, usize),
    /// `n` records (generic indexed text: lines) are read sequentially from wherever the reader is
    Read(usize),
    /// the underlying BGZF reader seeks back to where it was right after the header was read (generic: position 0)
    Rewind,
}

impl Q {
    pub fn describe(&self) -> String {
        let iv = |n: &String, i: &Option<(usize, usize)>| match i {
            None => n.clone(),
            Some((a, b)) => format!("{n}:{a}-{b}"),
        };
        match self {
            Q::Region(n, i) => iv(n, i),
            Q::Unmapped => "*unmapped*".into(),
            Q::Partial(n, i, k) => format!("{} (dropped after {k} records)", iv(n, i)),
            Q::Read(n) => format!("*read {n} records sequentially*"),
            Q::Rewind => "*rewind to the first record*".into(),
        }
    }
    pub fn class(&self) -> &'static str {
        match self {
            Q::Region(..) => "region",
            Q::Unmapped => "unmapped",
            Q::Partial(..) => "region-partially-consumed",
            Q::Read(_) => "sequential-read",
            Q::Rewind => "rewind",
        }
    }
    fn region(&self) -> Option<Region> {
        match self {
            Q::Region(n, None) | Q::Partial(n, None, _) => Some(Region::new(n.as_str(), ..)),
            Q::Region(n, Some((a, b))) | Q::Partial(n, Some((a, b)), _) => {
                let s = Position::new((*a).max(1))?;
                let e = Position::new((*b).max(1))?;
                Some(Region::new(n.as_str(), s..=e))
            }
            _ => None,
        }
    }
    fn take(&self) -> Option<usize> {
        match self {
            Q::Partial(_, _, k) => Some(*k),
            _ => None,
        }
    }
}

/// What a query monitor drives.
#[derive(Clone, Copy, Debug, PartialEq, Eq)]
pub enum Mode {
    BamBai,
    SamGzCsi,
    BcfCsi,
    VcfGzTbi,
    /// `csi::io::IndexedReader` / `csi::async::io::IndexedReader` with the tabix index of a VCF.gz, on a fresh reader
    GenericTbi,
    CramCrai,
    /// raw `csi::io::Query` / `csi::async::io::Query` on a fresh BGZF reader, chunk lists from the index
    RawBamBai,
    RawSamGzCsi,
    RawBcfCsi,
    RawVcfGzTbi,
}

impl Mode {
    pub fn name(self) -> &'static str {
        match self {
            Mode::BamBai => "bam",
            Mode::SamGzCsi => "samgz",
            Mode::BcfCsi => "bcf",
            Mode::VcfGzTbi => "vcfgz",
            Mode::GenericTbi => "csi-indexed",
            Mode::CramCrai => "cram",
            Mode::RawBamBai | Mode::RawSamGzCsi | Mode::RawBcfCsi | Mode::RawVcfGzTbi => "csi-raw-query",
        }
    }
    pub fn ordinal(self) -> u64 {
        self as u64
    }
    pub fn for_kinds(data: Kind, index: Kind) -> Vec<Mode> {
        match (data, index) {
            (Kind::Bam, Kind::Bai) => vec![Mode::BamBai, Mode::RawBamBai],
            (Kind::SamGz, Kind::Csi) => vec![Mode::SamGzCsi, Mode::RawSamGzCsi],
            (Kind::Bcf, Kind::Csi) => vec![Mode::BcfCsi, Mode::RawBcfCsi],
            (Kind::VcfGz, Kind::Tbi) => vec![Mode::VcfGzTbi, Mode::GenericTbi, Mode::RawVcfGzTbi],
            (Kind::Cram, Kind::Crai) => vec![Mode::CramCrai],
            _ => vec![],
        }
    }
    /// the typed mode whose header / index resolve names for a raw mode
    pub fn base(self) -> Mode {
        match self {
            Mode::RawBamBai => Mode::BamBai,
            Mode::RawSamGzCsi => Mode::SamGzCsi,
            Mode::RawBcfCsi => Mode::BcfCsi,
            Mode::RawVcfGzTbi => Mode::VcfGzTbi,
            m => m,
        }
    }
    pub fn is_raw(self) -> bool {
        self.base() != self
    }
    pub fn supports_unmapped(self) -> bool {
        matches!(self, Mode::BamBai | Mode::SamGzCsi | Mode::CramCrai)
    }
    pub fn supports_read(self) -> bool {
        !matches!(self, Mode::CramCrai) && !self.is_raw()
    }
    pub fn uses_bgzf(self) -> bool {
        !matches!(self, Mode::CramCrai)
    }
    /// the worker count of the BGZF reader can be chosen
    pub fn has_worker_count(self) -> bool {
        self.uses_bgzf() && self != Mode::GenericTbi
    }
}

/// Reference names and lengths of the data file (through the sync reader: it is the oracle side).
pub fn references(mode: Mode, data: &[u8]) -> io::Result<Vec<(String, usize)>> {
    match mode.base() {
        Mode::BamBai | Mode::SamGzCsi | Mode::CramCrai => {
            let header = match mode.base() {
                Mode::BamBai => bam::io::Reader::new(data).read_header()?,
                Mode::SamGzCsi => sam::io::Reader::new(bgzf::io::Reader::new(data)).read_header()?,
                _ => cram::io::Reader::new(data).read_header()?,
            };
            Ok(header.reference_sequences().iter().map(|(n, m)| (n.to_string(), usize::from(m.length()))).collect())
        }
        _ => {
            let header = match mode.base() {
                Mode::BcfCsi => bcf::io::Reader::new(data).read_header()?,
                _ => vcf::io::Reader::new(bgzf::io::Reader::new(data)).read_header()?,
            };
            Ok(header.contigs().iter().map(|(n, m)| (n.to_string(), m.length().unwrap_or(100_000))).collect())
        }
    }
}

/// (reference name, start, end) of every placed record, in file order (sync reader; records without a start are left out).
pub fn record_spans(mode: Mode, data: &[u8], side: &Side) -> io::Result<Vec<(String, usize, usize)>> {
    let mut out = Vec::new();
    match mode.base() {
        Mode::BamBai | Mode::SamGzCsi | Mode::CramCrai => {
            let mut push = |header: &sam::Header, rec: &dyn sam::alignment::Record| {
                if let (Some(Ok(id)), Some(Ok(s))) = (rec.reference_sequence_id(header), rec.alignment_start()) {
                    let e = rec.alignment_end().and_then(|r| r.ok()).map(usize::from).unwrap_or(usize::from(s));
                    if let Some((n, _)) = header.reference_sequences().get_index(id) {
                        out.push((n.to_string(), usize::from(s), e.max(usize::from(s))));
                    }
                }
            };
            match mode.base() {
                Mode::BamBai => {
                    let mut r = bam::io::Reader::new(data);
                    let h = r.read_header()?;
                    for rec in r.records() {
                        push(&h, &rec?);
                    }
                }
                Mode::SamGzCsi => {
                    let mut r = sam::io::Reader::new(bgzf::io::Reader::new(data));
                    let h = r.read_header()?;
                    for rec in r.records() {
                        push(&h, &rec?);
                    }
                }
                _ => {
                    let mut r = cram::io::reader::Builder::default().set_reference_sequence_repository(repository(side)?).build_from_reader(data);
                    let h = r.read_header()?;
                    for rec in r.records(&h) {
                        push(&h, &rec?);
                    }
                }
            }
        }
        _ => {
            let mut push = |header: &vcf::Header, rec: &dyn vcf::variant::Record| {
                if let (Ok(n), Some(Ok(s))) = (rec.reference_sequence_name(header), rec.variant_start()) {
                    let e = rec.variant_end(header).map(usize::from).unwrap_or(usize::from(s));
                    out.push((n.to_string(), usize::from(s), e.max(usize::from(s))));
                }
            };
            if mode.base() == Mode::BcfCsi {
                let mut r = bcf::io::Reader::new(data);
                let h = r.read_header()?;
                for rec in r.records() {
                    push(&h, &rec?);
                }
            } else {
                let mut r = vcf::io::Reader::new(bgzf::io::Reader::new(data));
                let h = r.read_header()?;
                for rec in r.records() {
                    push(&h, &rec?);
                }
            }
        }
    }
    Ok(out)
}

/// Record counts n such that, after reading n records sequentially from the first record, the BGZF reader sits exactly
/// at the end of a member (`bounds` = record boundaries in the inflated payload, `starts` = member starts in it).
pub fn counts_at_block_ends(bounds: &[usize], member_starts: &[u64]) -> Vec<usize> {
    // bounds[0] = start of the first record, bounds[n] = end of record n-1
    (0..bounds.len()).filter(|&n| member_starts.contains(&(bounds[n] as u64))).collect()
}

/// A deterministic history (see the module docs). `spans` = placed records in file order, `at_block_end` = record counts
/// after which a sequential read sits at a member end.
pub fn gen_queries(rng: &mut Rng, mode: Mode, refs: &[(String, usize)], spans: &[(String, usize, usize)], at_block_end: &[usize], n_random: usize) -> Vec<Q> {
    let mut qs = Vec::new();
    if refs.is_empty() {
        qs.push(Q::Region("nope".into(), None));
        if mode.supports_unmapped() {
            qs.push(Q::Unmapped);
        }
        return qs;
    }
    let single = |i: usize| -> Q {
        let (n, s, e) = &spans[i.min(spans.len() - 1)];
        Q::Region(n.clone(), Some((*s, *e)))
    };
    let near = |rng: &mut Rng, i: usize| -> Q {
        let (n, s, e) = &spans[i.min(spans.len() - 1)];
        Q::Region(n.clone(), Some((*s, *e + rng.urange(0, 40))))
    };
    if !spans.is_empty() {
        // (1) sequential reads up to exactly a member end, each followed by a query that starts shortly after
        if mode.supports_read() {
            let mut cands: Vec<usize> = at_block_end.iter().copied().filter(|&n| n < spans.len().min(60)).collect();
            rng.shuffle(&mut cands);
            for &n in cands.iter().take(3) {
                qs.push(Q::Rewind);
                qs.push(Q::Read(n));
                let d = rng.urange(0, 3);
                qs.push(near(rng, n + d));
            }
            qs.push(Q::Read(rng.urange(1, 4)));
            qs.push(single(rng.usize_below(spans.len())));
        }
        // (2) single-record regions in ascending order with steps 1, 2, 3, then in descending order
        let a = rng.usize_below(spans.len());
        let mut i = a;
        for step in [1usize, 2, 3, 1, 2] {
            qs.push(single(i));
            i += step;
            if i >= spans.len() {
                break;
            }
        }
        let mut j = (a + 9).min(spans.len() - 1);
        for step in [2usize, 1, 3, 2] {
            qs.push(single(j));
            if j < step {
                break;
            }
            j -= step;
        }
        // (3) the same region twice; a partially consumed stream that is dropped, then a query next to it
        let k = rng.usize_below(spans.len());
        qs.push(near(rng, k));
        qs.push(qs.last().unwrap().clone());
        let (n, s, _) = &spans[k];
        qs.push(Q::Partial(n.clone(), Some((*s, *s + 30_000)), rng.urange(0, 3)));
        qs.push(single((k + 2).min(spans.len() - 1)));
        qs.push(Q::Partial(refs[0].0.clone(), None, 1));
        qs.push(Q::Region(refs[0].0.clone(), None));
        qs.push(Q::Region(refs[0].0.clone(), None));
    }
    // (4) random part: whole references, intervals, an unknown name, the unmapped query, repeats
    let interval = |rng: &mut Rng, len: usize| -> (usize, usize) {
        let len = len.max(2);
        let a = rng.urange(1, len);
        let span = match rng.below(4) {
            0 => 0,
            1 => rng.urange(1, 50),
            2 => rng.urange(1, len / 4 + 1),
            _ => rng.urange(1, len),
        };
        (a, (a + span).min(len + 10))
    };
    for i in 0..n_random {
        let (name, len) = &refs[rng.usize_below(refs.len())];
        let q = match (i, rng.below(10)) {
            (0, _) => Q::Region(refs[refs.len() - 1].0.clone(), None),
            (_, 0) => Q::Region(name.clone(), None),
            (_, 1) if mode.supports_unmapped() => Q::Unmapped,
            (_, 2) => Q::Region("no-such-reference".into(), None),
            (_, 3) if !qs.is_empty() => qs[rng.usize_below(qs.len())].clone(),
            (_, 4) if mode.supports_read() => Q::Read(rng.urange(1, 5)),
            _ => Q::Region(name.clone(), Some(interval(rng, *len))),
        };
        qs.push(q);
    }
    if let Some(last) = qs.last().cloned() {
        qs.push(last);
    }
    if !mode.supports_read() {
        qs.retain(|q| !matches!(q, Q::Read(_) | Q::Rewind));
    }
    qs
}

pub struct Qt {
    pub out: Vec<String>,
}

impl Qt {
    fn start(&mut self, q: &Q) {
        self.out.push(format!("Q:{}", q.describe()));
    }
    fn qerr(&mut self, e: &io::Error) {
        self.out.push(format!("QERR:{:?}\u{1e}{}", e.kind(), e));
    }
    fn end(&mut self) {
        self.out.push("END".into());
    }
    /// the consumer stopped (n records read / stream dropped)
    fn stop(&mut self) {
        self.out.push("STOP".into());
    }
    fn err(&mut self, e: &io::Error) {
        self.out.push(format!("ERR:{:?}\u{1e}{}", e.kind(), e));
    }
    /// Position of the BGZF reader after the operation: `V:` (judged, by the offset it denotes) after sequential reads and
    /// rewinds; `P:` (measured only) after queries — a Query compares RAW virtual positions with its chunk end, so how far
    /// the reader gets past a chunk end that lies on a member boundary depends on which of the equivalent positions it
    /// shows at that moment (across empty members: on the schedule).
    fn pos(&mut self, q: &Q, v: bgzf::VirtualPosition) {
        let tag = if matches!(q, Q::Read(_) | Q::Rewind) { 'V' } else { 'P' };
        self.out.push(format!("{tag}:{}", u64::from(v)));
    }
    fn bytes(&mut self, b: &[u8]) {
        // one char per byte (latin-1): the caller needs the bytes themselves when the two sides differ
        self.out.push(format!("B:{}", b.iter().map(|&x| x as char).collect::<String>()));
    }
}

/// Drains an iterator of results; returns true if it failed. `take` = drop it after that many records.
macro_rules! sync_iter {
    ($t:expr, $it:expr, $render:expr, $take:expr) => {{
        let take: Option<usize> = $take;
        let mut failed = false;
        let mut stopped = false;
        let mut n = 0usize;
        let mut it = $it;
        loop {
            if take == Some(n) {
                stopped = true;
                break;
            }
            match it.next() {
                Some(Ok(rec)) => {
                    n += 1;
                    $t.out.push(format!("R:{}", $render(&rec)))
                }
                Some(Err(e)) => {
                    $t.err(&e);
                    failed = true;
                    break;
                }
                None => break,
            }
        }
        drop(it);
        if stopped {
            $t.stop();
        } else if !failed {
            $t.end();
        }
        failed
    }};
}

macro_rules! async_stream {
    ($t:expr, $st:expr, $render:expr, $take:expr) => {{
        let take: Option<usize> = $take;
        let mut failed = false;
        let mut stopped = false;
        let mut n = 0usize;
        let mut st = $st;
        loop {
            if take == Some(n) {
                stopped = true;
                break;
            }
            match st.try_next().await {
                Ok(Some(rec)) => {
                    n += 1;
                    $t.out.push(format!("R:{}", $render(&rec)))
                }
                Ok(None) => break,
                Err(e) => {
                    $t.err(&e);
                    failed = true;
                    break;
                }
            }
        }
        drop(st);
        if stopped {
            $t.stop();
        } else if !failed {
            $t.end();
        }
        failed
    }};
}

/// One history on a typed sync reader over a BGZF reader. `$unmapped`: `yes` / `no`.
macro_rules! typed_sync {
    ($t:ident, $queries:ident, $r:ident, $header:ident, $index:ident, $rec:ty, $render:expr, $unmapped:tt) => {{
        let first = $r.get_ref().virtual_position();
        for q in $queries {
            $t.start(q);
            let failed = match q {
                Q::Rewind => match $r.get_mut().seek(first) {
                    Ok(_) => {
                        $t.end();
                        false
                    }
                    Err(e) => {
                        $t.err(&e);
                        true
                    }
                },
                Q::Read(n) => {
                    let mut rec = <$rec>::default();
                    let mut failed = false;
                    let mut done = false;
                    for _ in 0..*n {
                        match $r.read_record(&mut rec) {
                            Ok(0) => {
                                $t.end();
                                done = true;
                                break;
                            }
                            Ok(_) => $t.out.push(format!("R:{}", $render(&rec))),
                            Err(e) => {
                                $t.err(&e);
                                failed = true;
                                done = true;
                                break;
                            }
                        }
                    }
                    if !done {
                        $t.stop();
                    }
                    failed
                }
                Q::Unmapped => typed_sync!(@unmapped $unmapped, $t, $r, $index, $render),
                _ => match q.region() {
                    Some(region) => match $r.query(&$header, &$index, &region) {
                        Ok(qq) => sync_iter!($t, qq.records(), $render, q.take()),
                        Err(e) => {
                            $t.qerr(&e);
                            false
                        }
                    },
                    None => false,
                },
            };
            if failed {
                break;
            }
            $t.pos(q, $r.get_ref().virtual_position());
        }
    }};
    (@unmapped yes, $t:ident, $r:ident, $index:ident, $render:expr) => {
        match $r.query_unmapped(&$index) {
            Ok(it) => sync_iter!($t, it, $render, None),
            Err(e) => {
                $t.qerr(&e);
                false
            }
        }
    };
    (@unmapped no, $t:ident, $r:ident, $index:ident, $render:expr) => {
        false
    };
}

macro_rules! typed_async {
    ($t:ident, $queries:ident, $r:ident, $header:ident, $index:ident, $rec:ty, $render:expr, $unmapped:tt) => {{
        let first = $r.get_ref().virtual_position();
        for q in &$queries {
            $t.start(q);
            let failed = match q {
                Q::Rewind => match $r.get_mut().seek(first).await {
                    Ok(_) => {
                        $t.end();
                        false
                    }
                    Err(e) => {
                        $t.err(&e);
                        true
                    }
                },
                Q::Read(n) => {
                    let mut rec = <$rec>::default();
                    let mut failed = false;
                    let mut done = false;
                    for _ in 0..*n {
                        match $r.read_record(&mut rec).await {
                            Ok(0) => {
                                $t.end();
                                done = true;
                                break;
                            }
                            Ok(_) => $t.out.push(format!("R:{}", $render(&rec))),
                            Err(e) => {
                                $t.err(&e);
                                failed = true;
                                done = true;
                                break;
                            }
                        }
                    }
                    if !done {
                        $t.stop();
                    }
                    failed
                }
                Q::Unmapped => typed_async!(@unmapped $unmapped, $t, $r, $index, $render),
                _ => match q.region() {
                    Some(region) => match $r.query(&$header, &$index, &region) {
                        Ok(qq) => async_stream!($t, qq.records(), $render, q.take()),
                        Err(e) => {
                            $t.qerr(&e);
                            false
                        }
                    },
                    None => false,
                },
            };
            if failed {
                break;
            }
            $t.pos(q, $r.get_ref().virtual_position());
        }
    }};
    (@unmapped yes, $t:ident, $r:ident, $index:ident, $render:expr) => {
        match $r.query_unmapped(&$index).await {
            Ok(st) => async_stream!($t, st, $render, None),
            Err(e) => {
                $t.qerr(&e);
                false
            }
        }
    };
    (@unmapped no, $t:ident, $r:ident, $index:ident, $render:expr) => {
        false
    };
}

fn line_of(rec: &csi::io::indexed_records::Record) -> String {
    let s: &str = rec.as_ref();
    s.to_string()
}

/// Chunk lists of the region queries of a history (None: not a region query / unknown reference).
pub fn chunk_lists(mode: Mode, data: &[u8], index_bytes: &[u8], queries: &[Q]) -> io::Result<Vec<Option<Vec<Chunk>>>> {
    fn chunks<I: BinningIndex>(index: &I, id: Option<usize>, q: &Q) -> Option<Vec<Chunk>> {
        let region = q.region()?;
        index.query(id?, region.interval()).ok()
    }
    let name_of = |q: &Q| match q {
        Q::Region(n, _) | Q::Partial(n, _, _) => Some(n.clone()),
        _ => None,
    };
    Ok(match mode.base() {
        Mode::BamBai => {
            let index = bam::bai::io::Reader::new(index_bytes).read_index()?;
            let header = bam::io::Reader::new(data).read_header()?;
            queries.iter().map(|q| chunks(&index, name_of(q).and_then(|n| header.reference_sequences().get_index_of(n.as_bytes())), q)).collect()
        }
        Mode::SamGzCsi => {
            let index = csi::io::Reader::new(index_bytes).read_index()?;
            let header = sam::io::Reader::new(bgzf::io::Reader::new(data)).read_header()?;
            queries.iter().map(|q| chunks(&index, name_of(q).and_then(|n| header.reference_sequences().get_index_of(n.as_bytes())), q)).collect()
        }
        Mode::BcfCsi => {
            let index = csi::io::Reader::new(index_bytes).read_index()?;
            let header = bcf::io::Reader::new(data).read_header()?;
            queries.iter().map(|q| chunks(&index, name_of(q).and_then(|n| header.string_maps().contigs().get_index_of(&n)), q)).collect()
        }
        Mode::VcfGzTbi | Mode::GenericTbi => {
            let index = tabix::io::Reader::new(index_bytes).read_index()?;
            let names = index.header().map(|h| h.reference_sequence_names().clone()).unwrap_or_default();
            queries.iter().map(|q| chunks(&index, name_of(q).and_then(|n| names.get_index_of(n.as_bytes())), q)).collect()
        }
        _ => queries.iter().map(|_| None).collect(),
    })
}

/// The history stops after the first error of a record stream (nothing is required of a reader after an error);
/// a query that cannot be *created* (unknown reference) is an element of its own and the history goes on.
pub fn run_sync(mode: Mode, data: &[u8], index_bytes: &[u8], side: &Side, queries: &[Q]) -> io::Result<Vec<String>> {
    let mut t = Qt { out: Vec::new() };
    match mode {
        Mode::BamBai => {
            let index = bam::bai::io::Reader::new(index_bytes).read_index()?;
            let mut r = bam::io::Reader::new(Cursor::new(data.to_vec()));
            let header = r.read_header()?;
            typed_sync!(t, queries, r, header, index, bam::Record, |rec| render::alignment_record(&header, rec), yes);
        }
        Mode::SamGzCsi => {
            let index = csi::io::Reader::new(index_bytes).read_index()?;
            let mut r = sam::io::Reader::new(bgzf::io::Reader::new(Cursor::new(data.to_vec())));
            let header = r.read_header()?;
            typed_sync!(t, queries, r, header, index, sam::Record, |rec| render::alignment_record(&header, rec), yes);
        }
        Mode::BcfCsi => {
            let index = csi::io::Reader::new(index_bytes).read_index()?;
            let mut r = bcf::io::Reader::new(Cursor::new(data.to_vec()));
            let header = r.read_header()?;
            typed_sync!(t, queries, r, header, index, bcf::Record, |rec| render::variant_record(&header, rec), no);
        }
        Mode::VcfGzTbi => {
            let index = tabix::io::Reader::new(index_bytes).read_index()?;
            let mut r = vcf::io::Reader::new(bgzf::io::Reader::new(Cursor::new(data.to_vec())));
            let header = r.read_header()?;
            typed_sync!(t, queries, r, header, index, vcf::Record, |rec| render::variant_record(&header, rec), no);
        }
        Mode::GenericTbi => {
            let index = tabix::io::Reader::new(index_bytes).read_index()?;
            let mut r = csi::io::IndexedReader::new(Cursor::new(data.to_vec()), index);
            let mut line = Vec::new();
            for q in queries {
                t.start(q);
                let failed = match q {
                    Q::Rewind => match r.get_mut().seek(bgzf::VirtualPosition::default()) {
                        Ok(_) => {
                            t.end();
                            false
                        }
                        Err(e) => {
                            t.err(&e);
                            true
                        }
                    },
                    Q::Read(n) => {
                        let (mut failed, mut done) = (false, false);
                        for _ in 0..*n {
                            line.clear();
                            match r.get_mut().read_until(b'\n', &mut line) {
                                Ok(0) => {
                                    t.end();
                                    done = true;
                                    break;
                                }
                                Ok(_) => t.out.push(format!("R:{}", render::esc(&line))),
                                Err(e) => {
                                    t.err(&e);
                                    failed = true;
                                    done = true;
                                    break;
                                }
                            }
                        }
                        if !done {
                            t.stop();
                        }
                        failed
                    }
                    _ => match q.region() {
                        Some(region) => match r.query(&region) {
                            Ok(it) => sync_iter!(t, it, line_of, q.take()),
                            Err(e) => {
                                t.qerr(&e);
                                false
                            }
                        },
                        None => false,
                    },
                };
                if failed {
                    break;
                }
                t.pos(q, r.get_ref().virtual_position());
            }
        }
        Mode::CramCrai => {
            let index = cram::crai::io::Reader::new(index_bytes).read_index()?;
            let repo = repository(side)?;
            let mut r = cram::io::reader::Builder::default().set_reference_sequence_repository(repo).build_from_reader(Cursor::new(data.to_vec()));
            let header = r.read_header()?;
            for q in queries {
                t.start(q);
                let failed = match q {
                    Q::Unmapped => match r.query_unmapped(&header, &index) {
                        Ok(it) => sync_iter!(t, it, |rec| render::alignment_record(&header, rec), None),
                        Err(e) => {
                            t.qerr(&e);
                            false
                        }
                    },
                    _ => match q.region() {
                        Some(region) => match r.query(&header, &index, &region) {
                            Ok(qq) => sync_iter!(t, qq.records(), |rec| render::alignment_record(&header, rec), q.take()),
                            Err(e) => {
                                t.qerr(&e);
                                false
                            }
                        },
                        None => false,
                    },
                };
                if failed {
                    break;
                }
            }
        }
        Mode::RawBamBai | Mode::RawSamGzCsi | Mode::RawBcfCsi | Mode::RawVcfGzTbi => {
            let lists = chunk_lists(mode, data, index_bytes, queries)?;
            // ONE reader, never read before the first query (no header read)
            let mut r = bgzf::io::Reader::new(Cursor::new(data.to_vec()));
            for (q, chunks) in queries.iter().zip(lists) {
                t.start(q);
                let Some(chunks) = chunks else {
                    t.out.push("QERR:no-chunks".into());
                    continue;
                };
                let mut bytes = Vec::new();
                // The same consumer discipline on both sides: fill_buf + consume of the whole window (how far a Query runs
                // past its last chunk end depends on where the consumer's reads end: it checks the position at every fill).
                // Partially consumed: `take` windows, at most 100 bytes of each.
                let res = (|| -> io::Result<()> {
                    let mut query = csi::io::Query::new(&mut r, chunks);
                    let mut windows = 0usize;
                    loop {
                        if q.take() == Some(windows) {
                            return Ok(());
                        }
                        let w = query.fill_buf()?;
                        if w.is_empty() {
                            return Ok(());
                        }
                        let n = if q.take().is_some() { w.len().min(100) } else { w.len() };
                        bytes.extend_from_slice(&w[..n]);
                        query.consume(n);
                        windows += 1;
                    }
                })();
                match res {
                    Ok(()) => {
                        t.bytes(&bytes);
                        t.end();
                    }
                    Err(e) => {
                        t.err(&e);
                        break;
                    }
                }
                t.pos(q, r.virtual_position());
            }
        }
    }
    Ok(t.out)
}

/// The index is parsed with the SYNC index reader here too: the async index readers are compared separately, and
/// the statement compares query results on the same file + index.
pub async fn run_async(mode: Mode, src: Src, data: Vec<u8>, index_bytes: Vec<u8>, side: Side, queries: Vec<Q>, workers: usize) -> io::Result<Vec<String>> {
    let mut t = Qt { out: Vec::new() };
    match mode {
        Mode::BamBai => {
            let index = bam::bai::io::Reader::new(&index_bytes[..]).read_index()?;
            let mut r = bam::r#async::io::Reader::from(bgzf_reader(src, workers));
            let header = r.read_header().await?;
            typed_async!(t, queries, r, header, index, bam::Record, |rec| render::alignment_record(&header, rec), yes);
        }
        Mode::SamGzCsi => {
            let index = csi::io::Reader::new(&index_bytes[..]).read_index()?;
            let mut r = sam::r#async::io::Reader::new(bgzf_reader(src, workers));
            let header = r.read_header().await?;
            typed_async!(t, queries, r, header, index, sam::Record, |rec| render::alignment_record(&header, rec), yes);
        }
        Mode::BcfCsi => {
            let index = csi::io::Reader::new(&index_bytes[..]).read_index()?;
            let mut r = bcf::r#async::io::Reader::from(bgzf_reader(src, workers));
            let header = r.read_header().await?;
            typed_async!(t, queries, r, header, index, bcf::Record, |rec| render::variant_record(&header, rec), no);
        }
        Mode::VcfGzTbi => {
            let index = tabix::io::Reader::new(&index_bytes[..]).read_index()?;
            let mut r = vcf::r#async::io::Reader::new(bgzf_reader(src, workers));
            let header = r.read_header().await?;
            typed_async!(t, queries, r, header, index, vcf::Record, |rec| render::variant_record(&header, rec), no);
        }
        Mode::GenericTbi => {
            let index = tabix::io::Reader::new(&index_bytes[..]).read_index()?;
            // the async IndexedReader builds its BGZF reader itself (default worker count)
            let mut r = csi::r#async::io::IndexedReader::new(src, index);
            let mut line = Vec::new();
            for q in &queries {
                t.start(q);
                let failed = match q {
                    Q::Rewind => match r.get_mut().seek(bgzf::VirtualPosition::default()).await {
                        Ok(_) => {
                            t.end();
                            false
                        }
                        Err(e) => {
                            t.err(&e);
                            true
                        }
                    },
                    Q::Read(n) => {
                        let (mut failed, mut done) = (false, false);
                        for _ in 0..*n {
                            line.clear();
                            match r.get_mut().read_until(b'\n', &mut line).await {
                                Ok(0) => {
                                    t.end();
                                    done = true;
                                    break;
                                }
                                Ok(_) => t.out.push(format!("R:{}", render::esc(&line))),
                                Err(e) => {
                                    t.err(&e);
                                    failed = true;
                                    done = true;
                                    break;
                                }
                            }
                        }
                        if !done {
                            t.stop();
                        }
                        failed
                    }
                    _ => match q.region() {
                        Some(region) => match r.query(&region) {
                            Ok(st) => async_stream!(t, st, line_of, q.take()),
                            Err(e) => {
                                t.qerr(&e);
                                false
                            }
                        },
                        None => false,
                    },
                };
                if failed {
                    break;
                }
                t.pos(q, r.get_ref().virtual_position());
            }
        }
        Mode::CramCrai => {
            let index = cram::crai::io::Reader::new(&index_bytes[..]).read_index()?;
            let repo = repository(&side)?;
            let mut r = cram::r#async::io::reader::Builder::default().set_reference_sequence_repository(repo).build_from_reader(src);
            let header = r.read_header().await?;
            for q in &queries {
                t.start(q);
                let failed = match q {
                    Q::Unmapped => match r.query_unmapped(&header, &index).await {
                        Ok(st) => async_stream!(t, st, |rec| render::alignment_record(&header, rec), None),
                        Err(e) => {
                            t.qerr(&e);
                            false
                        }
                    },
                    _ => match q.region() {
                        Some(region) => match r.query(&header, &index, &region) {
                            Ok(qq) => async_stream!(t, qq.records(), |rec| render::alignment_record(&header, rec), q.take()),
                            Err(e) => {
                                t.qerr(&e);
                                false
                            }
                        },
                        None => false,
                    },
                };
                if failed {
                    break;
                }
            }
        }
        Mode::RawBamBai | Mode::RawSamGzCsi | Mode::RawBcfCsi | Mode::RawVcfGzTbi => {
            let lists = chunk_lists(mode, &data, &index_bytes, &queries)?;
            let mut r = bgzf_reader(src, workers);
            for (q, chunks) in queries.iter().zip(lists) {
                t.start(q);
                let Some(chunks) = chunks else {
                    t.out.push("QERR:no-chunks".into());
                    continue;
                };
                let mut bytes = Vec::new();
                let res: io::Result<()> = {
                    let mut query = csi::r#async::io::Query::new(&mut r, chunks);
                    let mut windows = 0usize;
                    loop {
                        if q.take() == Some(windows) {
                            break Ok(());
                        }
                        let w = match query.fill_buf().await {
                            Ok(w) => w,
                            Err(e) => break Err(e),
                        };
                        if w.is_empty() {
                            break Ok(());
                        }
                        let n = if q.take().is_some() { w.len().min(100) } else { w.len() };
                        bytes.extend_from_slice(&w[..n]);
                        query.consume(n);
                        windows += 1;
                    }
                };
                match res {
                    Ok(()) => {
                        t.bytes(&bytes);
                        t.end();
                    }
                    Err(e) => {
                        t.err(&e);
                        break;
                    }
                }
                t.pos(q, r.virtual_position());
            }
        }
    }
    Ok(t.out)
}
