//! A second read adversary next to `vcore::aadv::PollRead`: `BoundaryRead` returns `Poll::Pending` (self-waking, once)
//! exactly at chosen byte offsets — every BGZF member boundary, i.e. after the last byte of member k and before the first
//! byte of member k+1, which includes "right after a 28-byte empty member" — and never lets a transfer cross such an
//! offset. `Src` is the source type of the seek / query drivers (either adversary).

use std::{
    io::{self, SeekFrom},
    pin::Pin,
    sync::{Arc, Mutex},
    task::{Context, Poll},
};

use tokio::io::{AsyncRead, AsyncSeek, ReadBuf};
use vcore::aadv::{PollRead, PollStats};

#[derive(Debug)]
pub struct BoundaryRead {
    data: Arc<Vec<u8>>,
    pos: u64,
    /// sorted offsets at which a read stalls once before it delivers anything
    stalls: Arc<Vec<u64>>,
    /// max bytes per transfer (0 = up to the next stall offset)
    max_chunk: usize,
    stalled_at: Option<u64>,
    pending_seek: Option<u64>,
    pub stats: Arc<Mutex<PollStats>>,
}

impl BoundaryRead {
    pub fn new(data: Arc<Vec<u8>>, stalls: Arc<Vec<u64>>, max_chunk: usize) -> Self {
        BoundaryRead { data, pos: 0, stalls, max_chunk, stalled_at: None, pending_seek: None, stats: Arc::new(Mutex::new(PollStats::default())) }
    }
}

impl AsyncRead for BoundaryRead {
    fn poll_read(mut self: Pin<&mut Self>, cx: &mut Context<'_>, buf: &mut ReadBuf<'_>) -> Poll<io::Result<()>> {
        self.stats.lock().unwrap().polls += 1;
        let pos = self.pos.min(self.data.len() as u64);
        if self.stalled_at != Some(pos) && self.stalls.binary_search(&pos).is_ok() {
            self.stalled_at = Some(pos);
            self.stats.lock().unwrap().pendings += 1;
            cx.waker().wake_by_ref();
            return Poll::Pending;
        }
        let left = self.data.len() as u64 - pos;
        let to_stall = match self.stalls.binary_search(&(pos + 1)) {
            Ok(i) | Err(i) => self.stalls.get(i).map(|s| s - pos).unwrap_or(u64::MAX),
        };
        let want = (buf.remaining() as u64).min(left);
        let mut n = want.min(to_stall);
        if self.max_chunk > 0 {
            n = n.min(self.max_chunk as u64);
        }
        if n < want {
            self.stats.lock().unwrap().partial += 1;
        }
        let data = self.data.clone();
        buf.put_slice(&data[pos as usize..(pos + n) as usize]);
        self.pos = pos + n;
        Poll::Ready(Ok(()))
    }
}

impl AsyncSeek for BoundaryRead {
    fn start_seek(mut self: Pin<&mut Self>, position: SeekFrom) -> io::Result<()> {
        let len = self.data.len() as i128;
        let p = match position {
            SeekFrom::Start(p) => p as i128,
            SeekFrom::End(d) => len + d as i128,
            SeekFrom::Current(d) => self.pos as i128 + d as i128,
        };
        if p < 0 {
            return Err(io::Error::new(io::ErrorKind::InvalidInput, "seek before start"));
        }
        self.pending_seek = Some(p as u64);
        Ok(())
    }

    fn poll_complete(mut self: Pin<&mut Self>, _cx: &mut Context<'_>) -> Poll<io::Result<u64>> {
        if let Some(p) = self.pending_seek.take() {
            self.pos = p;
            // a read at the new position stalls again if it is a stall offset
            self.stalled_at = None;
        }
        Poll::Ready(Ok(self.pos))
    }
}

#[derive(Debug)]
pub enum Src {
    Poll(PollRead),
    Boundary(BoundaryRead),
}

impl Src {
    pub fn stats(&self) -> Arc<Mutex<PollStats>> {
        match self {
            Src::Poll(r) => r.stats.clone(),
            Src::Boundary(r) => r.stats.clone(),
        }
    }
}

impl AsyncRead for Src {
    fn poll_read(self: Pin<&mut Self>, cx: &mut Context<'_>, buf: &mut ReadBuf<'_>) -> Poll<io::Result<()>> {
        match self.get_mut() {
            Src::Poll(r) => Pin::new(r).poll_read(cx, buf),
            Src::Boundary(r) => Pin::new(r).poll_read(cx, buf),
        }
    }
}

impl AsyncSeek for Src {
    fn start_seek(self: Pin<&mut Self>, position: SeekFrom) -> io::Result<()> {
        match self.get_mut() {
            Src::Poll(r) => Pin::new(r).start_seek(position),
            Src::Boundary(r) => Pin::new(r).start_seek(position),
        }
    }
    fn poll_complete(self: Pin<&mut Self>, cx: &mut Context<'_>) -> Poll<io::Result<u64>> {
        match self.get_mut() {
            Src::Poll(r) => Pin::new(r).poll_complete(cx),
            Src::Boundary(r) => Pin::new(r).poll_complete(cx),
        }
    }
}
