//! BGZF operation histories with seeks: the same history on the sync reader (oracle) and on the async reader.

use std::io::{self, BufRead, Cursor, Read};

use noodles_bgzf::{self as bgzf, gzi};
use noodles_csi::{self as csi, binning_index::index::reference_sequence::bin::Chunk};
use tokio::io::{AsyncBufReadExt, AsyncReadExt};
use vcore::{Rng, bgzf as obgzf, rng::fnv1a};

use crate::{bread::Src, rd::bgzf_reader};

#[derive(Clone, Debug)]
pub enum Op {
    Read(usize),
    ReadExact(usize),
    FillConsume(usize),
    Seek(u64),
    SeekU(u64),
    ReadToEnd,
    /// async: the `poll_seek` path (what `AsyncSeek`-style callers and `csi::async::io::Query` use), not `async fn seek`;
    /// sync: `seek`
    PollSeek(u64),
    /// `csi::io::Query` / `csi::async::io::Query` over the given chunks (start, end virtual positions), consumed window by
    /// window (fill_buf + consume of the whole window)
    Query(Vec<(u64, u64)>),
}

impl Op {
    pub fn is_seek(&self) -> bool {
        matches!(self, Op::Seek(_) | Op::SeekU(_) | Op::PollSeek(_) | Op::Query(_))
    }
}

fn chunks_of(c: &[(u64, u64)]) -> Vec<Chunk> {
    c.iter().map(|(s, e)| Chunk::new(bgzf::VirtualPosition::from(*s), bgzf::VirtualPosition::from(*e))).collect()
}

/// What one operation showed. `vpos` is the virtual position after the operation, `ret` the virtual position a `seek`
/// RETURNED; both are compared by the uncompressed offset they denote (the caller maps them with the independent walker).
#[derive(Clone, Debug, PartialEq)]
pub struct Obs {
    pub op: String,
    pub result: String,
    /// hash of the delivered bytes (`seek_by_uncompressed_position`: of the returned offset)
    pub hash: u64,
    pub len: usize,
    pub vpos: u64,
    pub ret: Option<u64>,
    /// `Op::Query`: the bytes themselves (how far a Query runs past a chunk end that lies on a member boundary depends
    /// on the schedule; the caller checks them against the chunk model when the two sides differ)
    pub bytes: Option<Vec<u8>>,
}

fn name(op: &Op) -> String {
    match op {
        Op::Read(n) => format!("read({n})"),
        Op::ReadExact(n) => format!("read_exact({n})"),
        Op::FillConsume(n) => format!("fill_buf+consume({n})"),
        Op::Seek(v) => format!("seek({}:{})", v >> 16, v & 0xffff),
        Op::SeekU(p) => format!("seek_by_uncompressed_position({p})"),
        Op::ReadToEnd => "read_to_end".into(),
        Op::PollSeek(v) => format!("poll_seek({}:{})", v >> 16, v & 0xffff),
        Op::Query(c) => format!("csi-query({})", c.iter().map(|(s, e)| format!("{}:{}-{}:{}", s >> 16, s & 0xffff, e >> 16, e & 0xffff)).collect::<Vec<_>>().join(",")),
    }
}

fn observe(out: &mut Vec<Obs>, op: &Op, res: io::Result<Vec<u8>>, vpos: u64) -> bool {
    match res {
        Ok(b) => {
            let o = match op {
                // the returned virtual position is kept as a value, not as bytes
                Op::Seek(_) | Op::PollSeek(_) => Obs { op: name(op), result: "ok".into(), hash: 0, len: 0, vpos, ret: b.get(..8).map(|x| u64::from_le_bytes(x.try_into().unwrap())), bytes: None },
                Op::Query(_) => Obs { op: name(op), result: "ok".into(), hash: fnv1a(&b), len: b.len(), vpos, ret: None, bytes: Some(b) },
                _ => Obs { op: name(op), result: "ok".into(), hash: fnv1a(&b), len: b.len(), vpos, ret: None, bytes: None },
            };
            out.push(o);
            true
        }
        // nothing is required of the position after an error; the history stops there
        Err(e) => {
            out.push(Obs { op: name(op), result: format!("err:{:?}", e.kind()), hash: 0, len: 0, vpos: 0, ret: None, bytes: None });
            false
        }
    }
}

pub fn drive_sync(file: &[u8], index: &gzi::Index, ops: &[Op]) -> Vec<Obs> {
    let mut r = bgzf::io::Reader::new(Cursor::new(file.to_vec()));
    let mut out = Vec::new();
    let mut buf = Vec::new();
    for op in ops {
        let res: io::Result<Vec<u8>> = match op {
            Op::Read(n) => {
                buf.clear();
                buf.resize(*n, 0);
                r.read(&mut buf).map(|k| buf[..k].to_vec())
            }
            Op::ReadExact(n) => {
                buf.clear();
                buf.resize(*n, 0);
                r.read_exact(&mut buf).map(|_| buf.clone())
            }
            Op::FillConsume(n) => {
                let res = r.fill_buf().map(|b| b[..b.len().min(*n)].to_vec());
                if let Ok(b) = &res {
                    r.consume(b.len());
                }
                res
            }
            Op::Seek(v) => r.seek(bgzf::VirtualPosition::from(*v)).map(|v| u64::from(v).to_le_bytes().to_vec()),
            Op::SeekU(p) => r.seek_by_uncompressed_position(index, *p).map(|v| v.to_le_bytes().to_vec()),
            Op::ReadToEnd => {
                let mut v = Vec::new();
                r.read_to_end(&mut v).map(|_| v)
            }
            Op::PollSeek(v) => r.seek(bgzf::VirtualPosition::from(*v)).map(|v| u64::from(v).to_le_bytes().to_vec()),
            Op::Query(c) => (|| -> io::Result<Vec<u8>> {
                let mut q = csi::io::Query::new(&mut r, chunks_of(c));
                let mut v = Vec::new();
                loop {
                    let w = q.fill_buf()?;
                    if w.is_empty() {
                        return Ok(v);
                    }
                    let n = w.len();
                    v.extend_from_slice(w);
                    q.consume(n);
                }
            })(),
        };
        let vpos = u64::from(r.virtual_position());
        if !observe(&mut out, op, res, vpos) {
            break;
        }
    }
    out
}

pub async fn drive_async(src: Src, workers: usize, index: gzi::Index, ops: Vec<Op>) -> Vec<Obs> {
    let mut r = bgzf_reader(src, workers);
    let mut out = Vec::new();
    let mut buf = Vec::new();
    for op in &ops {
        let res: io::Result<Vec<u8>> = match op {
            Op::Read(n) => {
                buf.clear();
                buf.resize(*n, 0);
                r.read(&mut buf).await.map(|k| buf[..k].to_vec())
            }
            Op::ReadExact(n) => {
                buf.clear();
                buf.resize(*n, 0);
                r.read_exact(&mut buf).await.map(|_| buf.clone())
            }
            Op::FillConsume(n) => {
                let res = r.fill_buf().await.map(|b| b[..b.len().min(*n)].to_vec());
                if let Ok(b) = &res {
                    r.consume(b.len());
                }
                res
            }
            Op::Seek(v) => r.seek(bgzf::VirtualPosition::from(*v)).await.map(|v| u64::from(v).to_le_bytes().to_vec()),
            Op::SeekU(p) => r.seek_by_uncompressed_position(&index, *p).await.map(|v| v.to_le_bytes().to_vec()),
            Op::ReadToEnd => {
                let mut v = Vec::new();
                r.read_to_end(&mut v).await.map(|_| v)
            }
            Op::PollSeek(v) => {
                let pos = bgzf::VirtualPosition::from(*v);
                let mut rr = &mut r;
                std::future::poll_fn(|cx| std::pin::Pin::new(&mut rr).poll_seek(cx, pos)).await.map(|v| u64::from(v).to_le_bytes().to_vec())
            }
            Op::Query(c) => {
                let mut q = csi::r#async::io::Query::new(&mut r, chunks_of(c));
                let mut v = Vec::new();
                loop {
                    match q.fill_buf().await {
                        Ok(w) if w.is_empty() => break Ok(v),
                        Ok(w) => {
                            let n = w.len();
                            v.extend_from_slice(w);
                            q.consume(n);
                        }
                        Err(e) => break Err(e),
                    }
                }
            }
        };
        let vpos = u64::from(r.virtual_position());
        if !observe(&mut out, op, res, vpos) {
            break;
        }
    }
    out
}

/// Seek targets are positions the reader itself reports through `virtual_position()`: `(member offset, u)` with
/// `u < len` inside non-empty members, and `(offset, 0)` of any member start (empty members and EOF markers included)
/// or of the end of the file — the position reported after a block has been consumed completely.
pub fn gen_ops(rng: &mut Rng, walk: &obgzf::Walk, file_len: usize, n_ops: usize) -> Vec<Op> {
    let mut inside = Vec::new();
    let mut starts = Vec::new();
    for m in &walk.members {
        if !m.data.is_empty() {
            inside.push((m.offset, m.data.len()));
        }
        starts.push(m.offset);
    }
    starts.push(file_len as u64);
    let total = walk.total;
    let mut ops = Vec::new();
    // deterministic preamble (every seed carries these witnesses): seek to the start of every member (the first dozen;
    // empty members and EOF markers included) and to the end of the file, each followed by a small read
    for &st in starts.iter().take(12).chain(starts.last()) {
        ops.push(Op::Seek(obgzf::vpos(st, 0)));
        ops.push(Op::Read(5));
    }
    // deterministic witnesses around EMPTY members that are followed by data (EOF markers of concatenated files, flushes of
    // nothing, runs of empty members): poll_seek / csi Query to the empty member itself (the position a writer reports at
    // the end of the part before it) and to the member behind it, then reads that show the positions of the following members
    let ms = &walk.members;
    let later = |i: usize, rng: &mut Rng| -> u64 {
        // a chunk end two..four members on: a member start or a position inside a non-empty member
        let j = (i + 2 + rng.usize_below(3)).min(ms.len() - 1);
        if ms[j].data.is_empty() || rng.bool() { obgzf::vpos(ms[j].offset, 0) } else { obgzf::vpos(ms[j].offset, rng.usize_below(ms[j].data.len()) as u16) }
    };
    let empties: Vec<usize> = (0..ms.len()).filter(|&i| ms[i].data.is_empty() && ms[i + 1..].iter().any(|m| !m.data.is_empty())).collect();
    for &i in empties.iter().take(6) {
        let at = obgzf::vpos(ms[i].offset, 0);
        ops.push(Op::PollSeek(at));
        ops.push(Op::FillConsume(3));
        ops.push(Op::FillConsume(usize::MAX));
        ops.push(Op::FillConsume(usize::MAX));
        ops.push(Op::Query(vec![(at, later(i, rng))]));
        ops.push(Op::Read(7));
        if i + 1 < ms.len() {
            let behind = obgzf::vpos(ms[i + 1].offset, 0);
            ops.push(Op::PollSeek(behind));
            ops.push(Op::FillConsume(usize::MAX));
            ops.push(Op::FillConsume(1));
            ops.push(Op::Query(vec![(behind, later(i + 1, rng)), (at, later(i, rng))]));
        }
        if i > 0 {
            // a chunk that ENDS at the empty member and one that starts there
            let before = obgzf::vpos(ms[i - 1].offset, 0);
            ops.push(Op::Query(vec![(before, at), (at, later(i, rng))]));
        }
    }
    for _ in 0..n_ops {
        let op = match rng.below(18) {
            14..=15 => Op::PollSeek(match rng.below(3) {
                0 if !inside.is_empty() => {
                    let (off, len) = *rng.pick(&inside);
                    obgzf::vpos(off, rng.usize_below(len) as u16)
                }
                _ => obgzf::vpos(*rng.pick(&starts), 0),
            }),
            16..=17 if ms.len() >= 2 => {
                let mut c = Vec::new();
                let mut i = rng.usize_below(ms.len());
                for _ in 0..rng.urange(1, 3) {
                    let s = if ms[i].data.is_empty() || rng.bool() { obgzf::vpos(ms[i].offset, 0) } else { obgzf::vpos(ms[i].offset, rng.usize_below(ms[i].data.len()) as u16) };
                    let e = later(i.min(ms.len() - 1), rng).max(s);
                    c.push((s, e));
                    i = (i + 1 + rng.usize_below(4)).min(ms.len() - 1);
                }
                Op::Query(c)
            }
            16..=17 => Op::Read(3),
            0..=3 => Op::Read(*rng.pick(&[0usize, 1, 2, 7, 100, 4000, 65535, 65536, 70000, 131072])),
            4..=5 => Op::ReadExact(*rng.pick(&[0usize, 1, 3, 50, 3000, 65536, 100000])),
            6..=7 => Op::FillConsume(*rng.pick(&[0usize, 1, 10, 5000, 70000])),
            8..=9 if !inside.is_empty() => {
                let (off, len) = *rng.pick(&inside);
                let u = match rng.below(4) {
                    0 => 0,
                    1 => len - 1,
                    _ => rng.usize_below(len),
                };
                Op::Seek(obgzf::vpos(off, u as u16))
            }
            10 => Op::Seek(obgzf::vpos(*rng.pick(&starts), 0)),
            11..=12 => Op::SeekU(if total == 0 { 0 } else { rng.below(total + 1) }),
            8..=9 => Op::Read(10),
            _ => Op::ReadToEnd,
        };
        ops.push(op);
    }
    ops.push(Op::ReadToEnd);
    // seek to the end-of-data position (as reported after reading everything), then read: EOF on both
    ops.push(Op::Seek(obgzf::vpos(file_len as u64, 0)));
    ops.push(Op::Read(100));
    if !inside.is_empty() {
        let (off, len) = *rng.pick(&inside);
        ops.push(Op::Seek(obgzf::vpos(off, rng.usize_below(len) as u16)));
        ops.push(Op::ReadToEnd);
    }
    ops
}

pub fn gzi_of(walk: &obgzf::Walk) -> gzi::Index {
    let pairs: Vec<(u64, u64)> = walk.members.iter().zip(&walk.starts).skip(1).map(|(m, s)| (m.offset, *s)).collect();
    gzi::Index::from(pairs)
}

/// Class of the difference between two observations of the same operation (None = equal).
pub fn obs_diff(e: Option<&Obs>, g: Option<&Obs>) -> Option<&'static str> {
    match (e, g) {
        (Some(e), Some(g)) if e == g => None,
        (Some(e), Some(g)) if e.result != g.result => Some("result-kind"),
        (Some(e), Some(g)) if e.len != g.len => Some("byte-count"),
        (Some(e), Some(g)) if e.hash != g.hash => Some("bytes"),
        (Some(e), Some(g)) if e.ret != g.ret => Some("returned-position"),
        (Some(e), Some(g)) if e.vpos != g.vpos => Some("virtual-position"),
        (None, None) => None,
        _ => Some("history-length"),
    }
}
