//! H1 hook state for the async sites (`AsyncInflateTaskStart/End`, `AsyncDeflateTaskStart/End`): a delay plan keyed by
//! block content hash, an event log and the completion-order analysis (same design as c03).

use std::{
    collections::{HashMap, VecDeque},
    sync::{Mutex, OnceLock},
    time::Duration,
};

use noodles_bgzf::verif::Site;
use vcore::{Rng, rng::fnv1a};

#[derive(Clone, Copy, Debug)]
pub struct Event {
    pub site: Site,
    /// index of the block in submission / file order (usize::MAX = block not registered for this case)
    pub block: usize,
    /// log index of the start event of the same task (a task runs start..end on one blocking thread)
    pub start_seq: usize,
}

thread_local! {
    static CURRENT_START: std::cell::Cell<usize> = const { std::cell::Cell::new(usize::MAX) };
}

#[derive(Default)]
struct HookState {
    by_hash_start: HashMap<u64, VecDeque<usize>>,
    by_hash_end: HashMap<u64, VecDeque<usize>>,
    /// (delay before the task body, delay after it) per block index, microseconds
    delays: Vec<(u64, u64)>,
    log: Vec<Event>,
}

fn state() -> &'static Mutex<HookState> {
    static S: OnceLock<Mutex<HookState>> = OnceLock::new();
    S.get_or_init(|| Mutex::new(HookState::default()))
}


fn is_start(site: Site) -> bool {
    matches!(site, Site::AsyncDeflateTaskStart | Site::AsyncInflateTaskStart)
}

fn is_end(site: Site) -> bool {
    matches!(site, Site::AsyncDeflateTaskEnd | Site::AsyncInflateTaskEnd)
}

pub fn hook(site: Site, data: &[u8]) {
    if !is_start(site) && !is_end(site) {
        return;
    }
    let h = fnv1a(data);
    if is_start(site) {
        let delay = {
            let mut s = state().lock().unwrap();
            let block = rotate(s.by_hash_start.get_mut(&h));
            let delay = s.delays.get(block).map(|d| d.0).unwrap_or(0);
            let seq = s.log.len();
            CURRENT_START.with(|c| c.set(seq));
            s.log.push(Event { site, block, start_seq: seq });
            delay
        };
        if delay > 0 {
            std::thread::sleep(Duration::from_micros(delay));
        }
    } else {
        // the end event is logged AFTER the delay: the log order is the real completion order
        let (block, delay) = {
            let mut s = state().lock().unwrap();
            let block = rotate(s.by_hash_end.get_mut(&h));
            let delay = s.delays.get(block).map(|d| d.1).unwrap_or(0);
            (block, delay)
        };
        if delay > 0 {
            std::thread::sleep(Duration::from_micros(delay));
        }
        let start_seq = CURRENT_START.with(|c| c.replace(usize::MAX));
        state().lock().unwrap().log.push(Event { site, block, start_seq });
    }
}

/// Identical blocks are interchangeable: their indices are handed out round-robin (a reader also inflates the same
/// frame again after a seek).
fn rotate(q: Option<&mut VecDeque<usize>>) -> usize {
    match q {
        Some(q) => match q.pop_front() {
            Some(b) => {
                q.push_back(b);
                b
            }
            None => usize::MAX,
        },
        None => usize::MAX,
    }
}

pub fn arm(blocks: &[Vec<u8>], delays: Vec<(u64, u64)>) {
    let mut s = state().lock().unwrap();
    s.by_hash_start.clear();
    s.by_hash_end.clear();
    for (i, b) in blocks.iter().enumerate() {
        let h = fnv1a(b);
        s.by_hash_start.entry(h).or_default().push_back(i);
        s.by_hash_end.entry(h).or_default().push_back(i);
    }
    s.delays = delays;
    s.log.clear();
}

pub fn disarm() -> Vec<Event> {
    let mut s = state().lock().unwrap();
    s.by_hash_start.clear();
    s.by_hash_end.clear();
    s.delays.clear();
    std::mem::take(&mut s.log)
}

#[derive(Default, Debug, Clone)]
pub struct OrderStats {
    pub tasks: u64,
    /// adjacent pairs of completions in which the later-started task completed first
    pub inversions: u64,
    pub max_displacement: u64,
    pub max_in_flight: u64,
    pub order_hash: u64,
    pub unknown_blocks: u64,
}

/// `inflate` selects the inflate (true) or deflate (false) events of the log.
pub fn analyse(log: &[Event], inflate: bool) -> OrderStats {
    let mut st = OrderStats::default();
    let mut in_flight = 0i64;
    let mut ends = Vec::new();
    let mut blocks_in_end_order = Vec::new();
    for e in log {
        let (s, en) = if inflate { (Site::AsyncInflateTaskStart, Site::AsyncInflateTaskEnd) } else { (Site::AsyncDeflateTaskStart, Site::AsyncDeflateTaskEnd) };
        if e.site == s {
            in_flight += 1;
            st.max_in_flight = st.max_in_flight.max(in_flight as u64);
        } else if e.site == en {
            in_flight -= 1;
            if e.block == usize::MAX {
                st.unknown_blocks += 1;
            }
            if e.start_seq != usize::MAX {
                ends.push(e.start_seq);
                blocks_in_end_order.push(e.block);
            }
        }
    }
    st.tasks = ends.len() as u64;
    for w in ends.windows(2) {
        if w[0] > w[1] {
            st.inversions += 1;
        }
    }
    let mut sorted = ends.clone();
    sorted.sort_unstable();
    for (rank, s) in ends.iter().enumerate() {
        let started_rank = sorted.binary_search(s).unwrap();
        st.max_displacement = st.max_displacement.max((rank as i64 - started_rank as i64).unsigned_abs());
    }
    let bytes: Vec<u8> = blocks_in_end_order.iter().flat_map(|b| (*b as u32).to_le_bytes()).collect();
    st.order_hash = fnv1a(&bytes);
    st
}

pub fn make_delays(plan: &str, n: usize, window: usize, rng: &mut Rng) -> Vec<(u64, u64)> {
    let w = window.max(2);
    let unit = 300u64; // microseconds
    (0..n)
        .map(|i| match plan {
            "none" => (0, 0),
            // within each window the first block is the slowest: completion order reverses
            "reverse" => (((w - i % w) as u64) * unit, 0),
            "random" => (rng.below(6) * unit, rng.below(3) * unit),
            "one_slow" => (if i == n / 3 { 8_000 } else { 0 }, 0),
            "end_heavy" => (0, ((w - i % w) as u64) * unit),
            // every job is slow: the next block is never ready when it is asked for
            "all_slow" => (2 * unit, 0),
            _ => (0, 0),
        })
        .collect()
}
