//! Transcript drivers: one canonical reading per (kind, variant) from any byte source.
//!
//! All drivers take `&mut dyn Read` / `&mut dyn BufRead` (compiled once; the public generic entry points in
//! lib.rs are thin). None of them catches panics.

use std::{
    cell::RefCell,
    io::{self, BufRead, Read},
};

use noodles_bam as bam;
use noodles_bcf as bcf;
use noodles_bed as bed;
use noodles_bgzf as bgzf;
use noodles_cram as cram;
use noodles_csi as csi;
use noodles_fasta as fasta;
use noodles_fastq as fastq;
use noodles_gff as gff;
use noodles_gtf as gtf;
use noodles_sam as sam;
use noodles_tabix as tabix;
use noodles_vcf as vcf;

use crate::{
    Kind, Side, Variant,
    render::{self, Deep, esc},
};

thread_local! {
    static LAST_ERROR: RefCell<Option<String>> = const { RefCell::new(None) };
}

/// Display text of the error behind the last "ERR:<kind>" element produced on this thread (diagnostics only;
/// not part of the transcript).
pub fn last_error_message() -> Option<String> {
    LAST_ERROR.with(|c| c.borrow().clone())
}

pub(crate) struct T {
    out: Vec<String>,
}

impl T {
    fn new() -> Self {
        LAST_ERROR.with(|c| *c.borrow_mut() = None);
        T { out: Vec::new() }
    }
    fn push(&mut self, s: String) {
        self.out.push(s);
    }
    fn end(mut self) -> Vec<String> {
        self.out.push("END".into());
        self.out
    }
    fn err(mut self, e: &io::Error) -> Vec<String> {
        LAST_ERROR.with(|c| *c.borrow_mut() = Some(e.to_string()));
        self.out.push(format!("ERR:{:?}", e.kind()));
        self.out
    }
    fn deep(&mut self, d: Deep) {
        d.finish(&mut self.out);
    }
}

/// One call of the canonical BGZF read pattern: `Read(n)` = `read` into an `n`-byte buffer (n ≥ 65536 takes the
/// reader's direct-to-caller path when a block boundary has been reached), `FillConsume(n)` = `fill_buf` +
/// `consume(min(n, window))`.
#[derive(Clone, Copy, Debug, PartialEq, Eq)]
pub enum BgzfReadOp {
    Read(usize),
    FillConsume(usize),
}

/// The pattern the `Kind::Bgzf` driver cycles through (public so that an async twin can issue the same calls).
pub const BGZF_READ_PATTERN: &[BgzfReadOp] = &[
    BgzfReadOp::Read(1),
    BgzfReadOp::Read(2),
    BgzfReadOp::Read(7),
    BgzfReadOp::FillConsume(5),
    BgzfReadOp::Read(64),
    BgzfReadOp::Read(300),
    BgzfReadOp::FillConsume(usize::MAX),
    BgzfReadOp::Read(4096),
    BgzfReadOp::Read(65536),
    BgzfReadOp::Read(13),
    BgzfReadOp::Read(70000),
    BgzfReadOp::FillConsume(1),
    BgzfReadOp::Read(5),
    BgzfReadOp::Read(65536),
];

/// Running digest behind the `D:` elements.
#[derive(Clone, Debug)]
pub struct ByteDigest {
    h: u64,
    total: u64,
}

impl Default for ByteDigest {
    fn default() -> Self {
        ByteDigest { h: 0xcbf2_9ce4_8422_2325, total: 0 }
    }
}

impl ByteDigest {
    pub fn update(&mut self, bytes: &[u8]) {
        for &b in bytes {
            self.h ^= b as u64;
            self.h = self.h.wrapping_mul(0x0000_0100_0000_01B3);
        }
        self.total += bytes.len() as u64;
    }

    pub fn element(&self) -> String {
        format!("D:{:016x}:{}", self.h, self.total)
    }
}

/// Upper bound on consecutive `Interrupted` results the Bgzf driver retries (the `Read` contract says
/// "retry"; vcore's adversary delivers at most one per source offset).
const MAX_INTERRUPT_RETRIES: usize = 4096;

pub(crate) fn drive(kind: Kind, variant: Variant, src: Src<'_>, side: &Side, deep: bool) -> Vec<String> {
    match (kind, src) {
        (Kind::Bgzf, s) => drive_bgzf(s.read()),
        (Kind::Bam, s) => {
            let mut r = bam::io::Reader::new(s.read());
            drive_bam(&mut r, |r| Some(u64::from(r.get_ref().virtual_position())), variant, deep)
        }
        (Kind::BamRaw, s) => {
            let mut r = bam::io::Reader::from(s.read());
            drive_bam(&mut r, |_| None, variant, deep)
        }
        (Kind::Bcf, s) => {
            let mut r = bcf::io::Reader::new(s.read());
            drive_bcf(&mut r, |r| Some(u64::from(r.get_ref().virtual_position())), variant, deep)
        }
        (Kind::BcfRaw, s) => {
            let mut r = bcf::io::Reader::from(s.read());
            drive_bcf(&mut r, |_| None, variant, deep)
        }
        (Kind::Cram, s) => drive_cram(s.read(), side, variant, deep),
        (Kind::Sam, s) => s.with_bufread(|b| {
            let mut r = sam::io::Reader::new(b);
            drive_sam(&mut r, |_| None, variant, deep)
        }),
        (Kind::SamGz, s) => {
            let mut r = sam::io::Reader::new(bgzf::io::Reader::new(s.read()));
            drive_sam(&mut r, |r| Some(u64::from(r.get_ref().virtual_position())), variant, deep)
        }
        (Kind::Vcf, s) => s.with_bufread(|b| {
            let mut r = vcf::io::Reader::new(b);
            drive_vcf(&mut r, |_| None, variant, deep)
        }),
        (Kind::VcfGz, s) => {
            let mut r = vcf::io::Reader::new(bgzf::io::Reader::new(s.read()));
            drive_vcf(&mut r, |r| Some(u64::from(r.get_ref().virtual_position())), variant, deep)
        }
        (Kind::Fasta, s) => s.with_bufread(|b| match variant {
            Variant::Indexer => drive_fasta_indexer(b),
            Variant::Eager => drive_fasta_records(b),
            Variant::Primary => drive_fasta(b),
        }),
        (Kind::Fastq, s) => s.with_bufread(|b| match variant {
            Variant::Indexer => drive_fastq_indexer(b),
            Variant::Eager => drive_fastq_records(b),
            Variant::Primary => drive_fastq(b),
        }),
        (Kind::Gff, s) => s.with_bufread(|b| drive_gff(b, variant, deep)),
        (Kind::Gtf, s) => s.with_bufread(|b| drive_gtf(b, variant, deep)),
        (Kind::Bed, s) => s.with_bufread(|b| match side.bed_n {
            4 => drive_bed4(b, deep),
            5 => drive_bed5(b, deep),
            6 => drive_bed6(b, deep),
            _ => drive_bed3(b, deep),
        }),
        (Kind::Bai, s) => index_result(bam::bai::io::Reader::new(s.read()).read_index()),
        (Kind::Csi, s) => index_result(csi::io::Reader::new(s.read()).read_index()),
        (Kind::Tbi, s) => index_result(tabix::io::Reader::new(s.read()).read_index()),
        (Kind::Gzi, s) => index_result(bgzf::gzi::io::Reader::new(s.read()).read_index()),
        (Kind::Fai, s) => s.with_bufread(|b| index_result(fasta::fai::io::Reader::new(b).read_index())),
        (Kind::FastqFai, s) => s.with_bufread(drive_fastq_fai),
        (Kind::Crai, s) => match variant {
            // record-wise is the primary reading: `read_index()` fails on every index with more than one
            // record on the pinned tree (its line buffer is never cleared)
            Variant::Eager => index_result(cram::crai::io::Reader::new(s.read()).read_index()),
            _ => drive_crai_records(s.read()),
        },
    }
}

/// The byte source as handed in by the public entry points.
pub(crate) enum Src<'a> {
    /// a plain `Read`; `cap` = capacity of the `std::io::BufReader` put around it for BufRead-based readers
    Read(&'a mut dyn Read, usize),
    /// a `BufRead` used as is by BufRead-based readers (and as a plain `Read` by the others)
    BufRead(&'a mut dyn BufRead),
}

struct AsRead<'a>(&'a mut dyn BufRead);
impl Read for AsRead<'_> {
    fn read(&mut self, buf: &mut [u8]) -> io::Result<usize> {
        self.0.read(buf)
    }
}

impl<'a> Src<'a> {
    fn read(self) -> Box<dyn Read + 'a> {
        match self {
            Src::Read(r, _) => Box::new(r),
            Src::BufRead(b) => Box::new(AsRead(b)),
        }
    }

    fn with_bufread<T>(self, f: impl FnOnce(&mut dyn BufRead) -> T) -> T {
        match self {
            Src::Read(r, cap) => {
                let mut b = io::BufReader::with_capacity(cap.max(1), r);
                f(&mut b)
            }
            Src::BufRead(b) => f(b),
        }
    }
}

fn index_result<I: std::fmt::Debug>(r: io::Result<I>) -> Vec<String> {
    let mut t = T::new();
    match r {
        Ok(index) => {
            t.push(format!("I:{index:?}"));
            t.end()
        }
        Err(e) => t.err(&e),
    }
}

// ------------------------------------------------------------------------------------------------

fn drive_bgzf(src: Box<dyn Read + '_>) -> Vec<String> {
    let mut t = T::new();
    let mut r = bgzf::io::Reader::new(src);
    let mut digest = ByteDigest::default();
    let mut buf = vec![0u8; 70000];
    let mut i = 0usize;
    let mut retries = 0usize;
    loop {
        let op = BGZF_READ_PATTERN[i % BGZF_READ_PATTERN.len()];
        let res: io::Result<usize> = match op {
            BgzfReadOp::Read(n) => r.read(&mut buf[..n]),
            BgzfReadOp::FillConsume(n) => match r.fill_buf() {
                Ok(w) => {
                    let k = w.len().min(n);
                    buf[..k].copy_from_slice(&w[..k]);
                    r.consume(k);
                    Ok(k)
                }
                Err(e) => Err(e),
            },
        };
        match res {
            Ok(0) => return t.end(),
            Ok(n) => {
                retries = 0;
                i += 1;
                digest.update(&buf[..n]);
                t.push(digest.element());
                t.push(format!("V:{}", u64::from(r.virtual_position())));
            }
            Err(e) if e.kind() == io::ErrorKind::Interrupted && retries < MAX_INTERRUPT_RETRIES => {
                retries += 1;
            }
            Err(e) => return t.err(&e),
        }
    }
}

fn drive_bam<R: Read>(
    r: &mut bam::io::Reader<R>,
    vpos: impl Fn(&bam::io::Reader<R>) -> Option<u64>,
    variant: Variant,
    deep: bool,
) -> Vec<String> {
    let mut t = T::new();
    let header = match r.read_header() {
        Ok(h) => h,
        Err(e) => return t.err(&e),
    };
    t.push(format!("H:{}", render::sam_header(&header)));
    if let Some(v) = vpos(r) {
        t.push(format!("V:{v}"));
    }
    let mut lazy = bam::Record::default();
    let mut eager = sam::alignment::RecordBuf::default();
    loop {
        let res = match variant {
            Variant::Eager => r.read_record_buf(&header, &mut eager),
            _ => r.read_record(&mut lazy),
        };
        match res {
            Ok(0) => return t.end(),
            Ok(_) => {
                let rec: &dyn sam::alignment::Record = match variant {
                    Variant::Eager => &eager,
                    _ => &lazy,
                };
                t.push(format!("R:{}", render::alignment_record(&header, rec)));
                if let Some(v) = vpos(r) {
                    t.push(format!("V:{v}"));
                }
                if deep {
                    let mut d = Deep::default();
                    render::deep_alignment(&mut d, &header, rec);
                    if !matches!(variant, Variant::Eager) {
                        deep_bam_inherent(&mut d, &lazy);
                    }
                    t.deep(d);
                }
            }
            Err(e) => return t.err(&e),
        }
    }
}

fn deep_bam_inherent(d: &mut Deep, rec: &bam::Record) {
    use std::fmt::Write as _;
    let _ = write!(d.digest, "dbg={rec:?};");
    let _ = write!(d.digest, "cigar.bytes={};", esc(rec.cigar().as_bytes()));
    let seq = rec.sequence();
    let _ = write!(d.digest, "seq.bytes={};", esc(seq.as_bytes()));
    let n = seq.len();
    for mid in [0, 1, n / 2, n, n + 1] {
        let _ = write!(d.digest, "split{mid}={:?};", seq.split_at_checked(mid).map(|(a, b)| (a.iter().count(), b.iter().count())));
    }
    let _ = write!(d.digest, "qual.bytes={};", esc(rec.quality_scores().as_bytes()));
    let _ = write!(d.digest, "data.bytes={};", esc(rec.data().as_bytes()));
    let _ = write!(
        d.digest,
        "inh={:?},{:?},{:?},{:?},{:?},{:?},{:?};",
        rec.reference_sequence_id().map(|r| r.map_err(|e| e.kind())),
        rec.alignment_start().map(|r| r.map_err(|e| e.kind())),
        rec.mapping_quality(),
        rec.flags(),
        rec.mate_reference_sequence_id().map(|r| r.map_err(|e| e.kind())),
        rec.mate_alignment_start().map(|r| r.map_err(|e| e.kind())),
        rec.template_length(),
    );
}

fn drive_sam<R: BufRead>(
    r: &mut sam::io::Reader<R>,
    vpos: impl Fn(&sam::io::Reader<R>) -> Option<u64>,
    variant: Variant,
    deep: bool,
) -> Vec<String> {
    let mut t = T::new();
    let header = match r.read_header() {
        Ok(h) => h,
        Err(e) => return t.err(&e),
    };
    t.push(format!("H:{}", render::sam_header(&header)));
    if let Some(v) = vpos(r) {
        t.push(format!("V:{v}"));
    }
    let mut lazy = sam::Record::default();
    let mut eager = sam::alignment::RecordBuf::default();
    loop {
        let res = match variant {
            Variant::Eager => r.read_record_buf(&header, &mut eager),
            _ => r.read_record(&mut lazy),
        };
        match res {
            Ok(0) => return t.end(),
            Ok(_) => {
                let rec: &dyn sam::alignment::Record = match variant {
                    Variant::Eager => &eager,
                    _ => &lazy,
                };
                t.push(format!("R:{}", render::alignment_record(&header, rec)));
                if let Some(v) = vpos(r) {
                    t.push(format!("V:{v}"));
                }
                if deep {
                    use std::fmt::Write as _;
                    let mut d = Deep::default();
                    render::deep_alignment(&mut d, &header, rec);
                    if !matches!(variant, Variant::Eager) {
                        let _ = write!(d.digest, "dbg={lazy:?};");
                        let _ = write!(
                            d.digest,
                            "inh={:?},{:?},{},{},{},{};",
                            lazy.reference_sequence_name(),
                            lazy.mate_reference_sequence_name(),
                            esc(lazy.cigar().as_ref()),
                            esc(lazy.sequence().as_ref()),
                            esc(lazy.quality_scores().as_ref()),
                            esc(lazy.data().as_ref()),
                        );
                    }
                    t.deep(d);
                }
            }
            Err(e) => return t.err(&e),
        }
    }
}

fn drive_vcf<R: BufRead>(
    r: &mut vcf::io::Reader<R>,
    vpos: impl Fn(&vcf::io::Reader<R>) -> Option<u64>,
    variant: Variant,
    deep: bool,
) -> Vec<String> {
    let mut t = T::new();
    let header = match r.read_header() {
        Ok(h) => h,
        Err(e) => return t.err(&e),
    };
    t.push(format!("H:{}", render::vcf_header(&header)));
    if let Some(v) = vpos(r) {
        t.push(format!("V:{v}"));
    }
    let mut lazy = vcf::Record::default();
    let mut eager = vcf::variant::RecordBuf::default();
    loop {
        let res = match variant {
            Variant::Eager => r.read_record_buf(&header, &mut eager),
            _ => r.read_record(&mut lazy),
        };
        match res {
            Ok(0) => return t.end(),
            Ok(_) => {
                let rec: &dyn vcf::variant::Record = match variant {
                    Variant::Eager => &eager,
                    _ => &lazy,
                };
                t.push(format!("R:{}", render::variant_record(&header, rec)));
                if let Some(v) = vpos(r) {
                    t.push(format!("V:{v}"));
                }
                if deep {
                    use std::fmt::Write as _;
                    let mut d = Deep::default();
                    render::deep_variant(&mut d, &header, rec);
                    if !matches!(variant, Variant::Eager) {
                        let _ = write!(d.digest, "dbg={lazy:?};");
                        let _ = write!(
                            d.digest,
                            "inh={:?},{:?},{:?},{:?},{:?},{:?},{:?},{:?};",
                            lazy.reference_sequence_name(),
                            lazy.variant_start().map(|r| r.map_err(|e| e.kind())),
                            lazy.ids(),
                            lazy.reference_bases(),
                            lazy.alternate_bases(),
                            lazy.quality_score().map(|r| r.map(f32::to_bits).map_err(|e| e.kind())),
                            lazy.filters(),
                            lazy.info(),
                        );
                        let _ = write!(d.digest, "samples={:?};", lazy.samples());
                    }
                    t.deep(d);
                }
            }
            Err(e) => return t.err(&e),
        }
    }
}

fn drive_bcf<R: Read>(
    r: &mut bcf::io::Reader<R>,
    vpos: impl Fn(&bcf::io::Reader<R>) -> Option<u64>,
    variant: Variant,
    deep: bool,
) -> Vec<String> {
    let mut t = T::new();
    let header = match r.read_header() {
        Ok(h) => h,
        Err(e) => return t.err(&e),
    };
    t.push(format!("H:{}", render::vcf_header(&header)));
    if let Some(v) = vpos(r) {
        t.push(format!("V:{v}"));
    }
    let mut lazy = bcf::Record::default();
    let mut eager = vcf::variant::RecordBuf::default();
    loop {
        let res = match variant {
            Variant::Eager => r.read_record_buf(&header, &mut eager),
            _ => r.read_record(&mut lazy),
        };
        match res {
            Ok(0) => return t.end(),
            Ok(_) => {
                let rec: &dyn vcf::variant::Record = match variant {
                    Variant::Eager => &eager,
                    _ => &lazy,
                };
                t.push(format!("R:{}", render::variant_record(&header, rec)));
                if let Some(v) = vpos(r) {
                    t.push(format!("V:{v}"));
                }
                if deep {
                    use std::fmt::Write as _;
                    let mut d = Deep::default();
                    render::deep_variant(&mut d, &header, rec);
                    if !matches!(variant, Variant::Eager) {
                        let _ = write!(d.digest, "dbg={lazy:?};");
                        let _ = write!(
                            d.digest,
                            "inh={:?},{:?},{:?},{:?},{:?};",
                            lazy.reference_sequence_id().map_err(|e| e.kind()),
                            lazy.reference_sequence_name(header.string_maps()).map_err(|e| e.kind()),
                            lazy.variant_start().map(|r| r.map_err(|e| e.kind())),
                            lazy.end().map_err(|e| e.kind()),
                            lazy.quality_score().map(|o| o.map(f32::to_bits)).map_err(|e| e.kind()),
                        );
                        let _ = write!(
                            d.digest,
                            "inh2={:?},{:?},{:?},{:?},{:?};",
                            lazy.ids(),
                            lazy.reference_bases(),
                            lazy.alternate_bases(),
                            lazy.filters(),
                            lazy.info(),
                        );
                        match lazy.samples() {
                            Ok(s) => {
                                let _ = write!(d.digest, "samples={s:?};");
                            }
                            Err(e) => {
                                let _ = write!(d.digest, "samples=!{:?};", e.kind());
                            }
                        }
                    }
                    t.deep(d);
                }
            }
            Err(e) => return t.err(&e),
        }
    }
}

pub(crate) fn repository(side: &Side) -> io::Result<fasta::Repository> {
    match &side.reference_fasta {
        None => Ok(fasta::Repository::default()),
        Some(text) => {
            let mut r = fasta::io::Reader::new(&text[..]);
            let records: Vec<fasta::Record> = r.records().collect::<io::Result<_>>()?;
            Ok(fasta::Repository::new(records))
        }
    }
}

fn drive_cram(src: Box<dyn Read + '_>, side: &Side, variant: Variant, deep: bool) -> Vec<String> {
    let mut t = T::new();
    let repo = match repository(side) {
        Ok(r) => r,
        Err(e) => return t.err(&e),
    };
    let mut r = cram::io::reader::Builder::default().set_reference_sequence_repository(repo.clone()).build_from_reader(src);
    let header = match r.read_header() {
        Ok(h) => h,
        Err(e) => return t.err(&e),
    };
    t.push(format!("H:{}", render::sam_header(&header)));
    match variant {
        Variant::Eager => {
            // the `records()` iterator (whole containers are decoded before the first record comes out)
            for res in r.records(&header) {
                match res {
                    Ok(rec) => {
                        t.push(format!("R:{}", render::alignment_record(&header, &rec)));
                        if deep {
                            let mut d = Deep::default();
                            render::deep_alignment(&mut d, &header, &rec);
                            t.deep(d);
                        }
                    }
                    Err(e) => return t.err(&e),
                }
            }
            t.end()
        }
        _ => {
            // container by container, slice by slice
            let mut container = cram::io::reader::Container::default();
            loop {
                match r.read_container(&mut container) {
                    Ok(0) => return t.end(),
                    Ok(n) => {
                        t.push(render::cram_container(n, &container));
                        let ch = match container.compression_header() {
                            Ok(c) => c,
                            Err(e) => return t.err(&e),
                        };
                        for slice in container.slices() {
                            let slice = match slice {
                                Ok(s) => s,
                                Err(e) => return t.err(&e),
                            };
                            let (core, ext) = match slice.decode_blocks() {
                                Ok(x) => x,
                                Err(e) => return t.err(&e),
                            };
                            let records = match slice.records(repo.clone(), &header, &ch, &core, &ext) {
                                Ok(x) => x,
                                Err(e) => return t.err(&e),
                            };
                            for rec in &records {
                                t.push(format!("R:{}", render::alignment_record(&header, rec)));
                                if deep {
                                    use std::fmt::Write as _;
                                    let mut d = Deep::default();
                                    render::deep_alignment(&mut d, &header, rec);
                                    // Debug of a cram::Record prints the whole header and reference; only
                                    // its length and hash are kept
                                    let dbg = format!("{rec:?}");
                                    let _ = write!(d.digest, "dbg={:016x}:{};", vcore::rng::fnv1a(dbg.as_bytes()), dbg.len());
                                    t.deep(d);
                                }
                            }
                        }
                    }
                    Err(e) => return t.err(&e),
                }
            }
        }
    }
}

// ------------------------------------------------------------------------------------------------
// FASTA / FASTQ

fn drive_fasta(b: &mut dyn BufRead) -> Vec<String> {
    let mut t = T::new();
    let mut r = fasta::io::Reader::new(b);
    let mut def = fasta::record::Definition::default();
    let mut seq = Vec::new();
    loop {
        match r.read_definition(&mut def) {
            Ok(0) => return t.end(),
            Ok(_) => {}
            Err(e) => return t.err(&e),
        }
        seq.clear();
        match r.read_sequence(&mut seq) {
            Ok(_) => t.push(render::fasta_element(def.name(), def.description().map(|d| -> &[u8] { d.as_ref() }), &seq)),
            Err(e) => return t.err(&e),
        }
    }
}

fn drive_fasta_records(b: &mut dyn BufRead) -> Vec<String> {
    let mut t = T::new();
    let mut r = fasta::io::Reader::new(b);
    for res in r.records() {
        match res {
            Ok(rec) => t.push(render::fasta_element(rec.name(), rec.description().map(|d| -> &[u8] { d.as_ref() }), rec.sequence().as_ref())),
            Err(e) => return t.err(&e),
        }
    }
    t.end()
}

fn drive_fasta_indexer(b: &mut dyn BufRead) -> Vec<String> {
    let mut t = T::new();
    let mut ix = fasta::io::Indexer::new(b);
    loop {
        match ix.index_record() {
            Ok(None) => return t.end(),
            Ok(Some(rec)) => t.push(format!("I:{rec:?}")),
            Err(e) => return t.err(&io::Error::from(e)),
        }
    }
}

use render::fastq_element as fastq_record;

fn drive_fastq(b: &mut dyn BufRead) -> Vec<String> {
    let mut t = T::new();
    let mut r = fastq::io::Reader::new(b);
    let mut rec = fastq::Record::default();
    loop {
        match r.read_record(&mut rec) {
            Ok(0) => return t.end(),
            Ok(_) => t.push(fastq_record(&rec)),
            Err(e) => return t.err(&e),
        }
    }
}

fn drive_fastq_records(b: &mut dyn BufRead) -> Vec<String> {
    let mut t = T::new();
    let mut r = fastq::io::Reader::new(b);
    for res in r.records() {
        match res {
            Ok(rec) => t.push(fastq_record(&rec)),
            Err(e) => return t.err(&e),
        }
    }
    t.end()
}

fn drive_fastq_indexer(b: &mut dyn BufRead) -> Vec<String> {
    let mut t = T::new();
    let mut ix = fastq::io::Indexer::new(b);
    loop {
        match ix.index_record() {
            Ok(None) => return t.end(),
            Ok(Some(rec)) => t.push(format!("I:{rec:?}")),
            Err(e) => return t.err(&e),
        }
    }
}

fn drive_fastq_fai(b: &mut dyn BufRead) -> Vec<String> {
    let mut t = T::new();
    let mut r = fastq::fai::io::Reader::new(b);
    let mut line = String::new();
    loop {
        line.clear();
        match r.read_record(&mut line) {
            Ok(0) => return t.end(),
            Ok(_) => match line.parse::<fastq::fai::Record>() {
                Ok(rec) => t.push(format!("I:{rec:?}")),
                Err(e) => t.push(format!("I:!parse:{e:?}:{}", esc(line.as_bytes()))),
            },
            Err(e) => return t.err(&e),
        }
    }
}

fn drive_crai_records(src: Box<dyn Read + '_>) -> Vec<String> {
    let mut t = T::new();
    let mut r = cram::crai::io::Reader::new(src);
    let mut rec = cram::crai::Record::default();
    loop {
        match r.read_record(&mut rec) {
            Ok(0) => return t.end(),
            Ok(_) => t.push(format!("I:{rec:?}")),
            Err(e) => return t.err(&e),
        }
    }
}

// ------------------------------------------------------------------------------------------------
// GFF / GTF / BED

fn drive_gff(b: &mut dyn BufRead, variant: Variant, deep: bool) -> Vec<String> {
    let mut t = T::new();
    let mut r = gff::io::Reader::new(b);
    match variant {
        Variant::Eager => {
            for res in r.line_bufs() {
                match res {
                    Ok(line) => t.push(render::gff_line_buf(&line)),
                    Err(e) => return t.err(&e),
                }
            }
            t.end()
        }
        _ => {
            let mut line = gff::Line::default();
            loop {
                match r.read_line(&mut line) {
                    Ok(0) => return t.end(),
                    Ok(_) => render::gff_line(&line, deep, &mut t.out),
                    Err(e) => return t.err(&e),
                }
            }
        }
    }
}

fn drive_gtf(b: &mut dyn BufRead, variant: Variant, deep: bool) -> Vec<String> {
    let mut t = T::new();
    let mut r = gtf::io::Reader::new(b);
    match variant {
        Variant::Eager => {
            for res in r.line_bufs() {
                match res {
                    Ok(line) => t.push(render::gtf_line_buf(&line)),
                    Err(e) => return t.err(&e),
                }
            }
            t.end()
        }
        _ => {
            let mut line = gtf::Line::default();
            loop {
                match r.read_line(&mut line) {
                    Ok(0) => return t.end(),
                    Ok(_) => render::gtf_line(&line, deep, &mut t.out),
                    Err(e) => return t.err(&e),
                }
            }
        }
    }
}

macro_rules! bed_driver {
    ($name:ident, $n:literal) => {
        fn $name(b: &mut dyn BufRead, deep: bool) -> Vec<String> {
            let mut t = T::new();
            let mut r = bed::io::Reader::<$n, _>::new(b);
            let mut rec = bed::Record::<$n>::default();
            loop {
                match r.read_record(&mut rec) {
                    Ok(0) => return t.end(),
                    Ok(_) => {
                        let mut w = bed::io::Writer::<$n, _>::new(Vec::new());
                        let s = match w.write_record(&rec) {
                            Ok(()) => render::text(w.into_inner()),
                            Err(e) => render::err_str(&e),
                        };
                        t.push(format!("R:{s}"));
                        if deep {
                            use std::fmt::Write as _;
                            let mut d = Deep::default();
                            render::deep_bed::<$n, _>(&mut d, &rec);
                            let _ = write!(d.digest, "dbg={rec:?};");
                            match bed::feature::RecordBuf::<$n>::try_from_feature_record(&rec) {
                                Ok(buf) => {
                                    let _ = write!(d.digest, "buf={buf:?};");
                                }
                                Err(e) => d.errors.push(format!("A-ERR:to_buf:{:?}", e.kind())),
                            }
                            t.deep(d);
                        }
                    }
                    Err(e) => return t.err(&e),
                }
            }
        }
    };
}

bed_driver!(drive_bed3, 3);
bed_driver!(drive_bed4, 4);
bed_driver!(drive_bed5, 5);
bed_driver!(drive_bed6, 6);
