//! Structural boundaries of corpus files, computed by small walkers written from the format specifications
//! (independent of noodles): BGZF members (via `vcore::bgzf::walk`), CRAM containers and slices, text lines,
//! raw BAM / BCF records, BAI references and bins, GZI entries.

use crate::{Item, Kind};

fn u32le(b: &[u8], p: usize) -> Option<u32> {
    b.get(p..p + 4).map(|s| u32::from_le_bytes([s[0], s[1], s[2], s[3]]))
}

fn i32le(b: &[u8], p: usize) -> Option<i32> {
    u32le(b, p).map(|v| v as i32)
}

fn finish(mut v: Vec<usize>, len: usize) -> Vec<usize> {
    v.push(0);
    v.push(len);
    v.retain(|&x| x <= len);
    v.sort_unstable();
    v.dedup();
    v
}

pub fn line_starts(bytes: &[u8]) -> Vec<usize> {
    let mut v = vec![0usize];
    for (i, &b) in bytes.iter().enumerate() {
        if b == b'\n' && i + 1 < bytes.len() {
            v.push(i + 1);
        }
    }
    v
}

fn bgzf_member_starts(bytes: &[u8]) -> Vec<usize> {
    match vcore::bgzf::walk_prefix(bytes) {
        Ok((w, _)) => w.members.iter().map(|m| m.offset as usize).collect(),
        Err(_) => vec![],
    }
}

/// ITF8 (CRAM 3 §2.3): returns (value, bytes used).
fn itf8(b: &[u8], p: usize) -> Option<(i32, usize)> {
    let b0 = *b.get(p)? as u32;
    let n = if b0 & 0x80 == 0 {
        0
    } else if b0 & 0x40 == 0 {
        1
    } else if b0 & 0x20 == 0 {
        2
    } else if b0 & 0x10 == 0 {
        3
    } else {
        4
    };
    let rest = b.get(p + 1..p + 1 + n)?;
    let v: u32 = match n {
        0 => b0,
        1 => ((b0 & 0x7f) << 8) | rest[0] as u32,
        2 => ((b0 & 0x3f) << 16) | (rest[0] as u32) << 8 | rest[1] as u32,
        3 => ((b0 & 0x1f) << 24) | (rest[0] as u32) << 16 | (rest[1] as u32) << 8 | rest[2] as u32,
        _ => ((b0 & 0x0f) << 28) | (rest[0] as u32) << 20 | (rest[1] as u32) << 12 | (rest[2] as u32) << 4 | (rest[3] as u32 & 0x0f),
    };
    Some((v as i32, n + 1))
}

/// LTF8: only the length is needed.
fn ltf8_len(b: &[u8], p: usize) -> Option<usize> {
    let b0 = *b.get(p)?;
    let n = b0.leading_ones() as usize;
    if p + 1 + n.min(8) > b.len() {
        return None;
    }
    Some(1 + n.min(8))
}

/// CRAM 3.x container starts and slice starts (container data start + landmark).
#[derive(Clone, Debug, Default)]
pub struct CramLayout {
    /// offset of every container header (the header container and the EOF container included)
    pub containers: Vec<usize>,
    /// offset of the first byte after each container header (start of the container's blocks)
    pub bodies: Vec<usize>,
    /// absolute offsets of slice header blocks
    pub slices: Vec<usize>,
    /// number of records per container as stated in the container header
    pub records: Vec<i32>,
    /// offset of the first byte after the last complete container
    pub end: usize,
}

pub fn cram_layout(bytes: &[u8]) -> CramLayout {
    let mut l = CramLayout::default();
    if bytes.len() < 26 || &bytes[..4] != b"CRAM" {
        return l;
    }
    let mut p = 26usize;
    l.end = p;
    while p < bytes.len() {
        let start = p;
        let Some(length) = i32le(bytes, p) else { break };
        if length < 0 {
            break;
        }
        let mut q = p + 4;
        let mut ok = true;
        let mut n_records = 0;
        // reference sequence id, start, span, number of records
        for k in 0..4 {
            match itf8(bytes, q) {
                Some((v, n)) => {
                    if k == 3 {
                        n_records = v;
                    }
                    q += n;
                }
                None => {
                    ok = false;
                    break;
                }
            }
        }
        if !ok {
            break;
        }
        // record counter, bases (LTF8)
        for _ in 0..2 {
            match ltf8_len(bytes, q) {
                Some(n) => q += n,
                None => {
                    ok = false;
                    break;
                }
            }
        }
        if !ok {
            break;
        }
        // number of blocks
        match itf8(bytes, q) {
            Some((_, n)) => q += n,
            None => break,
        }
        // landmarks
        let Some((n_landmarks, n)) = itf8(bytes, q) else { break };
        q += n;
        let mut landmarks = Vec::new();
        for _ in 0..n_landmarks.max(0) {
            match itf8(bytes, q) {
                Some((v, n)) => {
                    landmarks.push(v);
                    q += n;
                }
                None => {
                    ok = false;
                    break;
                }
            }
        }
        if !ok {
            break;
        }
        q += 4; // CRC32
        let body = q;
        let end = body + length as usize;
        if end > bytes.len() {
            break;
        }
        l.containers.push(start);
        l.bodies.push(body);
        l.records.push(n_records);
        // the first container holds the SAM header (its landmark is not a slice)
        if l.containers.len() > 1 {
            for lm in landmarks {
                if lm >= 0 {
                    l.slices.push(body + lm as usize);
                }
            }
        }
        p = end;
        l.end = p;
    }
    l
}

/// Offsets of the records of an uncompressed BAM stream: `[b0, …, bn]`, `b0` = end of the header = start of
/// the first record, `bn` = end of the last complete record. `None` if the header is incomplete / malformed.
pub fn bam_record_offsets(p: &[u8]) -> Option<Vec<usize>> {
    if p.get(..4)? != b"BAM\x01" {
        return None;
    }
    let l_text = u32le(p, 4)? as usize;
    let mut q = 8usize.checked_add(l_text)?;
    let n_ref = u32le(p, q)? as usize;
    q += 4;
    for _ in 0..n_ref {
        let l_name = u32le(p, q)? as usize;
        q = q.checked_add(4)?.checked_add(l_name)?.checked_add(4)?;
        if q > p.len() {
            return None;
        }
    }
    let mut v = vec![q];
    loop {
        let Some(bs) = u32le(p, q) else { break };
        let end = q + 4 + bs as usize;
        if end > p.len() {
            break;
        }
        q = end;
        v.push(q);
    }
    Some(v)
}

/// Same for an uncompressed BCF 2.x stream.
pub fn bcf_record_offsets(p: &[u8]) -> Option<Vec<usize>> {
    if p.get(..3)? != b"BCF" {
        return None;
    }
    let l_text = u32le(p, 5)? as usize;
    let mut q = 9usize.checked_add(l_text)?;
    if q > p.len() {
        return None;
    }
    let mut v = vec![q];
    loop {
        let (Some(ls), Some(li)) = (u32le(p, q), u32le(p, q + 4)) else { break };
        let end = q + 8 + ls as usize + li as usize;
        if end > p.len() {
            break;
        }
        q = end;
        v.push(q);
    }
    Some(v)
}

fn bai_boundaries(b: &[u8]) -> Vec<usize> {
    let mut v = vec![];
    if b.get(..4) != Some(b"BAI\x01") {
        return v;
    }
    let Some(n_ref) = u32le(b, 4) else { return v };
    let mut q = 8usize;
    for _ in 0..n_ref {
        v.push(q);
        let Some(n_bin) = u32le(b, q) else { return v };
        q += 4;
        for _ in 0..n_bin {
            v.push(q);
            let Some(n_chunk) = u32le(b, q + 4) else { return v };
            q += 8 + 16 * n_chunk as usize;
        }
        let Some(n_intv) = u32le(b, q) else { return v };
        v.push(q);
        q += 4 + 8 * n_intv as usize;
    }
    v.push(q); // n_no_coor (optional)
    v
}

/// See `crate::boundaries`.
pub fn boundaries(item: &Item) -> Vec<usize> {
    let b = &item.bytes[..];
    let v = match item.kind {
        Kind::Bgzf | Kind::Bam | Kind::Bcf | Kind::SamGz | Kind::VcfGz | Kind::Csi | Kind::Tbi => bgzf_member_starts(b),
        Kind::Cram => {
            let l = cram_layout(b);
            let mut v = l.containers;
            v.extend(l.bodies);
            v.extend(l.slices);
            v.push(26.min(b.len()));
            v
        }
        Kind::Sam | Kind::Vcf | Kind::Fasta | Kind::Fastq | Kind::Gff | Kind::Gtf | Kind::Bed | Kind::Fai | Kind::FastqFai => line_starts(b),
        Kind::BamRaw => bam_record_offsets(b).unwrap_or_default(),
        Kind::BcfRaw => bcf_record_offsets(b).unwrap_or_default(),
        Kind::Bai => bai_boundaries(b),
        Kind::Gzi => (0..).map(|i| 8 + 16 * i).take_while(|&o| o <= b.len()).collect(),
        Kind::Crai => vec![10.min(b.len()), b.len().saturating_sub(8)], // gzip header end, trailer start
    };
    finish(v, b.len())
}

/// See `crate::inflated_payload`.
pub fn inflated_payload(item: &Item) -> Option<Vec<u8>> {
    if item.kind.is_bgzf_wrapped() {
        vcore::bgzf::walk_prefix(&item.bytes).ok().map(|(w, _)| w.concat())
    } else {
        None
    }
}

/// See `crate::record_boundaries_in_payload`.
pub fn record_boundaries_in_payload(item: &Item) -> Option<Vec<usize>> {
    match item.kind {
        Kind::BamRaw => bam_record_offsets(&item.bytes),
        Kind::BcfRaw => bcf_record_offsets(&item.bytes),
        Kind::Bam => bam_record_offsets(&inflated_payload(item)?),
        Kind::Bcf => bcf_record_offsets(&inflated_payload(item)?),
        Kind::SamGz | Kind::VcfGz => {
            let p = inflated_payload(item)?;
            let mut v = line_starts(&p);
            v.push(p.len());
            v.dedup();
            Some(v)
        }
        _ => None,
    }
}
