//! Seeded text templates: reference sequences, SAM, VCF, FASTA, FASTQ, GFF3, GTF, BED.
//!
//! Everything here is plain string building (no noodles involved) and a pure function of the `Rng` handed in.
//! The texts are deliberately conventional (they have to be accepted by every noodles reader AND writer of the
//! family, including CRAM and BCF), but vary in every column.

use std::fmt::Write as _;

use vcore::Rng;

#[derive(Clone, Debug)]
pub struct Reference {
    pub name: String,
    pub seq: Vec<u8>,
}

pub fn references(rng: &mut Rng, n: usize, min_len: usize, max_len: usize) -> Vec<Reference> {
    (0..n)
        .map(|i| {
            let len = rng.urange(min_len, max_len);
            let mut seq = Vec::with_capacity(len);
            for _ in 0..len {
                seq.push(b"ACGT"[rng.usize_below(4)]);
            }
            // a short run of N somewhere (never at the very start so that reads near 1 have bases)
            if len > 200 && rng.bool() {
                let s = rng.urange(50, len - 60);
                for b in &mut seq[s..s + rng.urange(1, 8)] {
                    *b = b'N';
                }
            }
            Reference { name: format!("sq{i}"), seq }
        })
        .collect()
}

/// FASTA text of the references, wrapped at `width` bases, LF line ends.
pub fn reference_fasta(refs: &[Reference], width: usize) -> Vec<u8> {
    let mut out = Vec::new();
    for r in refs {
        out.push(b'>');
        out.extend_from_slice(r.name.as_bytes());
        out.push(b'\n');
        for line in r.seq.chunks(width.max(1)) {
            out.extend_from_slice(line);
            out.push(b'\n');
        }
    }
    out
}

// ------------------------------------------------------------------------------------------------
// SAM

#[derive(Clone, Copy, Debug, PartialEq, Eq)]
pub enum Tags {
    /// no optional fields at all (CRAM output is then byte-deterministic)
    None,
    /// exactly one `XZ:Z:` field on every record
    One,
    /// every aux type, seeded selection per record
    All,
}

#[derive(Clone, Debug)]
pub struct SamSpec {
    pub records: usize,
    pub unmapped_tail: usize,
    pub read_len: (usize, usize),
    pub tags: Tags,
    /// allow `*` sequences / `*` qualities (not for CRAM sources)
    pub allow_missing: bool,
    pub read_groups: usize,
    pub comments: usize,
}

fn bases(rng: &mut Rng, n: usize) -> Vec<u8> {
    (0..n).map(|_| b"ACGT"[rng.usize_below(4)]).collect()
}

fn name(rng: &mut Rng, i: usize) -> String {
    const ALPHA: &[u8] = b"abcdefghijklmnopqrstuvwxyzABCDEFGHIJKLMNOPQRSTUVWXYZ0123456789_:/.#-";
    let mut s = format!("r{i:04}");
    let extra = rng.skewed(24) as usize;
    if extra > 0 {
        s.push(':');
        for _ in 0..extra {
            s.push(ALPHA[rng.usize_below(ALPHA.len())] as char);
        }
    }
    s
}

fn aux_fields(rng: &mut Rng, tags: Tags, rg: Option<usize>, out: &mut String) {
    match tags {
        Tags::None => {}
        Tags::One => {
            let _ = write!(out, "\tXZ:Z:tag{}", rng.below(1000));
        }
        Tags::All => {
            if let Some(g) = rg {
                let _ = write!(out, "\tRG:Z:rg{g}");
            }
            const INTS: &[i64] = &[
                0, 1, -1, 127, 128, -128, -129, 255, 256, 32767, 32768, -32768, -32769, 65535, 65536, 2147483647,
                -2147483648, 4294967295,
            ];
            if rng.chance(3, 4) {
                let _ = write!(out, "\tNM:i:{}", rng.below(12));
            }
            if rng.chance(1, 2) {
                let _ = write!(out, "\tAS:i:{}", rng.pick(INTS));
            }
            if rng.chance(1, 3) {
                let _ = write!(out, "\tXA:A:{}", *rng.pick(b"ACGTxyz!~0") as char);
            }
            if rng.chance(1, 3) {
                const FLOATS: &[&str] = &["0", "1.5", "-2.25", "3.4028235e38", "1e-10", "-0", "0.1", "123456.79"];
                let _ = write!(out, "\tXF:f:{}", rng.pick(FLOATS));
            }
            if rng.chance(1, 3) {
                const STRS: &[&str] = &["", "x", "hello world", "a:b;c=d,e", "~!@#$%^&*()", "0123456789"];
                let _ = write!(out, "\tXZ:Z:{}", rng.pick(STRS));
            }
            if rng.chance(1, 4) {
                const HEX: &[&str] = &["", "00", "CAFE", "0123456789ABCDEF", "FF"];
                let _ = write!(out, "\tXH:H:{}", rng.pick(HEX));
            }
            if rng.chance(1, 3) {
                let (sub, lo, hi): (char, i64, i64) = *rng.pick(&[
                    ('c', -128, 127),
                    ('C', 0, 255),
                    ('s', -32768, 32767),
                    ('S', 0, 65535),
                    ('i', -2147483648, 2147483647),
                    ('I', 0, 4294967295),
                ]);
                // (never empty: `XB:B:s` followed by another field is rejected by the lazy sam::Record
                // parser on the pinned tree although the SAM writer emits it; see known_problem_items)
                let n = rng.skewed(9) as usize + 1;
                let _ = write!(out, "\tXB:B:{sub}");
                for k in 0..n {
                    let v = match k {
                        0 => lo,
                        1 => hi,
                        _ => rng.range(lo, hi),
                    };
                    let _ = write!(out, ",{v}");
                }
            }
            if rng.chance(1, 4) {
                let n = rng.skewed(5) as usize + 1;
                out.push_str("\tXG:B:f");
                for _ in 0..n {
                    let _ = write!(out, ",{}", rng.pick(&["0", "1.25", "-7.5", "1e5", "0.001"]));
                }
            }
        }
    }
}

/// Returns SAM text (header + coordinate-sorted records + unmapped tail) over `refs`.
pub fn sam_text(rng: &mut Rng, refs: &[Reference], spec: &SamSpec) -> Vec<u8> {
    let mut s = String::new();
    s.push_str("@HD\tVN:1.6\tSO:coordinate\n");
    for r in refs {
        let _ = writeln!(s, "@SQ\tSN:{}\tLN:{}", r.name, r.seq.len());
    }
    for g in 0..spec.read_groups {
        let _ = writeln!(s, "@RG\tID:rg{g}\tSM:sample{g}\tPL:ILLUMINA\tLB:lib{}", g % 2);
    }
    s.push_str("@PG\tID:corpus\tPN:verif-corpus\tVN:0.1\tCL:corpus --deterministic\n");
    for c in 0..spec.comments {
        let _ = writeln!(s, "@CO\tcomment {c}: generated text, tabs\tare fine here");
    }

    // distribute the records over the references proportionally to their length
    let total: usize = refs.iter().map(|r| r.seq.len()).sum::<usize>().max(1);
    let mut idx = 0usize;
    for (ri, r) in refs.iter().enumerate() {
        let mut n = spec.records * r.seq.len() / total;
        if ri + 1 == refs.len() {
            n = spec.records.saturating_sub(idx);
        }
        if n == 0 {
            continue;
        }
        let max_read = spec.read_len.1.min(r.seq.len() / 2).max(spec.read_len.0.min(r.seq.len() / 2)).max(4);
        let min_read = spec.read_len.0.min(max_read).max(4);
        // ascending starts
        let mut starts: Vec<usize> =
            (0..n).map(|_| rng.urange(1, r.seq.len().saturating_sub(2 * max_read + 8).max(1))).collect();
        starts.sort_unstable();
        for &start in &starts {
            let read_len = rng.urange(min_read, max_read);
            sam_mapped_record(rng, &mut s, idx, ri, r, refs, start, read_len, spec);
            idx += 1;
        }
    }
    for _ in 0..spec.unmapped_tail {
        let read_len = rng.urange(spec.read_len.0.max(1), spec.read_len.1.max(1));
        let seq = bases(rng, read_len);
        let qual: String = (0..read_len).map(|_| (33 + rng.below(42) as u8) as char).collect();
        let flag = *rng.pick(&[4u16, 4 | 512, 77, 141]);
        let _ = write!(
            s,
            "{}\t{}\t*\t0\t0\t*\t*\t0\t0\t{}\t{}",
            name(rng, idx),
            flag,
            std::str::from_utf8(&seq).unwrap(),
            qual
        );
        let rg = if spec.read_groups > 0 { Some(rng.usize_below(spec.read_groups)) } else { None };
        aux_fields(rng, spec.tags, rg, &mut s);
        s.push('\n');
        idx += 1;
    }
    s.into_bytes()
}

#[allow(clippy::too_many_arguments)]
fn sam_mapped_record(
    rng: &mut Rng,
    s: &mut String,
    idx: usize,
    ri: usize,
    r: &Reference,
    refs: &[Reference],
    start: usize,
    read_len: usize,
    spec: &SamSpec,
) {
    // Edit script over the reference: [H] [S] M (I|D|N M)* [S] [H]; read bases follow the reference on M
    // with occasional mismatches.
    let mut cigar = String::new();
    let mut seq: Vec<u8> = Vec::with_capacity(read_len);
    let mut rpos = start - 1; // 0-based
    if rng.chance(1, 8) {
        let _ = write!(cigar, "{}H", rng.urange(1, 20));
    }
    let mut left = read_len;
    if left > 6 && rng.chance(1, 5) {
        let n = rng.urange(1, 5);
        let _ = write!(cigar, "{n}S");
        seq.extend(bases(rng, n));
        left -= n;
    }
    let tail_clip = if left > 6 && rng.chance(1, 5) { rng.urange(1, 5) } else { 0 };
    left -= tail_clip;
    let mut first = true;
    while left > 0 {
        if !first {
            // an operation between two match blocks
            match rng.below(4) {
                0 if left > 2 => {
                    let n = rng.urange(1, (left - 1).min(6));
                    let _ = write!(cigar, "{n}I");
                    seq.extend(bases(rng, n));
                    left -= n;
                }
                1 => {
                    let n = rng.urange(1, 12);
                    if rpos + n + left < r.seq.len() {
                        let _ = write!(cigar, "{n}D");
                        rpos += n;
                    }
                }
                2 => {
                    let n = rng.urange(10, 120);
                    if rpos + n + left < r.seq.len() {
                        let _ = write!(cigar, "{n}N");
                        rpos += n;
                    }
                }
                _ => {}
            }
        }
        first = false;
        let n = if left <= 3 || rng.chance(1, 2) { left } else { rng.urange(1, left) };
        let n = n.min(r.seq.len().saturating_sub(rpos)).max(1);
        // plain M most of the time; = / X now and then (whole block)
        let kind = match rng.below(12) {
            0 => '=',
            1 => 'X',
            _ => 'M',
        };
        let _ = write!(cigar, "{n}{kind}");
        for k in 0..n {
            let rb = r.seq.get(rpos + k).copied().unwrap_or(b'A');
            let b = if kind == 'X' || (kind == 'M' && rng.chance(1, 25)) {
                // a base different from the reference
                let mut c = b"ACGT"[rng.usize_below(4)];
                if c == rb {
                    c = if rb == b'A' { b'C' } else { b'A' };
                }
                c
            } else if rb == b'N' && kind == '=' {
                b'N'
            } else {
                rb
            };
            seq.push(b);
        }
        rpos += n;
        left -= n.min(left);
    }
    if tail_clip > 0 {
        let _ = write!(cigar, "{tail_clip}S");
        seq.extend(bases(rng, tail_clip));
    }
    if rng.chance(1, 10) {
        let _ = write!(cigar, "{}H", rng.urange(1, 9));
    }

    let missing_seq = spec.allow_missing && rng.chance(1, 12);
    let missing_qual = missing_seq || (spec.allow_missing && rng.chance(1, 8));
    let qual: String = if missing_qual {
        "*".into()
    } else {
        let mut q = 30i64;
        seq.iter()
            .map(|_| {
                q = (q + rng.range(-4, 4)).clamp(0, 60);
                (33 + q as u8) as char
            })
            .collect()
    };
    let seq_s = if missing_seq { "*".to_string() } else { String::from_utf8(seq).unwrap() };
    // with a missing sequence the CIGAR must not claim read bases; use a pure reference-consuming CIGAR
    let cigar = if missing_seq { format!("{}N", rng.urange(1, 50)) } else { cigar };

    let flag: u16 = *rng.pick(&[0u16, 16, 0, 16, 256, 272, 1024, 2048, 2064, 512, 65, 81, 97, 113, 129, 145, 161, 177, 99, 147, 83, 163]);
    let paired = flag & 1 != 0;
    let (rnext, pnext, tlen) = if paired {
        match rng.below(4) {
            0 if refs.len() > 1 => {
                let o = (ri + 1) % refs.len();
                (refs[o].name.clone(), rng.urange(1, refs[o].seq.len()), 0i64)
            }
            1 => ("*".to_string(), 0, 0),
            _ => {
                let p = rng.urange(1, r.seq.len());
                ("=".to_string(), p, p as i64 - start as i64 + rng.range(-30, 300))
            }
        }
    } else {
        ("*".to_string(), 0, 0)
    };
    let mapq = *rng.pick(&[0u8, 1, 20, 30, 37, 40, 60, 60, 254, 255]);
    let _ = write!(
        s,
        "{}\t{}\t{}\t{}\t{}\t{}\t{}\t{}\t{}\t{}\t{}",
        name(rng, idx),
        flag,
        r.name,
        start,
        mapq,
        cigar,
        rnext,
        pnext,
        tlen,
        seq_s,
        qual
    );
    let rg = if spec.read_groups > 0 && rng.chance(3, 4) { Some(rng.usize_below(spec.read_groups)) } else { None };
    aux_fields(rng, spec.tags, rg, s);
    s.push('\n');
}

/// Header-only SAM text.
pub fn sam_header_only(refs: &[Reference]) -> Vec<u8> {
    let mut s = String::from("@HD\tVN:1.6\tSO:coordinate\n");
    for r in refs {
        let _ = writeln!(s, "@SQ\tSN:{}\tLN:{}", r.name, r.seq.len());
    }
    s.into_bytes()
}

// ------------------------------------------------------------------------------------------------
// VCF

#[derive(Clone, Debug)]
pub struct VcfSpec {
    pub records: usize,
    pub samples: usize,
    pub symbolic: bool,
}

pub fn vcf_header(refs: &[Reference], samples: usize) -> String {
    let mut s = String::new();
    s.push_str("##fileformat=VCFv4.3\n");
    s.push_str("##fileDate=20260101\n");
    s.push_str("##source=verif-corpus\n");
    for r in refs {
        let _ = writeln!(s, "##contig=<ID={},length={}>", r.name, r.seq.len());
    }
    s.push_str("##INFO=<ID=DP,Number=1,Type=Integer,Description=\"Total depth\">\n");
    s.push_str("##INFO=<ID=AF,Number=A,Type=Float,Description=\"Allele frequency\">\n");
    s.push_str("##INFO=<ID=AC,Number=A,Type=Integer,Description=\"Allele count\">\n");
    s.push_str("##INFO=<ID=DB,Number=0,Type=Flag,Description=\"dbSNP membership\">\n");
    s.push_str("##INFO=<ID=AA,Number=1,Type=String,Description=\"Ancestral allele\">\n");
    s.push_str("##INFO=<ID=CH,Number=1,Type=Character,Description=\"A character\">\n");
    s.push_str("##INFO=<ID=NT,Number=.,Type=String,Description=\"Notes\">\n");
    s.push_str("##INFO=<ID=END,Number=1,Type=Integer,Description=\"End position\">\n");
    s.push_str("##INFO=<ID=SVTYPE,Number=1,Type=String,Description=\"Type of structural variant\">\n");
    s.push_str("##FILTER=<ID=PASS,Description=\"All filters passed\">\n");
    s.push_str("##FILTER=<ID=q10,Description=\"Quality below 10\">\n");
    s.push_str("##FILTER=<ID=s50,Description=\"Less than 50% of samples have data\">\n");
    s.push_str("##ALT=<ID=DEL,Description=\"Deletion\">\n");
    s.push_str("##FORMAT=<ID=GT,Number=1,Type=String,Description=\"Genotype\">\n");
    s.push_str("##FORMAT=<ID=GQ,Number=1,Type=Integer,Description=\"Genotype quality\">\n");
    s.push_str("##FORMAT=<ID=DP,Number=1,Type=Integer,Description=\"Read depth\">\n");
    s.push_str("##FORMAT=<ID=AD,Number=R,Type=Integer,Description=\"Allelic depths\">\n");
    s.push_str("##FORMAT=<ID=PL,Number=G,Type=Integer,Description=\"Phred-scaled likelihoods\">\n");
    s.push_str("##FORMAT=<ID=FT,Number=1,Type=String,Description=\"Sample filter\">\n");
    s.push_str("##FORMAT=<ID=HF,Number=2,Type=Float,Description=\"Haplotype floats\">\n");
    s.push_str("#CHROM\tPOS\tID\tREF\tALT\tQUAL\tFILTER\tINFO");
    if samples > 0 {
        s.push_str("\tFORMAT");
        for i in 0..samples {
            let _ = write!(s, "\tsample{i}");
        }
    }
    s.push('\n');
    s
}

pub fn vcf_text(rng: &mut Rng, refs: &[Reference], spec: &VcfSpec) -> Vec<u8> {
    let mut s = vcf_header(refs, spec.samples);
    const INTS: &[i64] = &[0, 1, 7, 100, 127, 128, 255, 256, 32767, 32768, 65536, 1000000, 2147483647, -1, -120, -121, -32760, -32761];
    let total: usize = refs.iter().map(|r| r.seq.len()).sum::<usize>().max(1);
    let mut made = 0usize;
    for (ri, r) in refs.iter().enumerate() {
        let mut n = spec.records * r.seq.len() / total;
        if ri + 1 == refs.len() {
            n = spec.records.saturating_sub(made);
        }
        let mut starts: Vec<usize> = (0..n).map(|_| rng.urange(1, r.seq.len().saturating_sub(80).max(1))).collect();
        starts.sort_unstable();
        for (k, &pos) in starts.iter().enumerate() {
            made += 1;
            let symbolic = spec.symbolic && rng.chance(1, 8);
            let ref_len = if symbolic { 1 } else { rng.skewed(12) as usize + 1 };
            let refb: Vec<u8> = (0..ref_len)
                .map(|j| match r.seq.get(pos - 1 + j).copied().unwrap_or(b'A') {
                    b'N' => b'N',
                    c => c,
                })
                .collect();
            let refb = String::from_utf8(refb).unwrap();
            let n_alt = if symbolic { 1 } else { rng.skewed(3) as usize };
            let alts: Vec<String> = (0..n_alt)
                .map(|_| {
                    if symbolic {
                        "<DEL>".to_string()
                    } else {
                        let l = rng.skewed(6) as usize + 1;
                        let mut a = String::from_utf8(bases(rng, l)).unwrap();
                        if a == refb {
                            a.push('T');
                        }
                        a
                    }
                })
                .collect();
            let id = match rng.below(4) {
                0 => format!("rs{}", rng.below(1_000_000)),
                1 => format!("rs{};id{}", rng.below(1000), k),
                _ => ".".to_string(),
            };
            let qual = match rng.below(5) {
                0 => ".".to_string(),
                1 => "0".to_string(),
                2 => format!("{}", rng.below(1000)),
                3 => format!("{}.5", rng.below(100)),
                _ => "29.25".to_string(),
            };
            let filter = *rng.pick(&[".", "PASS", "PASS", "q10", "q10;s50", "s50"]);
            let mut info: Vec<String> = Vec::new();
            if rng.chance(3, 4) {
                info.push(format!("DP={}", rng.pick(INTS).max(&0)));
            }
            if n_alt > 0 && !symbolic && rng.chance(1, 2) {
                let v: Vec<String> =
                    (0..n_alt).map(|_| rng.pick(&["0.5", "0.25", "1", "0", "0.001", "1e-05", "0.125"]).to_string()).collect();
                info.push(format!("AF={}", v.join(",")));
            }
            if n_alt > 0 && !symbolic && rng.chance(1, 2) {
                let v: Vec<String> = (0..n_alt).map(|_| format!("{}", rng.pick(INTS))).collect();
                info.push(format!("AC={}", v.join(",")));
            }
            if rng.chance(1, 4) {
                info.push("DB".to_string());
            }
            if rng.chance(1, 4) {
                // (a lone `.` as a single INFO value makes the BCF encoder hit a todo!() on the pinned tree: left out)
                info.push(format!("AA={}", rng.pick(&["A", "C", "G", "T", "ACG", "N"])));
            }
            if rng.chance(1, 6) {
                info.push(format!("CH={}", rng.pick(&["x", "Y", "7"])));
            }
            if rng.chance(1, 5) {
                info.push(format!("NT={}", rng.pick(&["a", "a,b", "note%3Bwith%3Dstuff,b", "x,.,z"])));
            }
            if symbolic {
                info.push("SVTYPE=DEL".to_string());
                info.push(format!("END={}", pos + rng.urange(1, 60)));
            }
            let info = if info.is_empty() { ".".to_string() } else { info.join(";") };
            let _ = write!(
                s,
                "{}\t{}\t{}\t{}\t{}\t{}\t{}\t{}",
                r.name,
                pos,
                id,
                refb,
                if alts.is_empty() { ".".to_string() } else { alts.join(",") },
                qual,
                filter,
                info
            );
            if spec.samples > 0 {
                // keys: GT always first when present
                let mut keys: Vec<&str> = Vec::new();
                if rng.chance(7, 8) {
                    keys.push("GT");
                }
                for k in ["GQ", "DP", "AD", "PL", "FT", "HF"] {
                    if rng.chance(1, 2) {
                        keys.push(k);
                    }
                }
                if keys.is_empty() {
                    keys.push("DP");
                }
                let _ = write!(s, "\t{}", keys.join(":"));
                let alleles = n_alt + 1;
                let ploidy = *rng.pick(&[2usize, 2, 2, 2, 1, 3]);
                let mut matrix: Vec<Vec<String>> = Vec::new();
                for _ in 0..spec.samples {
                    let mut vals: Vec<String> = Vec::new();
                    for k in &keys {
                        let v = match *k {
                            "GT" => {
                                // one ploidy per record: a triploid next to a diploid call is written by the BCF
                                // writer in a form the BCF readers cannot decode (see known_problem_items)
                                let sep = if rng.chance(1, 3) { '|' } else { '/' };
                                // (a haploid `.` is a missing GT value, which the BCF writer rejects)
                                let calls: Vec<String> = (0..ploidy)
                                    .map(|_| if ploidy > 1 && rng.chance(1, 10) { ".".to_string() } else { rng.usize_below(alleles).to_string() })
                                    .collect();
                                calls.join(&sep.to_string())
                            }
                            "GQ" => match rng.below(4) {
                                0 => ".".to_string(),
                                _ => format!("{}", rng.below(100)),
                            },
                            "DP" => match rng.below(5) {
                                0 => ".".to_string(),
                                _ => format!("{}", rng.pick(INTS).max(&0)),
                            },
                            "AD" => {
                                if rng.chance(1, 6) {
                                    ".".to_string()
                                } else {
                                    (0..alleles)
                                        .map(|_| if rng.chance(1, 8) { ".".to_string() } else { format!("{}", rng.below(300)) })
                                        .collect::<Vec<_>>()
                                        .join(",")
                                }
                            }
                            "PL" => {
                                if rng.chance(1, 4) {
                                    ".".to_string()
                                } else {
                                    let g = alleles * (alleles + 1) / 2;
                                    (0..g).map(|_| format!("{}", rng.below(70000))).collect::<Vec<_>>().join(",")
                                }
                            }
                            "FT" => rng.pick(&["PASS", "q10", ".", "lowGQ"]).to_string(),
                            // (never `.`: the BCF writer rejects a float-array FORMAT series in which every
                            // sample is missing: InvalidInput "missing float array values")
                            "HF" => match rng.below(3) {
                                0 => "0.5,1.5".to_string(),
                                1 => "58.5,50".to_string(),
                                _ => format!("{},{}", rng.below(60), rng.pick(&["7.75", "3.25", "0"])),
                            },
                            _ => unreachable!(),
                        };
                        vals.push(v);
                    }
                    matrix.push(vals);
                }
                let concrete = |key: &str| -> String {
                    match key {
                        "GT" => vec!["0"; ploidy].join("/"),
                        "FT" => "PASS".to_string(),
                        "AD" => (0..alleles).map(|_| "1").collect::<Vec<_>>().join(","),
                        "PL" => (0..alleles * (alleles + 1) / 2).map(|_| "0").collect::<Vec<_>>().join(","),
                        "HF" => "1,2".to_string(),
                        _ => "5".to_string(),
                    }
                };
                // a sample whose values are ALL missing is re-emitted by the VCF writer as an empty column, which
                // read_record_buf then rejects (see known_problem_items): keep one concrete value per sample
                for vals in &mut matrix {
                    if vals.iter().all(|v| v == ".") {
                        vals[0] = concrete(keys[0]);
                    }
                }
                // a FORMAT key that is missing in EVERY sample: the BCF writer rejects it for String / Float-array
                // keys and writes an undecodable series for Integer-array keys: keep one concrete value per key
                for (k, key) in keys.iter().enumerate() {
                    if matrix.iter().all(|vals| vals[k] == ".") {
                        matrix[0][k] = concrete(key);
                    }
                }
                for vals in &matrix {
                    let _ = write!(s, "\t{}", vals.join(":"));
                }
            }
            s.push('\n');
        }
    }
    s.into_bytes()
}

// ------------------------------------------------------------------------------------------------
// FASTA / FASTQ

/// Hand-formatted FASTA: `width` bases per line, `eol` line ends, optional descriptions.
pub fn fasta_text(rng: &mut Rng, n: usize, min_len: usize, max_len: usize, width: usize, eol: &str, final_eol: bool) -> Vec<u8> {
    let mut out = Vec::new();
    for i in 0..n {
        let len = rng.urange(min_len, max_len);
        out.extend_from_slice(format!(">seq{i}").as_bytes());
        if rng.bool() {
            out.extend_from_slice(format!(" description {i} len={len}").as_bytes());
        }
        out.extend_from_slice(eol.as_bytes());
        let seq: Vec<u8> = (0..len)
            .map(|_| {
                if rng.chance(1, 40) {
                    *rng.pick(b"NnRYKMacgt")
                } else {
                    b"ACGT"[rng.usize_below(4)]
                }
            })
            .collect();
        let mut lines = seq.chunks(width.max(1)).peekable();
        while let Some(l) = lines.next() {
            out.extend_from_slice(l);
            if lines.peek().is_some() || i + 1 < n || final_eol {
                out.extend_from_slice(eol.as_bytes());
            }
        }
    }
    out
}

pub fn fastq_text(rng: &mut Rng, n: usize, min_len: usize, max_len: usize, eol: &str, repeat_name_on_plus: bool) -> Vec<u8> {
    let mut out = Vec::new();
    for i in 0..n {
        let len = rng.urange(min_len, max_len);
        let mut nm = format!("read{i}");
        if rng.bool() {
            nm.push_str(&format!("/{}", 1 + rng.below(2)));
        }
        let desc = if rng.bool() { format!(" lane={} idx={}", rng.below(8), rng.below(1000)) } else { String::new() };
        out.extend_from_slice(format!("@{nm}{desc}").as_bytes());
        out.extend_from_slice(eol.as_bytes());
        let seq: Vec<u8> = (0..len).map(|_| if rng.chance(1, 50) { b'N' } else { b"ACGT"[rng.usize_below(4)] }).collect();
        out.extend_from_slice(&seq);
        out.extend_from_slice(eol.as_bytes());
        out.push(b'+');
        if repeat_name_on_plus {
            out.extend_from_slice(nm.as_bytes());
        }
        out.extend_from_slice(eol.as_bytes());
        // qualities: any of '!'..'~', including '@' and '+' as first characters
        for k in 0..len {
            let q = if k == 0 && rng.chance(1, 6) { *rng.pick(b"@+") } else { 33 + rng.below(94) as u8 };
            out.push(q);
        }
        out.extend_from_slice(eol.as_bytes());
    }
    out
}

// ------------------------------------------------------------------------------------------------
// GFF3 / GTF / BED

pub fn gff_text(rng: &mut Rng, refs: &[Reference], genes: usize) -> Vec<u8> {
    let mut s = String::from("##gff-version 3\n");
    for r in refs {
        let _ = writeln!(s, "##sequence-region {} 1 {}", r.name, r.seq.len());
    }
    s.push_str("# a comment line\n");
    let mut g = 0usize;
    for r in refs {
        let per = genes.div_ceil(refs.len());
        let mut starts: Vec<usize> = (0..per).map(|_| rng.urange(1, r.seq.len().saturating_sub(120).max(1))).collect();
        starts.sort_unstable();
        for &st in &starts {
            if g >= genes {
                break;
            }
            let end = (st + rng.urange(30, 110)).min(r.seq.len());
            let strand = *rng.pick(&["+", "-", ".", "?"]);
            let src = *rng.pick(&["corpus", "havana", "."]);
            let _ = writeln!(
                s,
                "{}\t{}\tgene\t{}\t{}\t{}\t{}\t.\tID=gene{g};Name=G{g};Note=first%3Bnote,second note;Dbxref=DB:1,DB:2",
                r.name,
                src,
                st,
                end,
                rng.pick(&[".", "0", "12.5", "1e-3", "100"]),
                strand
            );
            let _ = writeln!(s, "{}\t{}\tmRNA\t{}\t{}\t.\t{}\t.\tID=tx{g};Parent=gene{g}", r.name, src, st, end, strand);
            let exons = rng.urange(1, 3);
            let mut p = st;
            for e in 0..exons {
                let ee = (p + rng.urange(5, 25)).min(end);
                let _ = writeln!(
                    s,
                    "{}\t{}\tCDS\t{}\t{}\t.\t{}\t{}\tID=cds{g}.{e};Parent=tx{g}{}",
                    r.name,
                    src,
                    p,
                    ee,
                    strand,
                    rng.below(3),
                    if rng.chance(1, 3) { ";product=hypothetical%09protein%2C putative" } else { "" }
                );
                p = (ee + 1).min(end);
            }
            if rng.chance(1, 4) {
                s.push_str("###\n");
            }
            g += 1;
        }
    }
    s.into_bytes()
}

pub fn gtf_text(rng: &mut Rng, refs: &[Reference], genes: usize) -> Vec<u8> {
    let mut s = String::from("#!genome-build verif\n# a comment\n");
    let mut g = 0usize;
    for r in refs {
        let per = genes.div_ceil(refs.len());
        let mut starts: Vec<usize> = (0..per).map(|_| rng.urange(1, r.seq.len().saturating_sub(120).max(1))).collect();
        starts.sort_unstable();
        for &st in &starts {
            if g >= genes {
                break;
            }
            let end = (st + rng.urange(30, 110)).min(r.seq.len());
            let strand = *rng.pick(&["+", "-", "."]);
            let _ = writeln!(
                s,
                "{}\tcorpus\tgene\t{}\t{}\t{}\t{}\t.\tgene_id \"g{g}\"; gene_name \"Gene {g}\";",
                r.name,
                st,
                end,
                rng.pick(&[".", "0", "7.5", "1000"]),
                strand
            );
            let _ = writeln!(
                s,
                "{}\tcorpus\texon\t{}\t{}\t.\t{}\t{}\tgene_id \"g{g}\"; transcript_id \"t{g}.1\"; exon_number \"1\"; tag \"basic\"; tag \"CCDS\";",
                r.name,
                st,
                end,
                strand,
                rng.pick(&[".", "0", "1", "2"])
            );
            g += 1;
        }
    }
    s.into_bytes()
}

/// BED text with `n` standard fields and `extra` further columns.
pub fn bed_text(rng: &mut Rng, refs: &[Reference], n: u8, lines: usize, extra: usize, comments: bool) -> Vec<u8> {
    let mut s = String::new();
    if comments {
        s.push_str("# comment before the first record\n");
    }
    let mut k = 0usize;
    for r in refs {
        let per = lines.div_ceil(refs.len());
        let mut starts: Vec<usize> = (0..per).map(|_| rng.usize_below(r.seq.len().saturating_sub(100).max(1))).collect();
        starts.sort_unstable();
        for &st in &starts {
            if k >= lines {
                break;
            }
            let end = st + rng.urange(1, 90);
            let _ = write!(s, "{}\t{}\t{}", r.name, st, end);
            if n >= 4 {
                let _ = write!(s, "\t{}", rng.pick(&["feat", "a b", ".", "name_with_underscores", "x"]));
            }
            if n >= 5 {
                let _ = write!(s, "\t{}", rng.pick(&["0", "1", "500", "1000", "999"]));
            }
            if n >= 6 {
                let _ = write!(s, "\t{}", rng.pick(&["+", "-", "."]));
            }
            for e in 0..extra {
                let _ = write!(s, "\t{}", match e {
                    0 => format!("{st}"),
                    1 => format!("{end}"),
                    2 => "255,0,0".to_string(),
                    _ => format!("x{}", rng.below(100)),
                });
            }
            s.push('\n');
            if comments && rng.chance(1, 10) {
                s.push_str("# interleaved comment\n");
            }
            k += 1;
        }
    }
    s.into_bytes()
}
