//! corpus — valid files of every noodles format, canonical "transcript" drivers of every synchronous
//! reader and canonical write histories of every writer. Shared by C12 (read chunking), C13 (truncation),
//! C14 (sink failures), C15 (corrupt input) and, as the sync oracle, C16.
//!
//! # API
//!
//! ```text
//! enum Kind { Bgzf, Bam, BamRaw, Bcf, BcfRaw, Cram, Sam, SamGz, Vcf, VcfGz, Fasta, Fastq, Gff, Gtf, Bed,
//!             Bai, Csi, Tbi, Gzi, Fai, FastqFai, Crai }            Kind::ALL, name(), is_index(), is_bgzf_wrapped(),
//!                                                                  reader_takes_bufread(), variants(), has_writer()
//! struct Item { kind, name, bytes, side }                          Item::writable(), Item::write_bytes_deterministic()
//! struct Side { reference_fasta, bed_n, model, writable, flush_every, bgzf_ops, cram_layout, indexed_item }
//!
//! items(seed, scale) -> Vec<Item>                                  deterministic in (seed, scale); scale 0/1/2
//! items_with_tmp(seed, scale, tmpdir) -> Vec<Item>                 same, scratch files under `tmpdir`
//! build_report(seed, scale) -> (Vec<Item>, Vec<BuildNote>)         + what could not be built (empty on the pinned tree)
//! known_problem_items() -> Vec<Item>                               items left out because noodles cannot read its own output
//!
//! transcript_read(kind, src: impl Read, side, deep) -> Vec<String>
//! transcript_read_cap(kind, src: impl Read, side, deep, cap)       explicit BufReader capacity for BufRead-based readers
//! transcript_bufread(kind, src: impl BufRead, side, deep)          BufRead-based readers use `src` directly
//! transcript_read_variant / transcript_bufread_variant(kind, variant, ...)   Variant::{Primary, Eager, Indexer}
//! last_error_message() -> Option<String>                           text behind the last "ERR:" element (thread local)
//! render::{sam_header, vcf_header, alignment_record, variant_record, gff_line, gff_line_buf, gtf_line, gtf_line_buf,
//!          fasta_element, fastq_element, cram_container, index_element, Deep, deep_alignment, deep_variant, deep_feature,
//!          deep_bed}                                               the element builders (for async twins: same values => same strings)
//! read::{BGZF_READ_PATTERN, BgzfReadOp, ByteDigest}                the call pattern and the D: digest of the Bgzf driver
//!
//! write_history(item, sink: impl Write) -> io::Result<()>
//! prepare_write(item) -> io::Result<Prepared>; write_prepared(&Prepared, sink)   (decode once, replay many times)
//! write_history_bgzf_drop(item, sink) -> io::Result<()>            writer dropped without finish (Kind::Bgzf)
//! write_history_bgzf_mt(item, sink: impl Write + Send + 'static)   MultithreadedWriter (Kind::Bgzf)
//!
//! boundaries(item) -> Vec<usize>; inflated_payload(item); record_boundaries_in_payload(item); cram_layout(bytes)
//! ```
//!
//! # Transcript elements
//!
//! One string per observed element, in order; the LAST element is always `"END"` (clean end of input) or
//! `"ERR:<io::ErrorKind Debug>"` (first error; reading stops there). `\u{1f}` separates the parts of one element.
//!
//! * `H:<text>\u{1f}<extra>` — header. SAM-family (Sam, SamGz, Bam, BamRaw, Cram): the header re-emitted by
//!   `sam::io::Writer`, extra = FNV-1a of `Debug` of the `sam::Header`. VCF-family: re-emitted by `vcf::io::Writer`,
//!   extra = file format, sample names and the BCF string / contig dictionaries in index order (NOT `Debug` of
//!   `vcf::Header`: it contains a std `HashMap`).
//! * `R:<text>[\u{1f}<extra>]` — one record: the SAM / VCF / GFF3 / GTF / BED line re-emitted by noodles' own text
//!   writer from the decoded value (or `!<ErrorKind>:<message>` if the writer rejects the value), for alignment
//!   records followed by every aux field as `TG:<Debug of the typed value>;` (SAM text hides integer widths).
//!   FASTA: `name TAB description|<none> TAB sequence`; FASTQ: `name TAB description TAB sequence TAB qualities`
//!   (bytes escaped). GFF/GTF: `R:directive:…`, `R:comment:…`, `R:record:<line>\u{1f}<raw line>`.
//! * `V:<u64>` — BGZF virtual position of the underlying `bgzf::io::Reader` after the header and after every record
//!   (Bam, Bcf, SamGz, VcfGz) or after every read (Bgzf).
//! * `D:<fnv hex>:<total>` — Bgzf only: FNV-1a of all bytes delivered so far and their count, after every
//!   successful non-empty read. The driver cycles through a FIXED pattern of `read(n)` / `fill_buf+consume(n)` calls
//!   (1, 2, 7, fill 5, 64, 300, fill all, 4096, 65536, 13, 70000, fill 1, 5, 65536) and retries `Interrupted`.
//! * `C:<container header>` — Cram, Variant::Primary only: one per container (length, reference context, counts,
//!   landmarks), before the container's records.
//! * `I:<Debug of the index>` — index readers: ONE element (`read_index()`) for Bai / Csi / Tbi / Gzi / Fai; one
//!   element PER RECORD for FastqFai and Crai (record-wise `read_record`; for Crai `read_index()` is
//!   `Variant::Eager`, because it fails on every index with more than one record on the pinned tree) and for the
//!   FASTA / FASTQ `Variant::Indexer` (one per `index_record()`). FastqFai lines that do not parse as a record
//!   give `I:!parse:<error>:<line>`.
//! * `A:<fnv hex>:<len>` and `A-ERR:<accessor>:<ErrorKind>` — only with `deep = true`, after each record: digest of
//!   everything the deep walk observed, then one element per accessor that returned an error (values, not panics).
//!
//! The rendering is a pure function of the decoded values. The drivers never catch panics: wrap the call in
//! `vcore::guard::catch`.
//!
//! # Variants
//!
//! `Variant::Primary` = the lazy record API where there is one (`read_record(&mut Record)` for SAM / BAM / VCF / BCF /
//! FASTQ / BED, `read_line(&mut Line)` for GFF / GTF, `read_definition` + `read_sequence` for FASTA,
//! `read_container` → slices → records for CRAM, `read_index` for indexes, `read_record` for CRAI / FASTQ-FAI).
//! `Variant::Eager` = `read_record_buf` (SAM, BAM, VCF, BCF), `records()` (CRAM, FASTA, FASTQ), `line_bufs()`
//! (GFF, GTF), `read_index()` (CRAI; not listed in `variants()`, see above). `Variant::Indexer` =
//! `fasta::io::Indexer` / `fastq::io::Indexer`. `Kind::variants()` lists the variants under which every item of
//! `items()` reads to END on the pinned tree; asking for a variant a kind does not have gives the Primary one.
//! Lazy and eager R elements are NOT comparable with each other for SAM (lazy integers are all `Int32`) and CRAM
//! (the lazy record shows `RG` twice); within one variant they are stable.
//!
//! # Write histories
//!
//! `write_history` replays the logical content of the item (`side.model`: SAM text for Bam / BamRaw / Cram / Sam /
//! SamGz, VCF text for Bcf / BcfRaw / Vcf / VcfGz, the inflated payload + `side.bgzf_ops` for Bgzf; `item.bytes`
//! itself, decoded with the matching noodles reader, for text and index kinds) through the noodles writer of
//! `item.kind`: header, every record (`flush()` on the BGZF layer after every `side.flush_every` records), the
//! finishing call (`try_finish()`; CRAM `try_finish(&header)`; BGZF / CRAI `finish()`), `flush()` on the sink; the
//! first error is returned. A BGZF layer finished with `try_finish` is dismantled with `into_inner()` — dropping it
//! instead makes `bgzf::io::Writer::drop` append a SECOND EOF block (observed on the pinned tree).
//! On a healthy sink the output equals `item.bytes` for every writable item EXCEPT `Kind::Cram`
//! (`Item::write_bytes_deterministic()`): the CRAM writer keeps external blocks and tag encodings in std
//! `HashMap`s and emits them in iteration order, so two runs give files of equal length and content but permuted
//! blocks. For the same reason the CRAM items themselves are byte FIXTURES (`corpus/data/*.cram`, produced once by
//! `corpus_selftest --regen-fixtures` from seed-independent models): their bytes are identical in every process
//! and for every seed. Items with `side.writable == false` (hand-made bytes: independent BGZF encoder, CRLF /
//! odd-width FASTA, …) have no write history: `write_history` returns `Err(Unsupported)` without touching the sink.
//!
//! # Scales
//!
//! 0 = tiny (one item per kind, ≤ ~2 kB, for Miri / ASan), 1 = quick (2–6 per kind: empty or header-only, small,
//! forced multi-block / multi-container, one natural multi-block; ≤ ~60 kB), 2 = thorough (adds larger ones).

pub mod bounds;
pub mod items;
pub mod read;
pub mod render;
pub mod textgen;
pub mod write;

use std::{
    io::{self, BufRead, Read, Write},
    path::Path,
    sync::atomic::{AtomicU64, Ordering},
};

pub use bounds::{CramLayout, cram_layout};
pub use items::{BuildNote, KnownProblem};
pub use read::{BGZF_READ_PATTERN, BgzfReadOp, ByteDigest, last_error_message};
pub use write::{Model, Prepared, prepare_write, write_history_bgzf_drop, write_history_bgzf_mt, write_prepared};

#[derive(Clone, Copy, Debug, PartialEq, Eq, Hash, PartialOrd, Ord)]
pub enum Kind {
    Bgzf,
    Bam,
    BamRaw,
    Bcf,
    BcfRaw,
    Cram,
    Sam,
    SamGz,
    Vcf,
    VcfGz,
    Fasta,
    Fastq,
    Gff,
    Gtf,
    Bed,
    Bai,
    Csi,
    Tbi,
    Gzi,
    Fai,
    FastqFai,
    Crai,
}

/// Which of the reading APIs of a kind a transcript drives (see the crate docs).
#[derive(Clone, Copy, Debug, PartialEq, Eq, Hash, PartialOrd, Ord)]
pub enum Variant {
    Primary,
    Eager,
    Indexer,
}

impl Kind {
    pub const ALL: &[Kind] = &[
        Kind::Bgzf,
        Kind::Bam,
        Kind::BamRaw,
        Kind::Bcf,
        Kind::BcfRaw,
        Kind::Cram,
        Kind::Sam,
        Kind::SamGz,
        Kind::Vcf,
        Kind::VcfGz,
        Kind::Fasta,
        Kind::Fastq,
        Kind::Gff,
        Kind::Gtf,
        Kind::Bed,
        Kind::Bai,
        Kind::Csi,
        Kind::Tbi,
        Kind::Gzi,
        Kind::Fai,
        Kind::FastqFai,
        Kind::Crai,
    ];

    pub fn name(self) -> &'static str {
        match self {
            Kind::Bgzf => "bgzf",
            Kind::Bam => "bam",
            Kind::BamRaw => "bamraw",
            Kind::Bcf => "bcf",
            Kind::BcfRaw => "bcfraw",
            Kind::Cram => "cram",
            Kind::Sam => "sam",
            Kind::SamGz => "samgz",
            Kind::Vcf => "vcf",
            Kind::VcfGz => "vcfgz",
            Kind::Fasta => "fasta",
            Kind::Fastq => "fastq",
            Kind::Gff => "gff",
            Kind::Gtf => "gtf",
            Kind::Bed => "bed",
            Kind::Bai => "bai",
            Kind::Csi => "csi",
            Kind::Tbi => "tbi",
            Kind::Gzi => "gzi",
            Kind::Fai => "fai",
            Kind::FastqFai => "fastqfai",
            Kind::Crai => "crai",
        }
    }

    pub fn from_name(s: &str) -> Option<Kind> {
        Kind::ALL.iter().copied().find(|k| k.name() == s)
    }

    pub fn is_index(self) -> bool {
        matches!(self, Kind::Bai | Kind::Csi | Kind::Tbi | Kind::Gzi | Kind::Fai | Kind::FastqFai | Kind::Crai)
    }

    /// The file is a sequence of BGZF members (so `vcore::bgzf::walk` / `reseal` apply).
    pub fn is_bgzf_wrapped(self) -> bool {
        matches!(self, Kind::Bgzf | Kind::Bam | Kind::Bcf | Kind::SamGz | Kind::VcfGz | Kind::Csi | Kind::Tbi)
    }

    /// The noodles reader of this kind takes `R: BufRead` directly from the byte source (so the `BufReader`
    /// capacity / the `fill_buf` windows of the source matter); the others take `R: Read`.
    pub fn reader_takes_bufread(self) -> bool {
        matches!(
            self,
            Kind::Sam | Kind::Vcf | Kind::Fasta | Kind::Fastq | Kind::Gff | Kind::Gtf | Kind::Bed | Kind::Fai | Kind::FastqFai
        )
    }

    /// The reading APIs a transcript can drive for this kind.
    pub fn variants(self) -> &'static [Variant] {
        match self {
            Kind::Bam | Kind::BamRaw | Kind::Bcf | Kind::BcfRaw | Kind::Cram | Kind::Sam | Kind::SamGz | Kind::Vcf | Kind::VcfGz | Kind::Gff | Kind::Gtf => {
                &[Variant::Primary, Variant::Eager]
            }
            Kind::Fasta | Kind::Fastq => &[Variant::Primary, Variant::Eager, Variant::Indexer],
            _ => &[Variant::Primary],
        }
    }

    /// noodles has a writer for this kind (all kinds have one).
    pub fn has_writer(self) -> bool {
        true
    }
}

#[derive(Clone, Copy, Debug, PartialEq, Eq)]
pub enum BgzfOp {
    /// `write_all` of the next `n` payload bytes
    Write(usize),
    /// `flush()` (ends the current block if anything is staged)
    Flush,
}

/// What a reader / writer needs besides the bytes.
#[derive(Clone, Debug, Default)]
pub struct Side {
    /// CRAM: FASTA text of the reference sequences
    pub reference_fasta: Option<Vec<u8>>,
    /// BED: number of standard fields of the `Record<N>` to read with (3..=6; 0 for other kinds)
    pub bed_n: u8,
    /// Logical content the write history replays for binary record kinds and BGZF: SAM text (Bam, BamRaw, Cram,
    /// Sam, SamGz), VCF text (Bcf, BcfRaw, Vcf, VcfGz), inflated payload (Bgzf). `None` for text / index kinds
    /// (their model is `item.bytes`) and for hand-made items.
    pub model: Option<Vec<u8>>,
    /// `write_history` is defined for this item and reproduces `item.bytes` (modulo `write_bytes_deterministic`)
    pub writable: bool,
    /// BGZF-wrapped record kinds: `flush()` on the BGZF layer after every n records (0 = never)
    pub flush_every: usize,
    /// Bgzf: the write/flush calls of the history (payload bytes not covered are written at the end)
    pub bgzf_ops: Vec<BgzfOp>,
    /// CRAM: `verif_set_layout(records_per_slice, slices_per_container)` used by the write history
    pub cram_layout: Option<(usize, usize)>,
    /// index kinds: name of the data item (same `items()` call) this index was built from
    pub indexed_item: Option<String>,
}

#[derive(Clone, Debug)]
pub struct Item {
    pub kind: Kind,
    /// stable, descriptive: "bam/multiblock-3refs-64recs", "bai/of-bam-multiblock-3refs-64recs"
    pub name: String,
    pub bytes: Vec<u8>,
    pub side: Side,
}

impl Item {
    pub fn writable(&self) -> bool {
        self.side.writable
    }

    /// On a healthy sink `write_history` yields exactly `self.bytes` (false for CRAM: see the crate docs; compare
    /// transcripts instead).
    pub fn write_bytes_deterministic(&self) -> bool {
        self.side.writable && self.kind != Kind::Cram
    }
}

static TMP_COUNTER: AtomicU64 = AtomicU64::new(0);

/// Deterministic in `(seed, scale)`. Scratch files (the `*::fs::index` functions take paths) go to a private
/// sub-directory of `std::env::temp_dir()`, which is removed before returning.
pub fn items(seed: u64, scale: u8) -> Vec<Item> {
    build_report(seed, scale).0
}

/// Like [`items`], plus the notes about anything that could not be built (writer rejected a model, indexer
/// failed or panicked, …). On the pinned tree the notes are empty apart from known noodles defects.
pub fn build_report(seed: u64, scale: u8) -> (Vec<Item>, Vec<BuildNote>) {
    let dir = std::env::temp_dir().join(format!(
        "verif-corpus-{}-{}-{seed}-{scale}",
        std::process::id(),
        TMP_COUNTER.fetch_add(1, Ordering::Relaxed)
    ));
    let _ = std::fs::create_dir_all(&dir);
    let r = items::build(seed, scale, &dir);
    let _ = std::fs::remove_dir_all(&dir);
    r
}

/// Like [`items`] with scratch files under `tmpdir` (must exist; file names are derived from item names, so
/// concurrent callers need distinct directories). The scratch files are removed, the directory is kept.
pub fn items_with_tmp(seed: u64, scale: u8, tmpdir: &Path) -> Vec<Item> {
    items::build(seed, scale, tmpdir).0
}

/// Items that had to be left out of [`items`] because a noodles reader cannot read what the matching noodles
/// writer wrote on the unchanged tree (seed independent). The multi-record CRAI items inside [`items`] share
/// problem 3 for `(Kind::Crai, Variant::Eager)`, which is why `Kind::Crai.variants()` lists `Primary` only.
pub fn known_problem_items() -> Vec<Item> {
    items::known_problems().into_iter().map(|k| k.item).collect()
}

/// The same with the variant that shows the problem and a description.
pub fn known_problems() -> Vec<KnownProblem> {
    items::known_problems()
}

/// Default capacity of the `std::io::BufReader` that [`transcript_read`] puts around a plain `Read` for
/// BufRead-based readers.
pub const DEFAULT_CAP: usize = 8192;

/// Canonical reading of `kind` from any byte source until end of input or the first error (see crate docs).
pub fn transcript_read<R: Read>(kind: Kind, src: R, side: &Side, deep: bool) -> Vec<String> {
    transcript_read_variant(kind, Variant::Primary, src, side, deep, DEFAULT_CAP)
}

/// [`transcript_read`] with an explicit `BufReader` capacity (only matters if `kind.reader_takes_bufread()`).
pub fn transcript_read_cap<R: Read>(kind: Kind, src: R, side: &Side, deep: bool, cap: usize) -> Vec<String> {
    transcript_read_variant(kind, Variant::Primary, src, side, deep, cap)
}

/// Same for sources that are `BufRead`: BufRead-based readers get `src` itself (tiny `fill_buf` windows reach
/// the noodles code); Read-based readers use it as a plain `Read`.
pub fn transcript_bufread<R: BufRead>(kind: Kind, src: R, side: &Side, deep: bool) -> Vec<String> {
    transcript_bufread_variant(kind, Variant::Primary, src, side, deep)
}

pub fn transcript_read_variant<R: Read>(kind: Kind, variant: Variant, mut src: R, side: &Side, deep: bool, cap: usize) -> Vec<String> {
    read::drive(kind, variant, read::Src::Read(&mut src, cap), side, deep)
}

pub fn transcript_bufread_variant<R: BufRead>(kind: Kind, variant: Variant, mut src: R, side: &Side, deep: bool) -> Vec<String> {
    read::drive(kind, variant, read::Src::BufRead(&mut src), side, deep)
}

/// Canonical write history of `item` onto `sink` (see crate docs). `Err(Unsupported)` — without touching the
/// sink — if `!item.writable()`.
pub fn write_history<W: Write>(item: &Item, sink: W) -> io::Result<()> {
    let p = prepare_write(item)?;
    write_prepared(&p, sink)
}

/// Structural boundaries of the file, sorted, deduplicated, always containing 0 and `bytes.len()`:
/// BGZF-wrapped kinds: start of every BGZF member (EOF marker included); Cram: the end of the file definition
/// (26), every container header, the first byte after every container header, every slice header block
/// (container body + landmark); text kinds (Sam, Vcf, Fasta, Fastq, Gff, Gtf, Bed, Fai, FastqFai): every line
/// start; BamRaw / BcfRaw: end of the header and every record start; Bai: every reference, bin and linear-index
/// start; Gzi: every entry; Crai: end of the gzip header and start of the gzip trailer.
pub fn boundaries(item: &Item) -> Vec<usize> {
    bounds::boundaries(item)
}

/// For BGZF-wrapped kinds: the inflated stream (independent walker `vcore::bgzf::walk_prefix`).
pub fn inflated_payload(item: &Item) -> Option<Vec<u8>> {
    bounds::inflated_payload(item)
}

/// Record boundaries in the (inflated) stream: `[b0, b1, …, bn]` with `b0` = end of the header = start of the
/// first record, `bi` = start of record i, `bn` = end of the last record (= stream length for a valid file).
/// BamRaw / BcfRaw: offsets in `item.bytes`; Bam / Bcf: offsets in `inflated_payload(item)`; SamGz / VcfGz:
/// line starts (header lines included) and the stream length in `inflated_payload(item)`. `None` for other kinds.
/// `bounds::{bam_record_offsets, bcf_record_offsets, line_starts}` work on any byte stream (e.g. what an
/// independent walker inflates from a truncated file).
pub fn record_boundaries_in_payload(item: &Item) -> Option<Vec<usize>> {
    bounds::record_boundaries_in_payload(item)
}
