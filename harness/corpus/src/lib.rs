//! corpus — stub (to be implemented).
